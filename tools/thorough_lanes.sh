#!/bin/bash
# thorough-tier smoke run of the checks changed in a session, three lanes; prints one summary line per check
cd "$(dirname "$0")/.."
./check --setup > /dev/null 2>&1
lane(){ for p in "$@"; do s=$(date +%s); timeout 1500 ./check $p --tier thorough > thorough-$p.log 2>&1; echo "$p exit=$? wall=$(( $(date +%s)-s ))s $(grep -c '^VIOLATION' thorough-$p.log) violations; $(tail -1 thorough-$p.log | cut -c1-170)"; done; }
lane C14 C15 C13 C09 & lane C18 C19 C07 C04 & lane C10 C17 C01 C06 & wait
