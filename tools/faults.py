"""Planted-fault catalogue (DESIGN 3.5): faults with a known report identifier, severity and culprit token.

Used by C17 (diagnostics point at the culprit) and reusable by C07 (errors fail the build, warnings never).

API (everything is plain data; every random choice comes from the `rng` you pass in)
-----------------------------------------------------------------------------------
  KINDS                      dict: name -> Fault       (insertion order = catalogue order)
  Fault                      .name .phase .ident .severity .stmt .pre .post .fs .where .note .needs_no_link
      phase     'parse-critical' | 'parse' | 'compile' | 'eval'   (when pdpy11 reports it; 'eval' = long after parsing)
      severity  'critical' | 'error' | 'warning'    (as tools/impl.py names them)
      ident     report identifier, e.g. 'undefined-symbol'
      note      why the first reported span is what it is, when it is not the narrowest offending token
  benign_program(rng, n, tag) -> [str]
      n statements (one per line, may carry a label) that assemble without any diagnostic, in any
      order and in any of the three file roles; symbols are suffixed with `tag` so that two programs
      with different tags can be linked or included together.
  plant(kind, stmts, pos, lead="", tag="q") -> Planted
      inserts the fault of that kind *before* statement number `pos` (0 <= pos <= len(stmts)) of the
      benign program `stmts`; `lead` is text put in front of the faulty statement (tabs, spaces,
      whole comment lines ending in "\\n", non-ASCII text inside a comment ...).
      Planted is a named tuple and unpacks as the 4-tuple the brief asks for when sliced [:4]:
         .source    new source text
         .ident     expected report identifier of the FIRST diagnostic
         .severity  expected severity of that diagnostic
         .offset    offset of the culprit token in .source = expected start of the first span of
                    that diagnostic.  NOTE: a *character* offset (index into the Python str), which
                    is what pdpy11's Context.pos is; for ASCII-only text it is also the byte offset.
         .end       expected end offset of that span (None when it depends on parser internals)
         .fs        extra in-memory files the fault needs (for impl.assemble(fs=...)); usually {}
         .kind      the Fault
         .also      [(identifier, start, end)]: LATER diagnostics that must lead with that token (e.g. the
                    undefined-symbol that follows a label-fixup warning)
         .others    [(start, end)] of the secondary locations (in the order the report site gives
                    them) when a set-up statement of the kind carries a marked token, e.g. the first
                    definition of a duplicate symbol
  CROSS, plant_cross(...)    diagnostics with locations in TWO files (duplicate exports, second '.link'),
                    CROSS_NAMES / CROSS_INCLUDE_NAMES: file names sorting both ways
  LEADS                      a list of `lead` strings exercising tabs / non-ASCII / comments
  kinds_by_phase()           dict phase -> [name]

In `stmt`, the culprit token is written between the markers « and » ; `{u}` is replaced by the tag.
`where='next'` means: the report points at the first token after the faulty statement (pdpy11 skips
white space and comments before it notices that something is missing).
"""
import collections

Planted = collections.namedtuple("Planted", "source ident severity offset end fs kind others also", defaults=([],))

L, R = "«", "»"
L2, R2, L3, R3 = "⟦", "⟧", "⦃", "⦄"       # second and third location of the same diagnostic, inside the faulty statement


class Fault:
    def __init__(self, name, phase, severity, ident, stmt, pre=(), post=(), fs=None, where="marker", note="",
                 needs_no_link=False, main_only=False, also=(), family=""):
        assert phase in ("parse-critical", "parse", "compile", "eval")
        assert severity in ("critical", "error", "warning")
        self.name, self.phase, self.severity, self.ident = name, phase, severity, ident
        self.stmt, self.pre, self.post, self.fs = stmt, list(pre), list(post), dict(fs or {})
        self.where, self.note = where, note
        self.needs_no_link = needs_no_link      # the benign program must not set the link base
        self.main_only = main_only              # only meaningful in a linked file (not inside .include)
        self.also = list(also)                  # [(identifier, "second"|"third")]: a LATER diagnostic that must lead with that marked token
        self.family = family                    # name of the generated family the kind belongs to ("" = written by hand)

    def __repr__(self):
        return f"<Fault {self.name}: {self.severity} {self.ident}>"


KINDS = collections.OrderedDict()


def _k(*a, **kw):
    f = Fault(*a, **kw)
    assert f.name not in KINDS, f.name
    KINDS[f.name] = f


# ---- parse-time, critical (parsing of the file stops) -------------------------------------------
_k("bad-statement-start", "parse-critical", "critical", "invalid-insn", "«») nop",
   note="empty span at the character no statement can start with")
_k("missing-operand-after-infix", "parse-critical", "critical", "invalid-expression", ".word (1 * «»)",
   note="empty span at the token found where the right operand should be (a closing parenthesis here; white space, "
        "newlines and comments are skipped first, so without it the next statement would be taken as the operand)")
_k("unclosed-bracket", "parse-critical", "critical", "invalid-expression", ".word (1 + 2", where="next",
   note="points at the token found where the closing parenthesis should be")
_k("comma-without-operand", "parse-critical", "critical", "invalid-operand", "mov r0«,» )",
   note="first span is the comma after which no operand follows")
_k("wordlist-comma-without-operand", "parse-critical", "critical", "invalid-operand", "w{u}9 = 1\nw{u}9«,» )",
   note="implicit .word list; first span is the dangling comma")
_k("bad-hex-digits", "parse-critical", "critical", "invalid-number", ".word «^X»zz")
_k("bad-octal-digits", "parse-critical", "critical", "invalid-number", ".word «^O»9")
_k("bad-binary-digits", "parse-critical", "critical", "invalid-number", ".word «^B»2")
_k("bad-decimal-digits", "parse-critical", "critical", "invalid-number", ".word «^D»x")
_k("unterminated-char", "parse-critical", "critical", "unterminated-string", ".word «'»")
_k("unterminated-char2", "parse-critical", "critical", "unterminated-string", ".word «\"a»")
_k("assignment-without-value", "parse-critical", "critical", "invalid-assignment", "av{u} «=» )")
_k("comma-after-mnemonic", "parse-critical", "critical", "invalid-insn", "mov «,» r0")
_k("unknown-caret-prefix", "parse-critical", "critical", "invalid-expression", ".word «^Q»1")
_k("prefix-without-operand", "parse-critical", "critical", "invalid-expression", ".word (-«»)",
   note="empty span at the token found where the operand of the prefix operator should be")

# ---- parse-time, not critical -------------------------------------------------------------------
_k("register-as-label", "parse", "error", "reserved-name", "«r1:» nop")
_k("register-as-assignment-target", "parse", "error", "reserved-name", "«r2» = 5")
_k("extern-local-label", "parse", "error", "invalid-extern", "«1::» nop")
_k("unknown-escape", "parse", "error", "invalid-escape", ".ascii \"a«\\q»b\"")
_k("short-hex-escape", "parse", "error", "invalid-escape", ".ascii \"ab«\\x»z\"",
   note="span runs from the backslash to where two hex digits were expected")
_k("negative-8", "parse", "error", "invalid-number", ".word -«8»",
   note="Number tokens start after the minus sign (parser.number saves ctx_start after consuming '-')")
_k("no-space-after-mnemonic", "parse", "error", "missing-whitespace", "clr«(r0)»",
   note="span from the end of the mnemonic to the end of the operand list")
_k("no-space-after-operands", "parse", "error", "missing-whitespace", ".word 1«»'a",
   note="empty span where white space was expected")
_k("rad50-literal-too-long", "parse", "error", "invalid-string", ".word «^RABCD»")
_k("rad50-literal-empty", "parse", "error", "invalid-string", ".word «^R»+1")
_k("extern-dot-assignment", "parse", "error", "invalid-assignment", "«. ==» .", needs_no_link=True, main_only=True)
_k("excess-quote", "parse", "warning", "excess-quote", "mov #«'a'», r0")
_k("label-named-like-insn", "parse", "warning", "suspicious-name", "«mov:» nop")
_k("constant-named-like-insn", "parse", "warning", "suspicious-name", "«clr» = 5")
_k("insn-named-like-register", "parse", "warning", "suspicious-name", "«r3» 5\nr3 = 1",
   note="'r3 5' is parsed as instruction 'r3'")
_k("missing-newline-between-insns", "parse", "warning", "missing-newline", "«nop» nop")

# ---- compile-time (while walking the statement list) --------------------------------------------
_k("unknown-insn", "compile", "error", "unknown-insn", "«frob» r0")
_k("unknown-meta", "compile", "error", "unknown-insn", "«.frob» 1")
_k("too-few-operands", "compile", "error", "wrong-operands", "«mov r0»",
   note="the report site passes the whole instruction")
_k("too-many-operands", "compile", "error", "wrong-operands", "«clr r0, r1»",
   note="the report site passes the whole instruction")
_k("missing-code-block", "compile", "error", "wrong-meta-operands", "«.repeat 3»",
   note="the report site passes the whole metacommand")
_k("too-many-meta-operands", "compile", "error", "wrong-meta-operands", "«.even 1»",
   note="the report site passes the whole metacommand")
_k("register-expected", "compile", "error", "invalid-addressing", "«sob 5, .»",
   note="the report site passes the whole instruction, not the operand")
_k("accumulator-expected", "compile", "error", "invalid-addressing", "«ldf (r0), r1»",
   note="the report site passes the whole instruction, not the operand")
_k("duplicate-label", "compile", "error", "duplicate-symbol", "«dl{u}:» nop", pre=["«dl{u}:» nop"])
_k("duplicate-constant", "compile", "error", "duplicate-symbol", "«dc{u} = 2»", pre=["«dc{u} = 1»"],
   note="the report site passes the whole assignment")
_k("duplicate-local-label", "compile", "error", "duplicate-symbol", "1: nop\n«1:» nop")
_k("label-inside-repeat", "compile", "error", "unexpected-symbol-definition", ".repeat 2 { «lr{u}:» nop }")
_k("constant-inside-repeat", "compile", "error", "unexpected-symbol-definition", ".repeat 2 { «cr{u} = 1»\n }",
   note="the report site passes the whole assignment")
_k("label-as-insn", "compile", "error", "meta-type-mismatch", "«li{u}» r0", pre=["«li{u}:» nop"])
_k("constant-as-insn-without-comma", "compile", "error", "meta-type-mismatch", "«ci{u}» 3", pre=["«ci{u} = 5»"])
_k("code-block-to-insn", "compile", "error", "wrong-operands", "«mov r0 { nop }»",
   note="the report site passes the whole instruction including the block")
_k("code-block-to-meta", "compile", "error", "wrong-meta-operands", "«.word 1 { nop }»",
   note="the report site passes the whole metacommand including the block")
_k("hash-in-directive", "compile", "error", "excess-hash", ".word «#5»",
   note="an error in a metacommand (metacommand_impl.py), a warning in an instruction (insns.py)")
_k("hash-in-implicit-immediate", "compile", "warning", "excess-hash", "trap «#5»")
_k("meta-without-dot", "compile", "warning", "meta-typo", "«even»")
_k("second-link", "compile", "error", "address-conflict", "«.link 2000»", pre=["«.link 1000»"], needs_no_link=True,
   note="the report site passes the whole metacommand")

# ---- evaluation-time (deferred values: reported long after parsing) -----------------------------
_k("undefined-symbol", "eval", "error", "undefined-symbol", "mov «un{u}», r0")
_k("undefined-symbol-in-expr", "eval", "error", "undefined-symbol", ".word 1 + «ux{u}» * 2")
_k("byte-too-large", "eval", "error", "value-out-of-bounds", ".byte 1, «400», 2")
_k("byte-too-small", "eval", "error", "value-out-of-bounds", ".byte «0 - 400»")
_k("word-too-large", "eval", "error", "value-out-of-bounds", ".word «200000»")
_k("implicit-word-too-large", "eval", "error", "value-out-of-bounds", "iw{u} = 1\niw{u}, «200000»")
_k("negative-count", "eval", "error", "value-out-of-bounds", ".blkb «0 - 2»")
_k("branch-too-far", "eval", "error", "branch-out-of-bounds", "«br» bf{u}", post=[".blkb 1000", "bf{u}: nop"],
   note="the report site passes the mnemonic, not the target operand")
_k("odd-branch", "eval", "error", "odd-branch", "«br» . + 3",
   note="the report site passes the mnemonic, not the target operand")
_k("sob-forward", "eval", "error", "branch-out-of-bounds", "«sob» r0, . + 4",
   note="the report site passes the mnemonic, not the target operand")
_k("trap-operand-too-large", "eval", "error", "value-out-of-bounds", "«trap» 1000",
   note="the report site passes the mnemonic, not the immediate operand")
_k("word-at-odd-address", "eval", "error", "odd-address", ".byte 1\n«.word 5»\n.byte 1",
   note="the report site passes the whole '.word' statement")
_k("bare-9-literal", "eval", "error", "invalid-number", ".word «19»")
_k("division-by-zero", "eval", "error", "arithmetic-error", ".word «5 / 0»")
_k("modulo-by-zero", "eval", "error", "arithmetic-error", ".word 1 + «7 % 0»")
_k("negative-shift", "eval", "error", "arithmetic-error", ".word «1 << (0 - 1)»")
# sub-expressions that FOLLOW an infix operator, with blanks / tabs / a comment and a line break between:
# the token of the group (and every token built on it: 'lhs op rhs' starts where lhs starts) must start at
# the first character of the group, not at the white space before it
_k("division-by-zero-group-after-infix", "eval", "error", "arithmetic-error", ".word 7 + \t«(5 - 2) / 0»",
   note="InfixOperator tokens start where their left operand starts: the parenthesis")
_k("modulo-by-zero-angle-group-after-comment", "eval", "error", "arithmetic-error", ".word 7 | ; комментарий\n\t «<5 - 2> % 0»",
   note="the group is on the next line after a comment")
_k("modulo-by-zero-caret-group-after-infix", "eval", "error", "arithmetic-error", ".word 1 +  «^/5 - 2/ % 0»")
_k("negative-shift-group-after-infix", "eval", "error", "arithmetic-error", ".word 1 |\t«(1) << (0 - 1)»",
   note="shifts bind tighter than '|' and looser than '+'")
_k("negative-right-shift-group-after-infix", "eval", "error", "arithmetic-error", ".word 1 | \t «<4> >> (0 - 1)»")
_k("call-after-infix", "eval", "error", "unexpected-value", ".word 7 +   «5(2)»",
   note="'a(b)' tokens start where the callee starts")
_k("call-of-group-after-infix", "eval", "error", "unexpected-value", ".word 7 - \t«(5)(2)»")
_k("immediate-in-group-after-infix", "eval", "error", "unexpected-value", ".word 7 * \t(«#5»)")
_k("division-by-zero-nested-after-infix", "eval", "error", "arithmetic-error", "mov #1 + \t(2 + \t«(3 - 3) / 0»), r0",
   note="two levels of groups, each after an infix operator and a tab")
# the culprit is a NON-FIRST operator of a chain of prefix operators: its token starts at that operator,
# not at the first operator of the chain (parser.expression re-saves ctx_op after every prefix operator)
_k("immediate-after-minus", "eval", "error", "unexpected-value", ".word (-«#5»)")
_k("immediate-after-minus-and-blanks", "eval", "error", "unexpected-value", ".word (- \t «#5»)")
_k("deferred-after-hash-typo", "eval", "error", "unexpected-value", "mov #«@5», r0",
   note="'#@x' typed for '@#x': '@x' cannot be a value")
_k("deferred-after-hash-and-tab", "eval", "error", "unexpected-value", "mov #\t«@5», r0")
_k("register-number-after-complement", "eval", "error", "unexpected-value", ".word (~ «%3»)")
_k("register-number-after-complement-tight", "eval", "error", "unexpected-value", ".word 1 + (~«%3»)")
_k("immediate-third-in-prefix-chain", "eval", "error", "unexpected-value", ".word (- ~\t«#5»)")
_k("immediate-after-minus-in-byte", "eval", "error", "unexpected-value", ".byte 1, (-«#5»)")
# A branch / sob offset written as a complex expression without '(' or ':': OffsetOperandStub.encode rewrites, at
# encode time, the FIRST label-shaped number met before any symbol or '.' (left operand before right; decimal 'n.',
# negative, '^X..' and character literals are not label-shaped) into the local label of that name (the rule is
# Props/C04_fixup.v C04_fixup_target_is_first).  The 'label-fixup' warning names (mnemonic, operand, that number);
# the local label being undefined, 'undefined-symbol' must then point at that number, not at the operand.
_FIX = dict(also=[("undefined-symbol", "third")],
            note="first diagnostic: warning label-fixup (mnemonic, whole operand, the number taken for a label); then undefined-symbol at that number")
_k("branch-label-number-after-decimal", "compile", "warning", "label-fixup", "«br» ⟦10.+⦃7⦄⟧", **_FIX)
_k("sob-label-number-after-negative", "compile", "warning", "label-fixup", "«sob» r1, -⟦2 + ⦃5⦄⟧", **_FIX)
_k("branch-label-number-after-hex", "compile", "warning", "label-fixup", "«beq» ⟦^X10+⦃3⦄⟧", **_FIX)
_k("branch-label-number-after-non-ascii-char-and-tab", "compile", "warning", "label-fixup", "«bne» ⟦'é + \t⦃7⦄⟧", **_FIX)
_k("branch-label-number-third-leaf", "compile", "warning", "label-fixup", "«br» ⟦10. * 2. +\t⦃6⦄ + 4⟧", **_FIX)
_k("branch-label-number-c-style-hex", "compile", "warning", "label-fixup", "«bcc» ⟦2. + ⦃0x1f⦄⟧", **_FIX)
_k("branch-label-number-with-digit-9", "compile", "warning", "label-fixup", "«bvs» ⟦8. - \t ⦃19⦄⟧", **_FIX)
_k("register-as-value", "eval", "error", "unexpected-register", ".word «r1»")
_k("autoincrement-as-value", "eval", "error", "unexpected-value", ".word (1)«+»",
   note="postfix operator tokens span the operator only (parser.expression: operator(ctx_op, ctx_op_end, ...))")
_k("deferred-as-value", "eval", "error", "unexpected-value", ".word «@5»")
_k("immediate-as-value", "eval", "error", "unexpected-value", ".word («#5»)")
_k("register-number-as-value", "eval", "error", "unexpected-value", ".word («%5»)")
_k("call-as-value", "eval", "error", "unexpected-value", ".word «5(2)»")
_k("unencodable-string", "eval", "error", "invalid-character", "«.ascii \"a€b\"»",
   note="the report site passes the whole '.ascii' statement, not the string")
_k("unencodable-char-literal", "eval", "error", "invalid-character", "mov #«'€», r0")
_k("rad50-bad-character", "eval", "error", "invalid-character", ".rad50 \"AB\" «\"a!\"»")
_k("rad50-bad-code", "eval", "error", "value-out-of-bounds", ".rad50 \"AB\"«<50.>»")
_k("rad50-bad-code-after-blanks", "eval", "error", "value-out-of-bounds", ".rad50 \"AB\"   «<50.>»",
   note="fixed in d4aabd3: the span of a '<n>' chunk used to start at the blanks before '<'")
_k("rad50-bad-code-on-continuation-line", "eval", "error", "value-out-of-bounds", ".rad50 \"AB\"\n\t«<51.>» \"C\"",
   note="fixed in d4aabd3: the span used to start at the end of the previous line")
_k("code-point-out-of-range-after-blanks", "eval", "error", "value-out-of-bounds", ".rad50 \"A\" \t«<2000000.>»",
   note="'<n>' in '.rad50' is a code 0..39; reported by rad50 with the chunk's span")
_k("tape-name-unencodable", "eval", "error", "invalid-character", "«make_wav \"x{u}.wav\", \"α\"»",
   note="the report site passes the whole statement")
_k("tape-name-too-long", "eval", "error", "too-long-string", "«make_turbo_wav \"x{u}.wav\", \"12345678901234567\"»",
   note="the report site passes the whole statement")
_k("user-error", "eval", "error", "user-error", "«.error stop here»",
   note="the report site passes the whole '.error' statement")
_k("missing-include", "eval", "error", "io-error", "«.include \"nofile{u}.mac\"»",
   note="the report site passes the whole '.include' statement")
_k("missing-insert", "eval", "error", "io-error", "«insert_file \"nofile{u}.bin\"»",
   note="the report site passes the whole 'insert_file' statement")
_k("align-zero", "eval", "error", "value-out-of-bounds", "«.align 0»",
   note="the report site passes the whole '.align' statement")
_k("self-referential-constant", "eval", "error", "recursive-definition", "«sr{u} = sr{u} + 1»",
   note="the report site passes the whole assignment")
_k("backward-skip", "eval", "error", "value-out-of-bounds", "«. = . - 2»", pre=[".link 1000"], needs_no_link=True, main_only=True,
   note="the report site passes the whole assignment")
_k("include-directory", "eval", "error", "io-error", "«.include \"dir{u}\"»", fs={"dir{u}": IsADirectoryError},
   note="the report site passes the whole '.include' statement")
_k("duplicate-export", "eval", "error", "duplicate-symbol", "«de{u}::» nop", pre=[".extern «de{u}»"])
_k("invalid-code-point", "eval", "error", "value-out-of-bounds", ".ascii \"a\"<«2000000»>")
_k("ascii-byte-too-large", "eval", "error", "value-out-of-bounds", ".ascii \"a\" <«400»> \"b\"")


# ---- evaluation-time faults INSIDE AN INSTRUCTION OPERAND: addressing mode x expression shape x operand slot --------------
# The value of an operand expression is checked long after parsing (insns.py: get_as_int for '#e', '@#e', 'e(rN)', '@e(rN)';
# Deferred arithmetic for 'e' and '@e'), and for the index modes the expression token that is reported does not even come from the
# parser: 'a OP b(rN)' is parsed as 'a OP (b(rN))' and REBUILT at encode time into '(a OP b)(rN)' (RegisterModeOperandStub.encode,
# "hoisting": infix operators, prefix operators, nested, under '@').  The culprit is the expression a reader sees in front of the
# register: it starts at its first character and ends at its last one, whatever tree surgery produced the token.
#   mode:  where the expression E sits in the operand; ranged = its value must fit in 16 bits (the relative modes wrap instead)
#   slot:  which instruction / operand position carries the operand (source, destination, single operand, jsr target, byte
#          instruction, FP11 instruction (FP11RMOperandStub falls through to the same code), body of a '.repeat' block whose
#          operand tree is shared between iterations: the FIRST diagnostic is judged)
#   expr:  (name, identifier, E with the culprit marked, set-up statements, ranged-only)
OPERAND_MODES = [
    ("immediate", "#{E}", True), ("absolute", "@#{E}", True),
    ("index", "{E}(r3)", True), ("index-deferred", "@{E}(r2)", True),
    ("index-sp", "{E}(sp)", True), ("index-regnum", "{E}(%4)", True),
    ("relative", "{E}", False), ("relative-deferred", "@{E}", False),
]
OPERAND_SLOTS = [("src", "mov {X}, r0"), ("dst", "mov r1, {X}"), ("single", "tst {X}"), ("jsr", "jsr pc, {X}"),
                 ("byte-dst", "movb r2, {X}"), ("fp11", "ldf {X}, ac1"), ("in-repeat", ".repeat 2 { add {X}, r4 }")]
OPERAND_EXPRS = [
    ("atom-too-large", "value-out-of-bounds", "«200000»", (), True),
    ("sum-too-large", "value-out-of-bounds", "«100000+100000»", (), True),
    ("spaced-sum-too-large", "value-out-of-bounds", "«100000 +\t100000»", (), True),
    ("difference-chain-too-large", "value-out-of-bounds", "«ot{u} - 200000 - ot{u}»", ("ot{u} = 4",), True),
    ("product-then-sum-too-large", "value-out-of-bounds", "«2 * 100000 + 1»", (), True),
    ("sum-then-product-too-large", "value-out-of-bounds", "«1 + 2 * 100000»", (), True),
    ("group-too-large", "value-out-of-bounds", "«(100000+100000)»", (), True),
    ("angle-group-too-large", "value-out-of-bounds", "«<100000+100000>»", (), True),
    ("negative-number-too-small", "value-out-of-bounds", "-«200000»", (), True),        # Number tokens start after the sign, see 'negative-8'
    ("negated-group-too-small", "value-out-of-bounds", "«-(200000)»", (), True),
    ("complement-too-small", "value-out-of-bounds", "«~600000»", (), True),
    ("complement-difference-too-small", "value-out-of-bounds", "«~177777 - 177777»", (), True),
    ("division-by-zero", "arithmetic-error", "«14 / 0»", (), False),
    ("division-by-zero-after-sum", "arithmetic-error", "3 + «14 / 0»", (), False),
    ("division-by-zero-before-sum", "arithmetic-error", "«14 / 0» + 3", (), False),
    ("modulo-by-zero-spaced", "arithmetic-error", "«7 %\t0»", (), False),
    ("negative-shift", "arithmetic-error", "«1 << -1»", (), False),
    ("negative-right-shift-after-or", "arithmetic-error", "2 | «1 >> -1»", (), False),
    ("undefined-symbol-last", "undefined-symbol", "2 + «ou{u}»", (), False),
    ("undefined-symbol-first", "undefined-symbol", "«ov{u}» - 2", (), False),
    ("undefined-symbol-negated", "undefined-symbol", "-«ow{u}»", (), False),
]


def _operand_family():
    for mi, (mname, mt, ranged) in enumerate(OPERAND_MODES):
        for ei, (ename, ident, e, pre, needs_range) in enumerate(OPERAND_EXPRS):
            if needs_range and not ranged:
                continue
            sname, st = OPERAND_SLOTS[(mi * 3 + ei) % len(OPERAND_SLOTS)]      # every mode meets every slot, every expr several slots
            _k("operand-%s-%s-%s" % (mname, ename, sname), "eval", "error", ident, st.replace("{X}", mt.replace("{E}", e)), pre=list(pre),
               family="operand", note="mode %s, slot %s: the culprit is the marked part of the expression as written in the source" % (mname, sname))


_operand_family()


def kinds_by_phase():
    out = collections.OrderedDict()
    for k in KINDS.values():
        out.setdefault(k.phase, []).append(k.name)
    return out


# leading text put in front of the faulty statement
LEADS = [
    "",
    "\t",
    "\t\t  ",
    " \t ",
    "; комментарий ß €\n",
    ";\ttab\tin comment\n\t",
    "\n\n",
    "t{u}: ",
    "\tt{u}:\t",
    ".ascii \"ПРИВЕТ\"\t; é\n\t",
]


def benign_program(rng, n, tag):
    """n statements that assemble silently; every symbol carries `tag`."""
    out = []
    labels = []
    for i in range(n):
        r = rng.randrange(12)
        if r == 0:
            s = "mov r%d, r%d" % (rng.randrange(6), rng.randrange(6))
        elif r == 1:
            s = "clr (r%d)+" % rng.randrange(6)
        elif r == 2:
            s = "add #%o, r%d" % (rng.randrange(1, 500), rng.randrange(6))
        elif r == 3:
            name = "b%s%d" % (tag, i)
            labels.append(name)
            s = "%s: nop" % name
        elif r == 4:
            s = "k%s%d = %o" % (tag, i, rng.randrange(100))
        elif r == 5:
            s = ".byte %d., %d." % (rng.randrange(256), rng.randrange(256))
        elif r == 6:
            s = ".word %o" % rng.randrange(65536)
        elif r == 7:
            s = ".ascii \"%s\"" % rng.choice(["ab", "OK", "Жук!", "x y "])
        elif r == 8:
            s = ".blkb 4"
        elif r == 9:
            s = "tst @#%o" % (rng.randrange(0, 0o1000) * 2)
        elif r == 10 and labels:
            s = "br %s" % labels[-1]
        else:
            s = "mov #%o, -(sp)\t; push" % rng.randrange(65536)
        out.append(s)
    return out


def _strip(text):
    for ch in (L, R, L2, R2, L3, R3):
        text = text.replace(ch, "")
    return text


def _skip_ws_comments(src, p):
    """what Context.skip_whitespace does, restated (used only to compute an expectation)"""
    while p < len(src):
        if src[p].strip() == "":
            p += 1
        elif src[p] == ";":
            q = src.find("\n", p)
            p = len(src) if q == -1 else q
        else:
            break
    return p


def _marked(text, base):
    """(clean text, (start, end) of the marked token relative to base, or None)"""
    if L in text:
        a, b = text.index(L), text.index(R)
        return _strip(text), (base + len(_strip(text[:a])), base + len(_strip(text[:b])))
    return text, None


def plant(kind, stmts, pos, lead="", tag="q"):
    k = KINDS[kind] if isinstance(kind, str) else kind
    assert 0 <= pos <= len(stmts)
    sub = lambda s: s.replace("{u}", tag)
    others, head = [], ""
    for s0 in k.pre:                      # set-up statements; a marked token there is a secondary location
        clean0, span0 = _marked(sub(s0), len(head))
        if span0:
            others.append(span0)
        head += clean0 + "\n"
    post = [sub(s) for s in k.post]
    stmt = sub(k.stmt)
    lead = sub(lead)
    head += "".join(s + "\n" for s in list(stmts[:pos]))
    tail = "".join(s + "\n" for s in list(stmts[pos:]) + post)
    body = lead + stmt
    clean = _strip(body)
    source = head + clean + "\n" + tail
    if k.where == "next":
        off = _skip_ws_comments(source, len(head) + len(clean))
        end = off
    else:
        a = body.index(L)
        b = body.index(R)
        off = len(head) + len(_strip(body[:a]))
        end = len(head) + len(_strip(body[:b]))
    named = {}
    for nm, lo, hi in (("second", L2, R2), ("third", L3, R3)):      # further locations of the same diagnostic, in this order
        if lo in body:
            named[nm] = (len(head) + len(_strip(body[:body.index(lo)])), len(head) + len(_strip(body[:body.index(hi)])))
            others.append(named[nm])
    also = [(ident, named[nm][0], named[nm][1]) for ident, nm in k.also]
    fs = {sub(p): v for p, v in k.fs.items()}
    return Planted(source, k.ident, k.severity, off, end, fs, k, others, also)


# ---- diagnostics with locations in TWO files ------------------------------------------------------
# name -> (identifier, severity, statement for the OTHER file, statement for the CULPRIT's file, order, include_ok, note)
#   the culprit is the declaration pdpy11 meets second; the report site passes (culprit, previous) in that order.
#   order 'second': the culprit's file is linked after the other one (pdpy11 meets its declaration second); both
#   orders of the file NAMES are exercised through CROSS_NAMES (a+b / z+b / lib+main / main+lib)
#   include_ok: also meaningful with the culprit's file pulled in by '.include' from the other file
Cross = collections.namedtuple("Cross", "name ident severity other culprit order include_ok note")
CROSS = collections.OrderedDict()
for _c in [
    Cross("x-duplicate-exported-label", "duplicate-symbol", "error", "«xl{u}::» nop", "«xl{u}::» nop", "second", True,
          "compiler.declare_external_symbol: (this declaration, the previous one)"),
    Cross("x-duplicate-exported-constant", "duplicate-symbol", "error", "«xc{u} == 5»", "«xc{u} == 6»", "second", True,
          "both locations are whole assignments"),
    Cross("x-duplicate-extern-directive", "duplicate-symbol", "error", "xe{u}: nop\n.extern «xe{u}»", "xe{u}: nop\n.extern «xe{u}»", "second", True,
          "'.extern' is evaluated late, in file order; the locations are the operands"),
    Cross("x-extern-directive-after-exported-label", "duplicate-symbol", "error", "«xm{u}::» nop", "xm{u}: nop\n.extern «xm{u}»", "second", True,
          "label first, '.extern' in the file linked after it second"),
    Cross("x-extern-all-after-exported-label", "duplicate-symbol", "error", "«xa{u}::» nop", ".extern «all»\nxa{u}: nop", "second", True,
          "'.extern all' is the reported location of what it exports"),
    Cross("x-exported-constant-after-exported-label", "duplicate-symbol", "error", "«xk{u}::» nop", "«xk{u} == 7»", "second", True,
          "label first, constant second"),
    Cross("x-second-link", "address-conflict", "error", "«.link 1000»", "«.link 2000»", "second", False,
          "compiler.set_link_address: (this statement, where the base was set); an included file has its own base"),
    Cross("x-link-after-dot-assignment", "address-conflict", "error", "«. = 1000»", "«.link 2000»", "second", False,
          "'. = e' before the base is known sets it; the '.link' in the file linked after it is second"),
]:
    CROSS[_c.name] = _c

# (name of the other file, name of the culprit's file): the culprit's name sorts after / before the other
CROSS_NAMES = [("a.mac", "b.mac"), ("z.mac", "b.mac"), ("lib.mac", "main.mac"), ("main.mac", "lib.mac")]
CROSS_INCLUDE_NAMES = [("a.mac", "z/inc.mac"), ("m.mac", "a/inc.mac")]      # (including file, included culprit)


def plant_cross(kind, other_stmts, culprit_stmts, pos_other, pos_culprit, lead="", tag="q"):
    """-> (other_source, culprit_source, (c_off, c_end), (o_off, o_end), Cross)"""
    k = CROSS[kind] if isinstance(kind, str) else kind
    sub = lambda s: s.replace("{u}", tag)

    def put(stmts, pos, text):
        head = "".join(s + "\n" for s in stmts[:pos])
        clean, span = _marked(text, len(head))
        return head + clean + "\n" + "".join(s + "\n" for s in stmts[pos:]), span
    osrc, ospan = put(list(other_stmts), pos_other, sub(k.other))
    csrc, cspan = put(list(culprit_stmts), pos_culprit, sub(lead) + sub(k.culprit))
    return osrc, csrc, cspan, ospan, k
