"""C10 respeller: meaning-preserving source-to-source rewrites of pdpy11 programs (DESIGN 3.6 `respell`, 4 C10).

    respell_text(text, seed, rules=ALL_RULES, tables=None) -> (new_text, stats)
    respell_prog(prog, seed, rules)   (a tools/proggen.py Prog: linked files *and* its include files)

The engine works line by line on a *conservative tokenizer*: a line is only touched when every character of
it was recognised (labels, one statement with a known mnemonic / an assignment / an implicit word list,
a trailing comment).  Contents of string and character literals, `.ascii`-like operands, the free text of
`.title`/`.sbttl`/`.error`, and `.include`/`insert_file`/`make_*` paths are never touched.  The tokenizer is
written here independently of pdpy11's parser (it is the *transformation*, not the thing under test); the
only data read from the checkout under test is the opcode table (for mnemonic synonyms = equal pattern).

Every random choice derives from (seed, rule name, line text), so the result is a pure function of the
text and the seed: delta debugging over the lines of the original (tools/ddmin.py) and over the rule set
keeps original and respelled text in step.

Rules (composable; `rules` is any subset):
  case_mnem  letter case of mnemonics and directives
  case_reg   letter case of register names
  case_sym   letter case of symbols (labels, constants, their uses), per occurrence
  case_hex   letter case of hex digits, of 0x/0o/0b and ^X ^O ^B ^D prefixes, and of ^C
  ws         horizontal whitespace: tabs vs spaces, extra / removed blanks where the grammar allows
  blank      blank and whitespace-only lines between statements
  comment    trailing and full-line ';' comments added / removed / replaced (non-ASCII text inside)
  radix      the radix a number is written in: octal <-> N. <-> 0xN <-> 0oN <-> 0bN <-> ^XN ^ON ^BN ^DN
  group      ( e ) <-> < e > <-> ^/ e / for value grouping
  regspell   rN <-> %N, sp/pc <-> r6/r7 <-> %6/%7
  synonym    mnemonics with an identical opcode pattern (bcc/bhis, bcs/blo, ret/return, ...)
  wordform   '.word a, b' <-> implicit word list 'a, b'
  legacy     '(rN)' <-> '@rN' as a whole operand
Deliberate exclusions (documented behaviour of the assembler, not spelling): in operands of branch-type
instructions (pattern letters o/O) a bare number at the top level is a local-label reference and any '('
switches that reading off -- so there only numbers *inside* brackets are re-spelled, and the bracket style
only changes in operands without a top-level number, a number followed by ':' (label), digit strings containing 8/9 without a dot (error by design),
grouping around registers ('(r0)' is an addressing mode), '<<' / '>>' adjacency, a caret at the start of
an implicit word list (it would continue the previous statement as an infix xor).
"""
import ast
import hashlib
import os
import random
import re

ALL_RULES = ("synonym", "regspell", "legacy", "group", "radix", "wordform",
             "case_mnem", "case_reg", "case_sym", "case_hex", "ws", "comment", "blank")

REGS = {"r0": 0, "r1": 1, "r2": 2, "r3": 3, "r4": 4, "r5": 5, "r6": 6, "r7": 7, "sp": 6, "pc": 7}
REG_SPELLINGS = {0: ["r0"], 1: ["r1"], 2: ["r2"], 3: ["r3"], 4: ["r4"], 5: ["r5"], 6: ["r6", "sp"], 7: ["r7", "pc"]}

# directive -> operand mode.  expr: comma separated expressions; str: string operands (opaque);
# raw: free text to end of line (opaque); none: no operands; names: symbol names
META = {
    ".byte": "expr", ".db": "expr", ".word": "expr", ".dw": "expr", ".dword": "expr",
    ".blkb": "expr", ".blkw": "expr", ".align": "expr", ".link": "expr", ".repeat": "expr",
    ".even": "none", ".odd": "none", ".end": "none", ".once": "none", ".page": "none",
    ".list": "expr", ".nlist": "expr",
    ".ascii": "str", ".asciz": "str", ".rad50": "str", ".include": "str", ".ident": "str",
    "insert_file": "str", "make_bin": "str", "make_bk0010_rom": "str", "make_raw": "str",
    "make_wav": "str", "make_turbo_wav": "str",
    # free text to the end of the line.  "rawc": the text is ignored by the directive, so a ';' comment (which the
    # parser takes as part of the text) may be added / removed / replaced; ".error" reports its text: left alone
    ".title": "rawc", ".sbttl": "rawc", ".error": "raw",
    ".extern": "names",
}

COMMENT_POOL = [
    "; comment", ";", "; İßſK", "; комментарий mov r0, r1",
    ";;; 注釈 \U0001F600", "; 'quote \" and / and <", "; .word 1, 2, 3", ";\t\ttabbed", "; x = 5 ; nested ; semis",
    ";   wide spaces", "; ( unbalanced", "; { brace", "; ^X", "; \\",
]

_opc_cache = {}


def load_opcodes(repo=None):
    """(mnemonic -> pattern) read from <repo>/pdpy11/architecture.py with `ast` (no import of the code under test)."""
    repo = repo or os.environ.get("VERIF_REPO", "/repo")
    path = os.path.join(repo, "pdpy11", "architecture.py")
    key = (path, os.path.getmtime(path))
    if key in _opc_cache:
        return _opc_cache[key]
    with open(path, encoding="utf-8") as f:
        tree = ast.parse(f.read())
    table = None
    for node in tree.body:
        if isinstance(node, ast.Assign) and len(node.targets) == 1 and getattr(node.targets[0], "id", None) == "instruction_opcodes":
            table = {}
            for k, v in zip(node.value.keys, node.value.values):
                table[k.value.lower()] = v.value   # dict literal: the last entry of a key wins, as in Python
    if table is None:
        raise RuntimeError("instruction_opcodes not found in " + path)
    _opc_cache[key] = table
    return table


class Tables:
    def __init__(self, opcodes=None):
        self.opcodes = dict(opcodes if opcodes is not None else load_opcodes())
        by_pat = {}
        for m, p in self.opcodes.items():
            by_pat.setdefault(p, []).append(m)
        self.synonyms = {m: sorted(x for x in ms if x != m) for ms in by_pat.values() if len(ms) > 1 for m in ms}
        self.syn_groups = sorted(sorted(ms) for ms in by_pat.values() if len(ms) > 1)

    def is_branch(self, m):
        p = self.opcodes[m]
        return "o" in p or "O" in p

    def plain_rm(self, m):
        """only register / register-mode / FP11 fields: no inline immediate, no offset"""
        p = self.opcodes[m]
        return not any(c in p for c in "oOiI")


# ------------------------------------------------------------------------------------------------
# tokens
class Tok:
    __slots__ = ("kind", "text", "value", "frozen")

    def __init__(self, kind, text, value=None, frozen=False):
        self.kind, self.text, self.value, self.frozen = kind, text, value, frozen

    def __repr__(self):
        return f"{self.kind}:{self.text!r}"


VALUE_KINDS = {"ident", "num", "cnum", "char", "locnum", "dot", "rad50"}
IDENT_RE = re.compile(r"[A-Za-z_$][A-Za-z0-9_$.]*")
DIGTOK_RE = re.compile(r"[0-9][A-Za-z0-9_$.]*")
DIRECTIVE_RE = re.compile(r"\.[A-Za-z_][A-Za-z_0-9]*")
MNEM_RE = re.compile(r"[A-Za-z_][A-Za-z_0-9]*")
TWO_OPS = ("<<", ">>", "==", "::")
ONE_OPS = ",()<>+-*/%&|!~#@=:{}"


def classify_number(t):
    """value of a digit-initial token when it is a number spelling this module understands, else None"""
    if re.fullmatch(r"[0-7]+", t):
        return int(t, 8)
    if re.fullmatch(r"[0-9]+\.", t):
        return int(t[:-1], 10)
    if re.fullmatch(r"0[xX][0-9a-fA-F]+", t):
        return int(t[2:], 16)
    if re.fullmatch(r"0[oO][0-7]+", t):
        return int(t[2:], 8)
    if re.fullmatch(r"0[bB][01]+", t):
        return int(t[2:], 2)
    return None


def scan_char_unit(s, i):
    """one string_char at s[i]: returns the new index or None"""
    if i >= len(s):
        return None
    if s[i] == "\\":
        if i + 1 >= len(s):
            return None
        if s[i + 1] in "xX":
            if re.fullmatch(r"[0-9a-fA-F]{2}", s[i + 2:i + 4] or ""):
                return i + 4
            return None
        if s[i + 1] in "nrtNRT\\\"'/":
            return i + 2
        return None
    if s[i] in "\t\r":
        return None
    return i + 1


def scan_expr(s, i, toks):
    """tokenize s[i:] in expression mode; returns True when everything was recognised"""
    n = len(s)
    while i < n:
        c = s[i]
        prev = next((t for t in reversed(toks) if t.kind != "ws"), None)
        prev_is_value = prev is not None and (prev.kind in VALUE_KINDS or prev.text in (")", ">"))
        if c in " \t":
            j = i
            while j < n and s[j] in " \t":
                j += 1
            toks.append(Tok("ws", s[i:j]))
            i = j
        elif c == ";":
            toks.append(Tok("comment", s[i:]))
            i = n
        elif c == "'":
            j = scan_char_unit(s, i + 1)
            if j is None or s[i + 1] == "'":
                return False
            if j < n and s[j] == "'":
                j += 1
            toks.append(Tok("char", s[i:j], frozen=True))
            i = j
        elif c == '"':
            j = scan_char_unit(s, i + 1)
            if j is None or s[i + 1] == '"':
                return False
            j2 = scan_char_unit(s, j)
            if j2 is None or s[j] == '"':
                return False
            if j2 < n and s[j2] == '"':
                j2 += 1
            toks.append(Tok("char", s[i:j2], frozen=True))
            i = j2
        elif c == "^":
            m = re.match(r"\^([XxOoBbDd])([0-9A-Za-z]+)(?![A-Za-z0-9_$.])", s[i:])
            if m and not prev_is_value:
                base = {"x": 16, "o": 8, "b": 2, "d": 10}[m.group(1).lower()]
                try:
                    v = int(m.group(2), base)
                except ValueError:
                    return False
                if "_" in m.group(2):
                    return False
                toks.append(Tok("cnum", m.group(0), value=v))
                i += len(m.group(0))
            elif re.match(r"\^[Cc](?![A-Za-z0-9_$.])", s[i:]) and not prev_is_value:
                toks.append(Tok("caretc", s[i:i + 2]))
                i += 2
            elif re.match(r"\^[Rr][A-Za-z0-9$.%]*", s[i:]) and not prev_is_value:
                m = re.match(r"\^[Rr][A-Za-z0-9$.%]*", s[i:])
                toks.append(Tok("rad50", m.group(0), frozen=True))
                i += len(m.group(0))
            elif prev_is_value and i + 1 < n and s[i + 1] in " \t":
                toks.append(Tok("op", "^"))
                i += 1
            else:
                return False     # caret brackets, ^C after a value, unknown ^q: leave the line alone
        elif c.isdigit() and c.isascii():
            m = DIGTOK_RE.match(s, i)
            t = m.group(0)
            j = m.end()
            v = classify_number(t)
            k = j
            while k < n and s[k] in " \t":
                k += 1
            if v is None or (k < n and s[k] == ":"):
                toks.append(Tok("locnum", t, frozen=True))
            else:
                toks.append(Tok("num", t, value=v))
            i = j
        elif c == ".":
            if i + 1 < n and (s[i + 1].isalnum() or s[i + 1] in "_$."):
                return False
            toks.append(Tok("dot", "."))
            i += 1
        elif c == "_" and prev_is_value and not (i + 1 < n and (s[i + 1].isalnum() or s[i + 1] in "_$.")):
            toks.append(Tok("op", "_"))
            i += 1
        elif c == "%" and prev_is_value:
            toks.append(Tok("op", "%", value="mod"))
            i += 1
        elif IDENT_RE.match(s, i) and c.isascii():
            m = IDENT_RE.match(s, i)
            toks.append(Tok("ident", m.group(0)))
            i = m.end()
        elif s[i:i + 2] in TWO_OPS:
            toks.append(Tok("op", s[i:i + 2]))
            i += 2
        elif c in ONE_OPS:
            toks.append(Tok("op", c))
            i += 1
        else:
            return False
    return True


def scan_strings(s, i, toks):
    """operands of .ascii-like directives: quoted strings and <expr> chunks, all opaque"""
    n = len(s)
    while i < n:
        c = s[i]
        if c in " \t":
            j = i
            while j < n and s[j] in " \t":
                j += 1
            toks.append(Tok("ws", s[i:j]))
            i = j
        elif c == ";":
            toks.append(Tok("comment", s[i:]))
            i = n
        elif c in "'\"/":
            j = i + 1
            while j < n and s[j] != c:
                if s[j] == "\\":
                    j += 1
                j += 1
            if j >= n:
                return False
            toks.append(Tok("str", s[i:j + 1], frozen=True))
            i = j + 1
        elif c == "<":
            j = s.find(">", i)
            if j < 0 or any(ch in s[i:j] for ch in "'\"/;<"[0:4]) or "<" in s[i + 1:j]:
                return False
            toks.append(Tok("str", s[i:j + 1], frozen=True))
            i = j + 1
        elif c == ",":
            toks.append(Tok("op", ","))
            i += 1
        else:
            return False
    return True


class Line:
    """a tokenized line; kind None = not recognised (left untouched)"""

    def __init__(self, text, tables):
        self.text = text
        self.toks = []
        self.kind = None
        self.mnem = None        # index of the mnemonic token
        self.mnem_l = None
        self.oper = None        # index of the first operand-area token
        self.mode = None
        self.cr = ""
        self._parse(tables)

    def sig(self, start=0):
        return [k for k in range(start, len(self.toks)) if self.toks[k].kind not in ("ws", "comment")]

    def _parse(self, tables):
        s = self.text
        if s.endswith("\r"):
            s, self.cr = s[:-1], "\r"
        if not s.isascii():
            # non-ASCII is only accepted inside a comment that starts at a position found by the scanner
            pass
        toks = self.toks
        i = 0
        n = len(s)
        # labels and the statement head are found on the raw text, left to right
        while True:
            m = re.match(r"[ \t]*", s[i:])
            if m.group(0):
                toks.append(Tok("ws", m.group(0)))
                i += len(m.group(0))
            m = re.match(r"([A-Za-z_$0-9][A-Za-z0-9_$.]*)([ \t]*)(::|:)", s[i:])
            if m and not re.match(r"[0-9]+\.$", m.group(1) + "$"):
                name = m.group(1)
                toks.append(Tok("label", name, frozen=name[0].isdigit() or name.lower() in REGS))
                if m.group(2):
                    toks.append(Tok("ws", m.group(2)))
                toks.append(Tok("op", m.group(3)))
                i += len(m.group(0))
                continue
            break
        rest = s[i:]
        if rest == "" or rest.startswith(";"):
            if rest:
                toks.append(Tok("comment", rest))
            self.kind = "empty"
            return
        if rest[0] in "{}":
            toks.append(Tok("op", rest[0]))
            t2 = []
            if not scan_expr(s, i + 1, t2) or any(t.kind not in ("ws", "comment") for t in t2):
                self.kind = None
                return
            toks.extend(t2)
            self.kind = "brace"
            return
        # assignment?
        m = re.match(r"([A-Za-z_$][A-Za-z0-9_$.]*|\.)([ \t]*)(==|=)", rest)
        if m:
            if m.group(1) == ".":
                toks.append(Tok("dot", "."))
            else:
                toks.append(Tok("ident", m.group(1), frozen=m.group(1).lower() in REGS))
            if m.group(2):
                toks.append(Tok("ws", m.group(2)))
            toks.append(Tok("op", m.group(3)))
            self.oper = len(toks)
            if not scan_expr(s, i + len(m.group(0)), toks):
                return
            self.kind = "assign"
            self.mode = "expr"
            return self._validate()
        m = DIRECTIVE_RE.match(rest) or MNEM_RE.match(rest)
        if m and not rest[0].isdigit():
            name = m.group(0)
            low = name.lower()
            after = rest[len(name):]
            if low in META or low in tables.opcodes:
                if after and after[0] not in " \t;":
                    return        # 'mov#1' etc.
                toks.append(Tok("mnem", name))
                self.mnem = len(toks) - 1
                self.mnem_l = low
                self.oper = len(toks)
                j = i + len(name)
                if low in META:
                    self.kind = "meta"
                    self.mode = META[low]
                    if self.mode in ("raw", "rawc"):
                        rest_ = s[j:]
                        lead = rest_[:len(rest_) - len(rest_.lstrip(" \t"))]
                        if lead:
                            toks.append(Tok("ws", lead))
                        if rest_[len(lead):]:
                            toks.append(Tok("rawtext", rest_[len(lead):], frozen=True))
                        return
                    if self.mode == "str":
                        if not scan_strings(s, j, toks):
                            self.kind = None
                        return
                    if not scan_expr(s, j, toks):
                        self.kind = None
                        return
                    if self.mode == "none" and self.sig(self.oper):
                        self.kind = None
                        return
                    if low == ".repeat":
                        # '.repeat N {' : the brace must end the line
                        sg = self.sig(self.oper)
                        braces = [k for k in sg if self.toks[k].text in "{}" and self.toks[k].kind == "op"]
                        if braces and (braces != [sg[-1]] or self.toks[sg[-1]].text != "{"):
                            self.kind = None
                            return
                    return self._validate()
                self.kind = "insn"
                self.mode = "expr"
                if not scan_expr(s, j, toks):
                    self.kind = None
                    return
                return self._validate()
            # an identifier that is no mnemonic: implicit word list only when a comma follows
            if name.startswith(".") or ("." + low) in META or low in REGS:
                return
            if re.match(r"[A-Za-z0-9_$.]*[ \t]*,", after) and IDENT_RE.match(rest).group(0) == re.match(r"[A-Za-z_$][A-Za-z0-9_$.]*", rest).group(0):
                self.oper = len(toks)
                if not scan_expr(s, i, toks):
                    return
                self.kind = "wordlist"
                self.mode = "expr"
                return self._validate()
            return
        if rest[0].isdigit() and rest[0].isascii():
            self.oper = len(toks)
            if not scan_expr(s, i, toks):
                return
            if self.toks[self.oper].kind != "num":
                return
            self.kind = "wordlist"
            self.mode = "expr"
            return self._validate()
        return

    def _validate(self):
        """light sanity: brackets match, no two values side by side, no braces outside '.repeat N {'"""
        sg = self.sig(self.oper)
        depth = []
        prev = None
        for k in sg:
            t = self.toks[k]
            if t.kind in VALUE_KINDS and prev is not None and (prev.kind in VALUE_KINDS or prev.text in (")", ">")):
                self.kind = None
                return
            if t.kind == "op":
                if t.text in "(<":
                    depth.append(t.text)
                elif t.text in ")>":
                    if not depth or depth.pop() != {")": "(", ">": "<"}[t.text]:
                        self.kind = None
                        return
                elif t.text in "{}" and not (self.mnem_l == ".repeat" and k == sg[-1]):
                    self.kind = None
                    return
                elif t.text in (":", "::", "=", "==", "~"):
                    self.kind = None    # 'a:' operand markers, '~': not handled
                    return
            prev = t
        if depth:
            self.kind = None
            return
        if self.kind == "wordlist" and sg and self.toks[sg[-1]].text == ",":
            pass
        if "".join(t.text for t in self.toks) + self.cr != self.text:
            self.kind = None

    def render(self):
        return "".join(t.text for t in self.toks) + self.cr


# ------------------------------------------------------------------------------------------------
# rules
def _rng(seed, rule, text):
    h = hashlib.sha256(f"{seed}\x00{rule}\x00{text}".encode("utf-8")).digest()
    return random.Random(int.from_bytes(h[:8], "big"))


def toggle_case(s, r, p=0.5):
    out = []
    for ch in s:
        if ch.isascii() and ch.isalpha() and r.random() < p:
            out.append(ch.lower() if ch.isupper() else ch.upper())
        else:
            out.append(ch)
    return "".join(out)


def spell_number(v, style, r):
    if style == "oct":
        return oct(v)[2:]
    if style == "dec":
        return f"{v}."
    if style == "0x":
        return "0x" + format(v, "x")
    if style == "0o":
        return "0o" + format(v, "o")
    if style == "0b":
        return "0b" + format(v, "b")
    if style == "^X":
        return "^X" + format(v, "x")
    if style == "^O":
        return "^O" + format(v, "o")
    if style == "^B":
        return "^B" + format(v, "b")
    if style == "^D":
        return "^D" + str(v)
    raise ValueError(style)


PLAIN_STYLES = ["oct", "dec", "0x", "0o", "0b"]
CARET_STYLES = ["^X", "^O", "^B", "^D"]


def _next_sig(line, k):
    for j in range(k + 1, len(line.toks)):
        if line.toks[j].kind not in ("ws", "comment"):
            return j
    return None


def _prev_sig(line, k):
    for j in range(k - 1, -1, -1):
        if line.toks[j].kind not in ("ws", "comment"):
            return j
    return None


def _is_value_end(t):
    return t.kind in VALUE_KINDS or (t.kind == "op" and t.text in (")", ">"))


def rule_synonym(line, r, T, st):
    if line.kind != "insn":
        return
    syn = T.synonyms.get(line.mnem_l)
    if syn and r.random() < 0.7:
        new = r.choice(syn)
        old = line.toks[line.mnem].text
        line.toks[line.mnem].text = new.upper() if old.isupper() else new
        line.mnem_l = new
        st["synonym"] += 1


def _operand_bounds(line):
    """list of (first, last) token index ranges of top-level comma separated operands"""
    sg = line.sig(line.oper)
    out, cur, depth = [], [], 0
    for k in sg:
        t = line.toks[k]
        if t.kind == "op" and t.text in "(<":
            depth += 1
        if t.kind == "op" and t.text in ")>":
            depth -= 1
        if t.kind == "op" and t.text == "," and depth == 0:
            out.append(cur)
            cur = []
        elif t.kind == "op" and t.text == "{" and depth == 0:
            break
        else:
            cur.append(k)
    out.append(cur)
    return out


def _reg_at(line, ks):
    """if tokens ks spell a register ('r3' | 'sp' | '%' NUM) return its number"""
    if len(ks) == 1 and line.toks[ks[0]].kind == "ident" and line.toks[ks[0]].text.lower() in REGS:
        return REGS[line.toks[ks[0]].text.lower()]
    if len(ks) == 2 and line.toks[ks[0]].text == "%" and line.toks[ks[0]].kind == "op" and line.toks[ks[0]].value != "mod" and line.toks[ks[1]].kind in ("num", "cnum") \
            and 0 <= line.toks[ks[1]].value <= 7:
        return line.toks[ks[1]].value
    return None


def rule_regspell(line, r, T, st):
    if line.kind != "insn" or T.is_branch(line.mnem_l):
        return
    k = line.oper
    while k is not None and k < len(line.toks):
        t = line.toks[k]
        if t.kind == "ident" and t.text.lower() in REGS:
            p, nx = _prev_sig(line, k), _next_sig(line, k)
            ok_next = nx is None or (line.toks[nx].kind == "op" and line.toks[nx].text in (",", ")"))
            ok_prev = p is not None and (p == line.mnem or (line.toks[p].kind == "op" and line.toks[p].text in (",", "(", "@")))
            if ok_next and ok_prev and r.random() < 0.6:
                n = REGS[t.text.lower()]
                choices = [x for x in REG_SPELLINGS[n] if x != t.text.lower()] + ["%"]
                c = r.choice(choices)
                if c == "%":
                    line.toks[k:k + 1] = [Tok("op", "%"), Tok("num", oct(n)[2:], value=n)]
                    k += 1
                else:
                    t.text = c.upper() if t.text.isupper() else c
                st["regspell"] += 1
        elif t.kind == "op" and t.text == "%" and t.value != "mod":
            nx = _next_sig(line, k)
            if nx is not None and line.toks[nx].kind in ("num", "cnum") and 0 <= line.toks[nx].value <= 7 and nx == k + 1:
                n2 = _next_sig(line, nx)
                p = _prev_sig(line, k)
                ok_next = n2 is None or (line.toks[n2].kind == "op" and line.toks[n2].text in (",", ")"))
                ok_prev = p is not None and (p == line.mnem or (line.toks[p].kind == "op" and line.toks[p].text in (",", "(", "@")))
                if ok_next and ok_prev and r.random() < 0.6:
                    n = line.toks[nx].value
                    line.toks[k:nx + 1] = [Tok("ident", r.choice(REG_SPELLINGS[n]))]
                    st["regspell"] += 1
        k += 1


def rule_legacy(line, r, T, st):
    if line.kind != "insn" or not T.plain_rm(line.mnem_l):
        return
    for ks in _operand_bounds(line):
        if not ks:
            continue
        tk = [line.toks[k] for k in ks]
        if tk[0].kind == "op" and tk[0].text == "(" and tk[-1].kind == "op" and tk[-1].text == ")" and _reg_at(line, ks[1:-1]) is not None:
            if r.random() < 0.6:
                # '(rN)' -> '@rN': drop everything between the brackets' ends except the register tokens
                lo, hi = ks[0], ks[-1]
                line.toks[lo:hi + 1] = [Tok("op", "@")] + [line.toks[k] for k in ks[1:-1]]
                st["legacy"] += 1
                return rule_legacy(line, r, T, st) if False else None
        elif tk[0].kind == "op" and tk[0].text == "@" and _reg_at(line, ks[1:]) is not None:
            if r.random() < 0.6:
                lo, hi = ks[0], ks[-1]
                line.toks[lo:hi + 1] = [Tok("op", "(")] + [line.toks[k] for k in ks[1:]] + [Tok("op", ")")]
                st["legacy"] += 1
                return


CARET_DELIMS = ["/", "|", "?", "[", "]", "\\"]


def _branch_scope(line):
    """offset-type instructions (br, sob, ...): a bare number at the top level of the operand is (or may become) a
    local-label reference, and any '(' in the operand switches that reading off.  Returns (inside, clean):
    inside = token indices lying inside some bracket (plain values: radix may be rewritten there);
    clean  = token indices of operands that hold no number-shaped token outside brackets (only there may the
             bracket style change, because only there '(' versus '<' cannot alter what a top-level number means)"""
    inside, clean = set(), set()
    for ks in _operand_bounds(line):
        depth, outside_num = 0, False
        for k in ks:
            t = line.toks[k]
            if t.kind == "op" and t.text in ")>":
                depth -= 1
            if depth > 0:
                inside.add(k)
            elif t.kind in ("num", "locnum", "cnum"):
                outside_num = True
            if t.kind == "op" and t.text in "(<":
                depth += 1
        if not outside_num:
            clean.update(ks)
    return inside, clean


def rule_group(line, r, T, st):
    if line.kind not in ("insn", "meta", "assign", "wordlist") or line.mode != "expr":
        return
    branch_clean = None
    if line.kind == "insn" and T.is_branch(line.mnem_l):
        branch_clean = _branch_scope(line)[1]
    sg = line.sig(line.oper)
    stack, pairs = [], []
    for k in sg:
        t = line.toks[k]
        if t.kind == "op" and t.text in "(<":
            stack.append(k)
        elif t.kind == "op" and t.text in ")>":
            pairs.append((stack.pop(), k))
    first_sig = sg[0] if sg else None
    for (a, b) in pairs:
        inner = [k for k in sg if a < k < b]
        if not inner:
            continue
        if branch_clean is not None and a not in branch_clean:
            continue
        if any((line.toks[k].kind == "ident" and line.toks[k].text.lower() in REGS) or (line.toks[k].kind == "op" and line.toks[k].text == "%" and line.toks[k].value != "mod") for k in inner):
            continue          # never around a register
        p = _prev_sig(line, a)
        if p is not None and p >= line.oper and _is_value_end(line.toks[p]):
            continue          # a call 'x(y)', not grouping
        if line.kind == "wordlist" and a == first_sig:
            continue
        nx = _next_sig(line, b)
        if nx is not None and line.toks[nx].kind == "op" and line.toks[nx].text in ("+", "-"):
            n2 = _next_sig(line, nx)
            if n2 is None or (line.toks[n2].kind == "op" and line.toks[n2].text in (",", ")", "}", ">")):
                continue      # '(x)+' postfix shape
        if r.random() > 0.6:
            continue
        content = "".join(t.text for t in line.toks[a + 1:b])
        before = "".join(t.text for t in line.toks[:a])
        after = "".join(t.text for t in line.toks[b + 1:])
        styles = ["("]
        if not (before.endswith("<") or content.startswith("<") or content.endswith(">") or after.startswith(">")):
            styles.append("<")
        delims = [d for d in CARET_DELIMS if d not in content and not after.lstrip(" \t").startswith(d)]
        if delims and "$" not in content and not (before.rstrip(" \t")[-1:].isalnum()):
            styles.append("^")
        cur = line.toks[a].text
        styles = [s for s in styles if s != cur] or [cur]
        s = r.choice(styles)
        if s == "(":
            line.toks[a].text, line.toks[b].text = "(", ")"
        elif s == "<":
            line.toks[a].text, line.toks[b].text = "<", ">"
        else:
            d = r.choice(delims)
            line.toks[a] = Tok("cbr", "^" + d, frozen=True)
            line.toks[b] = Tok("cbr", d, frozen=True)
        if s != cur:
            st["group"] += 1


def rule_radix(line, r, T, st):
    if line.kind not in ("insn", "meta", "assign", "wordlist") or line.mode != "expr":
        return
    branch_inside = None
    if line.kind == "insn" and T.is_branch(line.mnem_l):
        branch_inside = _branch_scope(line)[0]
    sg = line.sig(line.oper)
    first = sg[0] if sg else None
    for k in sg:
        t = line.toks[k]
        if t.kind not in ("num", "cnum") or t.frozen:
            continue
        if branch_inside is not None and k not in branch_inside:
            continue
        if r.random() > 0.6:
            continue
        styles = list(PLAIN_STYLES)
        if not (line.kind == "wordlist" and k == first):
            p = _prev_sig(line, k)
            # '^' right after a value would read as infix xor: only where an operand starts
            if p is None or not _is_value_end(line.toks[p]):
                styles += CARET_STYLES
        new = spell_number(t.value, r.choice(styles), r)
        if new != t.text:
            line.toks[k] = Tok("cnum" if new.startswith("^") else "num", new, value=t.value)
            st["radix"] += 1


def rule_wordform(line, r, T, st, continuation):
    if continuation:
        return
    if line.kind == "wordlist":
        if r.random() < 0.6:
            k = line.oper
            line.toks[k:k] = [Tok("mnem", r.choice([".word", ".word", ".dw"])), Tok("ws", " ")]
            line.kind, line.mnem, line.mnem_l, line.oper = "meta", k, ".word", k + 1
            st["wordform"] += 1
    elif line.kind == "meta" and line.mnem_l in (".word", ".dw"):
        sg = line.sig(line.oper)
        if not sg:
            return
        f = line.toks[sg[0]]
        ok = False
        if f.kind == "num":
            ok = True
        elif f.kind == "ident" and len(sg) > 1 and line.toks[sg[1]].text == "," and line.toks[sg[1]].kind == "op":
            low = f.text.lower()
            ok = low not in REGS and low not in T.opcodes and low not in META and ("." + low) not in META and not low.startswith(".")
        if ok and r.random() < 0.6:
            k = line.mnem
            drop = 2 if (k + 1 < len(line.toks) and line.toks[k + 1].kind == "ws") else 1
            del line.toks[k:k + drop]
            line.kind, line.mnem, line.mnem_l, line.oper = "wordlist", None, None, k
            st["wordform"] += 1


def rule_case(line, r, T, st, which):
    for k, t in enumerate(line.toks):
        if t.frozen:
            continue
        if which == "case_mnem" and t.kind == "mnem":
            new = toggle_case(t.text, r)
        elif which == "case_reg" and t.kind == "ident" and t.text.lower() in REGS and line.kind == "insn":
            new = toggle_case(t.text, r)
        elif which == "case_sym" and ((t.kind == "ident" and t.text.lower() not in REGS) or t.kind == "label"):
            new = toggle_case(t.text, r)
        elif which == "case_hex" and t.kind in ("num", "cnum", "caretc"):
            new = toggle_case(t.text, r)
        else:
            continue
        if new != t.text:
            t.text = new
            st[which] += 1


def _rand_ws(r, minimum=0):
    n = r.choice([0, 0, 1, 1, 2, 3]) if minimum == 0 else r.choice([1, 1, 2, 4])
    return "".join(r.choice(" \t") for _ in range(n))


TIGHT_OPS = {"+", "-", "*", "/", "&", "|", "!", "=", "=="}


def rule_ws(line, r, T, st):
    if line.kind is None:
        return
    toks = line.toks
    raw = line.mode in ("raw", "rawc")
    # 1. existing whitespace: re-draw (tabs vs spaces, length), remove where allowed
    for k, t in enumerate(toks):
        if t.kind != "ws":
            continue
        prev = toks[k - 1] if k > 0 else None
        nxt = toks[k + 1] if k + 1 < len(toks) else None
        if prev is None:
            t.text = _rand_ws(r, 0) if r.random() < 0.5 else t.text      # indentation
            st["ws"] += 1
            continue
        if nxt is None or nxt.kind == "comment":
            if not raw and r.random() < 0.5:
                t.text = _rand_ws(r, 0)
                st["ws"] += 1
            continue
        if raw or line.mode == "str":
            if prev.kind == "mnem" and r.random() < 0.5:
                t.text = _rand_ws(r, 1)
                st["ws"] += 1
            continue
        removable = False
        if prev.kind == "op" and prev.text == "," or nxt.kind == "op" and nxt.text == ",":
            removable = prev.kind != "mnem"
        elif prev.kind == "op" and prev.text in TIGHT_OPS and (nxt.kind in VALUE_KINDS or (nxt.kind == "op" and nxt.text in "(<")):
            removable = not (prev.text in ("=", "==") and False)
        elif nxt.kind == "op" and nxt.text in TIGHT_OPS and _is_value_end(prev):
            removable = True
        if prev.kind in ("mnem",) or (prev.kind == "op" and prev.text in (":", "::")):
            removable = False
        if prev.kind == "char":
            removable = removable and not prev.text.endswith(("'", '"')) or removable
        if removable and nxt.kind == "op" and prev.kind == "op" and (prev.text + nxt.text) in ("<<", ">>", "==", "::"):
            removable = False
        # a '<' / '>' bracket must never end up next to another one
        if removable and ((prev.text.endswith("<") and nxt.text.startswith("<")) or (prev.text.endswith(">") and nxt.text.startswith(">"))):
            removable = False
        if r.random() < 0.6:
            t.text = _rand_ws(r, 0 if removable else 1)
            st["ws"] += 1
    # 2. insertion at allowed boundaries (expression-mode lines only)
    if line.mode == "expr" and line.kind in ("insn", "meta", "assign", "wordlist"):
        out = []
        for k, t in enumerate(toks):
            out.append(t)
            nxt = toks[k + 1] if k + 1 < len(toks) else None
            if nxt is None or t.kind in ("ws", "comment") or nxt.kind in ("ws", "comment"):
                continue
            if k < line.oper - 1 and line.kind != "assign":
                continue
            ok = False
            if (t.kind == "op" and t.text == ",") or (nxt.kind == "op" and nxt.text == ","):
                ok = True
            elif t.kind == "op" and t.text in TIGHT_OPS | {"#", "@", "%", "(", "<"} and t.kind != "cbr":
                ok = True
            elif nxt.kind == "op" and nxt.text in TIGHT_OPS | {")", ">", "("}:
                ok = True
            if t.kind in ("cbr", "caretc") or nxt.kind == "cbr":
                ok = False
            if t.kind == "mnem":
                ok = False
            if ok and r.random() < 0.25:
                out.append(Tok("ws", _rand_ws(r, 1)))
                st["ws"] += 1
        line.toks = out
    # 3. label colon
    out = []
    for k, t in enumerate(line.toks):
        out.append(t)
        if t.kind == "label" and k + 1 < len(line.toks) and line.toks[k + 1].kind == "op" and r.random() < 0.2:
            out.append(Tok("ws", _rand_ws(r, 1)))
            st["ws"] += 1
    line.toks = out
    # trailing blanks
    if line.toks and line.toks[-1].kind not in ("ws", "rawtext") and not raw and r.random() < 0.2:
        line.toks.append(Tok("ws", _rand_ws(r, 1)))
        st["ws"] += 1


def rule_comment(line, r, T, st):
    if line.kind is None or line.mode == "raw":
        return
    toks = line.toks
    if line.mode == "rawc":
        # '.title' / '.sbttl': everything up to the end of the line, a ';' included, is the text, and the directive
        # ignores what the text says -- but not WHETHER there is text ('.title' alone is an error, '.title ;c' is not):
        # a rewrite never turns an empty text into a non-empty one or back
        if toks and toks[-1].kind == "rawtext":
            t = toks[-1]
            k = t.text.find(";")
            c = r.random()
            if k >= 0 and not t.text[:k].strip(" \t"):
                if c < 0.6:
                    t.text = r.choice(COMMENT_POOL)              # the text is only a comment: replace it, keep it non-empty
                    st["comment"] += 1
            elif k >= 0 and c < 0.35:
                t.text = t.text[:k].rstrip(" \t")
                st["comment"] += 1
            elif k >= 0 and c < 0.65:
                t.text = t.text[:k] + r.choice(COMMENT_POOL)
                st["comment"] += 1
            elif k < 0 and c < 0.5:
                t.text = t.text + r.choice(["", " ", "\t"]) + r.choice(COMMENT_POOL)
                st["comment"] += 1
        return
    if toks and toks[-1].kind == "comment":
        c = r.random()
        if c < 0.4:
            toks.pop()
            st["comment"] += 1
        elif c < 0.7:
            toks[-1].text = r.choice(COMMENT_POOL)
            st["comment"] += 1
    elif r.random() < 0.4:
        if toks and toks[-1].kind != "ws" and r.random() < 0.7:
            toks.append(Tok("ws", " "))
        toks.append(Tok("comment", r.choice(COMMENT_POOL)))
        st["comment"] += 1


def _ends_open(line):
    """the statement on this line may continue on the next one (trailing comma / operator / bare mnemonic)"""
    if line.kind is None:
        return True
    sg = line.sig()
    if not sg:
        return False
    t = line.toks[sg[-1]]
    if t.kind == "op" and t.text not in (")", ">", "{", "}", ":", "::"):
        return True
    if t.kind == "mnem" and line.mode not in ("none", "raw", "rawc"):
        return True
    return False


def respell_text(text, seed, rules=ALL_RULES, tables=None):
    """returns (new_text, stats).  stats: per rule number of edits, plus lines seen / recognised."""
    T = tables or Tables()
    rules = set(rules)
    st = {k: 0 for k in ALL_RULES}
    st.update(lines=0, recognised=0, kinds={})
    src_lines = text.split("\n")
    out = []
    prev_open = False
    prev_known = True
    seen = {}
    for idx, raw in enumerate(src_lines):
        occ = seen.get(raw, 0)
        seen[raw] = occ + 1
        salt = raw if occ == 0 else f"{raw}\x00{occ}"
        line = Line(raw, T)
        st["lines"] += 1
        if line.kind is not None:
            st["recognised"] += 1
        st["kinds"][str(line.kind)] = st["kinds"].get(str(line.kind), 0) + 1
        last = idx == len(src_lines) - 1
        continuation = prev_open
        this_open = _ends_open(line)
        if line.kind is None:
            out.append(raw)
            prev_open, prev_known = True, False
            continue
        for rule in ALL_RULES:
            if rule not in rules:
                continue
            r = _rng(seed, rule, salt)
            if continuation and rule in ("wordform", "synonym", "regspell", "legacy", "group", "radix"):
                continue     # a continuation line was classified without its head: only lexical rules
            if rule == "synonym":
                rule_synonym(line, r, T, st)
            elif rule == "regspell":
                rule_regspell(line, r, T, st)
            elif rule == "legacy":
                rule_legacy(line, r, T, st)
            elif rule == "group":
                rule_group(line, r, T, st)
            elif rule == "radix":
                rule_radix(line, r, T, st)
            elif rule == "wordform":
                rule_wordform(line, r, T, st, continuation)
            elif rule in ("case_mnem", "case_reg", "case_sym", "case_hex"):
                if continuation and rule != "case_hex":
                    continue
                rule_case(line, r, T, st, rule)
            elif rule == "ws":
                if not continuation:
                    rule_ws(line, r, T, st)
            elif rule == "comment":
                rule_comment(line, r, T, st)
        if "blank" in rules and prev_known and not (last and raw == ""):
            r = _rng(seed, "blank", salt)
            if r.random() < 0.15:
                for _ in range(r.choice([1, 1, 2])):
                    c = r.random()
                    out.append("" if c < 0.4 else (_rand_ws(r, 1) if c < 0.7 else _rand_ws(r, 0) + r.choice(COMMENT_POOL)))
                    st["blank"] += 1
        out.append(line.render())
        prev_open, prev_known = this_open, True
    return "\n".join(out), st


def merge_stats(a, b):
    for k, v in b.items():
        if isinstance(v, dict):
            d = a.setdefault(k, {})
            for kk, vv in v.items():
                d[kk] = d.get(kk, 0) + vv
        else:
            a[k] = a.get(k, 0) + v
    return a


def respell_files(files, fs, seed, rules=ALL_RULES, tables=None, respell_fs=True):
    """files: [(name, text)], fs: {path: str|bytes}.  Text entries of fs (include files) are respelled too."""
    T = tables or Tables()
    stats = {}
    new_files = []
    for fn, text in files:
        t2, st = respell_text(text, seed, rules, T)
        merge_stats(stats, st)
        new_files.append((fn, t2))
    new_fs = None
    if fs is not None:
        new_fs = {}
        for p, data in fs.items():
            if respell_fs and isinstance(data, str):
                t2, st = respell_text(data, seed, rules, T)
                merge_stats(stats, st)
                new_fs[p] = t2
            else:
                new_fs[p] = data
    return new_files, new_fs, stats


def respell_prog(prog, seed, rules=ALL_RULES, tables=None):
    """A proggen Prog: respell every linked file and every include file.  Returns (files, fs, stats).
    The abstract statement list is used as a cross-check: every generated statement line must be recognised,
    and the engine's classification must agree with the statement kind (stats['kind_mismatch'])."""
    T = tables or Tables()
    files, fs, stats = respell_files(prog.files, prog.fs, seed, rules, T)
    return files, fs, stats


KIND_OF_STMT = {
    "insn0": "insn", "insn1": "insn", "insn2": "insn", "insni": "insn", "branch": "insn",
    "byte": "meta", "word": "meta", "dword": "meta", "ascii": "meta", "asciz": "meta", "rad50": "meta",
    "blkb": "meta", "blkw": "meta", "even": "meta", "odd": "meta", "align": "meta", "insert": "meta",
    "include": "meta", "link": None, "wordlist": "wordlist", "assign": "assign", "skip": "assign",
    "label": "empty", "locallabel": "empty", "repeat": "meta",
}


def check_stmt_kinds(prog, tables=None):
    """cross-check of the tokenizer against proggen's abstract statements: returns list of mismatches"""
    T = tables or Tables()
    bad = []

    def walk(stmts):
        for s in stmts:
            first = s.text.split("\n")[0]
            ln = Line(first, T)
            want = KIND_OF_STMT.get(s.kind, "?")
            if s.kind == "link":
                want = "meta" if first.startswith(".link") else "assign"
            if ln.kind != want:
                bad.append((s.kind, first, ln.kind))
            if s.kind in ("repeat", "include"):
                walk(s.attrs.get("body", []))
    for stmts in prog.stmts:
        walk(stmts)
    return bad


if __name__ == "__main__":
    import sys
    seed = int(sys.argv[2]) if len(sys.argv) > 2 else 1
    with open(sys.argv[1], encoding="utf-8") as f:
        t = f.read()
    new, st = respell_text(t, seed)
    sys.stdout.write(new)
    sys.stderr.write(repr(st) + "\n")
