"""pdpy11's own parse tree  ->  Coq term of Model/Asm.v's `program` (spelled with the shorthands of Run/RRun.v).

    conv = convert(filename, text, fs=None)
    conv.term        Coq term (string) of type `program`, or None when the program is outside the subset
    conv.unsupported Counter: statement / operand kinds outside the subset (reported, never guessed)
    conv.kinds       Counter: statement kinds converted
    conv.parse_diags error-severity diagnostics of the parser (a program with any is outside the subset)

The operand classification mirrors insns.py (RegisterModeOperandStub.encode incl. hoist, FP11RMOperandStub,
OffsetOperandStub incl. fixup_label, ImmediateOperandStub); which stub an operand position has is read from the
implementation's own table (pdpy11.insns.instructions), the table C01 regenerates and proves against.
Names are lower-cased (CaseInsensitiveDict); non-ASCII names are outside the subset.
"""
import collections
import os
import sys

REPO = os.environ.get("VERIF_REPO", "/repo")
if REPO not in sys.path:
    sys.path.insert(0, REPO)


class Unsupported(Exception):
    def __init__(self, kind):
        Exception.__init__(self, kind)
        self.kind = kind


def _mods():
    from pdpy11 import types, operators, insns, reports, parser, devices  # noqa
    from pdpy11.builtins import builtin_commands
    from pdpy11.metacommand_impl import Metacommand
    return types, operators, insns, reports, parser, devices, builtin_commands, Metacommand


def zlit(x):
    return ("(%d)" % x) if x < 0 else str(int(x))


def coq_str(s):
    if not all(32 <= ord(c) < 127 for c in s):
        raise Unsupported("non-ascii-name")
    return '"' + s.replace('"', '""') + '"'


# light-weight nodes for rewritten (hoisted / fixed-up) trees: ("call", lhs, rhs), ("infix", cls, lhs, rhs),
# ("prefix", cls, operand), ("postfix", cls, operand), ("symlabel", name); anything else is the original token
BINOPS = {"*": "BMul", "/": "BDiv", "%": "BMod", "+": "BAdd", "-": "BSub", "<<": "BShl", ">>": "BShr", "_": "BLsh",
          "&": "BAnd", "^": "BXor", "|": "BOr", "!": "BBang"}
UNOPS = {"pos": "UPlus", "neg": "UNeg", "inv": "UInv", "inv2": "UCompl"}


class Shared:
    def __init__(self):
        self.unsupported = collections.Counter()
        self.kinds = collections.Counter()
        self.parse_diags = []
        self.next_fid = 1
        self.times_included = collections.Counter()
        self.depth = 0


class Converter:
    def __init__(self, filename, fs=None, charset="bk", shared=None):
        (self.types, self.operators, self.insns, self.reports, self.parser, self.devices,
         self.builtin, self.Metacommand) = _mods()
        self.filename = filename
        self.fs = fs
        self.charset = charset
        self.shared = shared or Shared()
        self.unsupported = self.shared.unsupported
        self.kinds = self.shared.kinds

    # ---- tree views -------------------------------------------------------------------------
    def view(self, t):
        """(kind, ...) of an original token or of a rewritten node"""
        if isinstance(t, tuple):
            return t
        O, T = self.operators, self.types
        if isinstance(t, O.call):
            return ("call", t.lhs, t.rhs)
        if isinstance(t, O.InfixOperator):
            return ("infix", type(t), t.lhs, t.rhs)
        if isinstance(t, O.PrefixOperator):
            return ("prefix", type(t), t.operand)
        if isinstance(t, O.PostfixOperator):
            return ("postfix", type(t), t.operand)
        return ("tok", t)

    def is_cls(self, t, cls):
        v = self.view(t)
        return v[0] in ("prefix", "postfix", "infix") and v[1] is cls

    def is_paren(self, t):
        return isinstance(t, self.types.ParenthesizedExpression) and t.opening_parenthesis == "("

    def try_reg(self, t):
        """try_as_register: Coq expr of the register number, or None"""
        T, O = self.types, self.operators
        if isinstance(t, T.Symbol) and not t.is_necessarily_label and t.name.lower() in self.insns.REGISTER_NAMES:
            return "(r_ %d)" % self.insns.REGISTER_NAMES[t.name.lower()]
        if self.is_cls(t, O.register):
            return self.expr(self.view(t)[2])
        return None

    def try_acc(self, t):
        T = self.types
        if isinstance(t, T.Symbol):
            name = t.name.lower()
            if len(name) == 3 and "ac0" <= name <= "ac5":
                return int(name[2])
        return None

    # ---- expressions ------------------------------------------------------------------------
    def expr(self, t):
        T, O = self.types, self.operators
        v = self.view(t)
        if v[0] == "symlabel":
            return "(s_ %s)" % coq_str(v[1].lower())
        if v[0] == "call":
            raise Unsupported("call-as-value")
        if v[0] == "infix":
            op = BINOPS.get(v[1].char)
            if op is None:
                raise Unsupported("infix:" + v[1].char)
            return "(Bin %s %s %s)" % (op, self.expr(v[2]), self.expr(v[3]))
        if v[0] == "prefix":
            op = UNOPS.get(v[1].__name__)
            if op is None:
                raise Unsupported("operand-operator-as-value:" + v[1].char)
            return "(Un %s %s)" % (op, self.expr(v[2]))
        if v[0] == "postfix":
            raise Unsupported("postfix-as-value")
        t = v[1]
        if isinstance(t, T.Number):
            if t.invalid_base8:
                return "bad89"
            return "(n_ %s)" % zlit(t.value)
        if isinstance(t, T.Symbol):
            if t.name.lower() in self.insns.REGISTER_NAMES and not t.is_necessarily_label:
                raise Unsupported("register-as-value")
            return "(s_ %s)" % coq_str(t.name.lower())
        if isinstance(t, T.InstructionPointer):
            return "Dot"
        if isinstance(t, T.ParenthesizedExpression):
            return "(%s %s)" % ("ga_" if t.opening_parenthesis == "<" else "g_", self.expr(t.expr))
        if isinstance(t, T.CharLiteral):
            if len(t.string) == 1:
                return "(c1_ %d)" % ord(t.string)
            if len(t.string) == 2:
                return "(c2_ %d %d)" % (ord(t.string[0]), ord(t.string[1]))
            raise Unsupported("char-literal-length")
        raise Unsupported("expr:" + type(t).__name__)

    # ---- operands ---------------------------------------------------------------------------
    def hoist(self, t):
        v = self.view(t)
        if v[0] == "infix":
            rhs = self.hoist(v[3])
            rv = self.view(rhs)
            if rv[0] == "call" and self.try_reg(rv[2]) is not None:
                return ("call", ("infix", v[1], v[2], rv[1]), rv[2])
            if rhs is not v[3]:
                return ("infix", v[1], v[2], rhs)
            return t
        if v[0] == "prefix":
            operand = self.hoist(v[2])
            ov = self.view(operand)
            if ov[0] == "call" and self.try_reg(ov[2]) is not None:
                return ("call", ("prefix", v[1], ov[1]), ov[2])
            if operand is not v[2]:
                return ("prefix", v[1], operand)
            return t
        return t

    def regmode(self, operand):
        O = self.operators
        operand = self.hoist(operand)
        r = self.try_reg(operand)
        if r is not None:
            return "AReg %s" % r
        if self.is_paren(operand):
            r = self.try_reg(operand.expr)
            if r is not None:
                return "ARegDef %s" % r
        v = self.view(operand)
        is_def = self.is_cls(operand, O.deferred)
        if is_def:
            r = self.try_reg(v[2])
            if r is not None:
                return "ARegDef %s" % r
        if self.is_cls(operand, O.postadd) and self.is_paren(v[2]):
            r = self.try_reg(v[2].expr)
            if r is not None:
                return "AAutoInc %s" % r
        if is_def and self.is_cls(v[2], O.postadd) and self.is_paren(self.view(v[2])[2]):
            r = self.try_reg(self.view(v[2])[2].expr)
            if r is not None:
                return "AAutoIncDef %s" % r
        if self.is_cls(operand, O.neg) and self.is_paren(v[2]):
            r = self.try_reg(v[2].expr)
            if r is not None:
                return "AAutoDec %s" % r
        if is_def and self.is_cls(v[2], O.neg) and self.is_paren(self.view(v[2])[2]):
            r = self.try_reg(self.view(v[2])[2].expr)
            if r is not None:
                return "AAutoDecDef %s" % r
        if v[0] == "call" and self.is_cls(v[1], O.deferred):
            r = self.try_reg(v[2])
            if r is not None:
                return "AIndexDef %s %s" % (self.expr(self.view(v[1])[2]), r)
        if v[0] == "call":
            r = self.try_reg(v[2])
            if r is not None:
                return "AIndex %s %s" % (self.expr(v[1]), r)
        if is_def and self.is_paren(v[2]):
            r = self.try_reg(v[2].expr)
            if r is not None:
                return "AIndexDef (n_ 0) %s" % r
        if self.is_cls(operand, O.immediate):
            return "AImm %s" % self.expr(v[2])
        if is_def and self.is_cls(v[2], O.immediate):
            return "AAbs %s" % self.expr(self.view(v[2])[2])
        if is_def:
            return "ARelDef %s" % self.expr(v[2])
        return "ARel %s" % self.expr(operand)

    def fixup(self, operand):
        """OffsetOperandStub.encode's rewriting of the branch target"""
        T, O = self.types, self.operators
        if isinstance(operand, T.Number) and operand.is_valid_label:
            return ("symlabel", operand.representation)
        text = operand.text()
        if "(" in text or ":" in text:
            return operand
        active = [True]

        def fix(t):
            v = self.view(t)
            if v[0] == "call":
                return ("call", fix(v[1]), fix(v[2]))
            if v[0] == "infix":
                return ("infix", v[1], fix(v[2]), fix(v[3]))
            if v[0] in ("prefix", "postfix"):
                return (v[0], v[1], fix(v[2]))
            tok = v[1] if v[0] == "tok" else None
            if isinstance(tok, T.Number) and tok.is_valid_label:
                if active[0]:
                    active[0] = False
                    return ("symlabel", tok.representation)
            elif isinstance(tok, (T.Symbol, T.InstructionPointer)):
                active[0] = False
            return t
        return fix(operand)

    def operand(self, stub, t):
        I, O = self.insns, self.operators
        if isinstance(t, self.types.CodeBlock):
            raise Unsupported("code-block-operand")
        if isinstance(stub, I.FP11RMOperandStub):
            acc = self.try_acc(t)
            if acc is not None:
                return "AAcc %d" % acc
            r = self.try_reg(t)
            if r is not None:
                return "AReg %s" % r
            return self.regmode(t)
        if isinstance(stub, I.FP11AccumulatorOperandStub):
            acc = self.try_acc(t)
            if acc is not None:
                return "AAcc %d" % acc
            return self.regmode(t)        # any other form: 'invalid-addressing' in code and model
        if isinstance(stub, I.RegisterOperandStub):
            r = self.try_reg(t)
            if r is not None:
                return "AReg %s" % r
            raise Unsupported("register-expected")
        if isinstance(stub, I.RegisterModeOperandStub):
            return self.regmode(t)
        if isinstance(stub, I.OffsetOperandStub):
            return "ARel %s" % self.expr(self.fixup(t))
        if isinstance(stub, I.ImmediateOperandStub):
            if self.is_cls(t, O.immediate):
                return "ARel %s" % self.expr(self.view(t)[2])
            return "ARel %s" % self.expr(t)
        raise Unsupported("stub:" + type(stub).__name__)

    # ---- strings ----------------------------------------------------------------------------
    def chunks(self, t):
        T = self.types
        cs = t.chunks if isinstance(t, T.StringConcatenation) else [t]
        out = []
        for c in cs:
            if isinstance(c, T.AngleBracketedChar):
                out.append("CCode %s" % self.expr(c.expr))
            elif isinstance(c, T.QuotedString):
                out.append("CStr [%s]" % "; ".join("%d%%N" % ord(ch) for ch in c.string))
            else:
                raise Unsupported("string-chunk:" + type(c).__name__)
        return "[" + "; ".join(out) + "]"

    def plain_string(self, t):
        if isinstance(t, self.types.QuotedString):
            return t.string
        raise Unsupported("string-operand:" + type(t).__name__)

    # ---- statements -------------------------------------------------------------------------
    def exprs(self, ops):
        for o in ops:
            if self.is_cls(o, self.operators.immediate):
                raise Unsupported("excess-hash")
            if isinstance(o, self.types.CodeBlock):
                raise Unsupported("code-block-operand")
        return "[" + "; ".join(self.expr(o) for o in ops) + "]"

    def include(self, path):
        """.include: the converted body of the file (parsed by the real parser), with a fresh file id"""
        include_path = self.devices.resolve_relative_path(path, self.filename)
        if self.fs is not None:
            key = include_path if include_path in self.fs else os.path.normpath(include_path)
            data = self.fs.get(key)
            if not isinstance(data, (bytes, str)):
                raise Unsupported("include-missing-file")
            try:
                text = data if isinstance(data, str) else data.decode("utf-8")
            except UnicodeDecodeError:
                raise Unsupported("include-missing-file")
        else:
            try:
                with open(include_path, "r") as f:
                    text = f.read()
            except (IOError, ValueError, UnicodeDecodeError):
                raise Unsupported("include-missing-file")
        sh = self.shared
        if sh.depth >= 8:
            raise Unsupported("include-depth")
        sh.times_included[include_path] += 1
        fid = sh.next_fid
        sh.next_fid += 1
        sub = Converter(include_path, fs=self.fs, charset=self.charset, shared=sh)
        tree = parse_with(sub, include_path, text)
        if tree is None:
            raise Unsupported("include-parse")
        sh.depth += 1
        try:
            body = sub.block(tree.body, False)
        finally:
            sh.depth -= 1
        return "Include true %d %s" % (fid, body)

    def read_file(self, path):
        include_path = self.devices.resolve_relative_path(path, self.filename)
        if self.fs is not None:
            key = include_path if include_path in self.fs else os.path.normpath(include_path)
            if key not in self.fs:
                raise Unsupported("insert-missing-file")
            data = self.fs[key]
            if not isinstance(data, (bytes, str)):
                raise Unsupported("insert-missing-file")
            return data if isinstance(data, bytes) else data.encode("utf-8")
        try:
            with open(include_path, "rb") as f:
                return f.read()
        except (IOError, ValueError):
            raise Unsupported("insert-missing-file")

    def meta(self, name, ops, in_repeat):
        T = self.types
        n = len(ops)

        def need(lo, hi=None):
            hi = lo if hi is None else hi
            if not lo <= n <= hi:
                raise Unsupported("operand-count:" + name)
        if name in (".byte", ".db"):
            return "Byte " + self.exprs(ops)
        if name in (".word", ".dw"):
            return "Word " + self.exprs(ops)
        if name == ".dword":
            return "Dword " + self.exprs(ops)
        if name in (".blkb", ".blkw", ".align"):
            need(1)
            return {".blkb": "Blkb", ".blkw": "Blkw", ".align": "Align"}[name] + " " + self.exprs(ops)[1:-1]
        if name in (".even", ".odd"):
            need(0)
            return "Even" if name == ".even" else "Odd"
        if name in (".ascii", ".asciz"):
            need(1)
            return "Ascii %s %s" % ("true" if name == ".asciz" else "false", self.chunks(ops[0]))
        if name == ".rad50":
            need(1)
            cs = ops[0].chunks if isinstance(ops[0], T.StringConcatenation) else [ops[0]]
            for c in cs:
                if isinstance(c, T.QuotedString) and not all(ord(ch) < 128 for ch in c.string):
                    raise Unsupported("rad50-non-ascii")
            return "Rad50 " + self.chunks(ops[0])
        if name == ".link":
            need(1)
            return "Link " + self.exprs(ops)[1:-1]
        if name == ".repeat":
            if n != 2 or not isinstance(ops[1], T.CodeBlock) or isinstance(ops[0], T.CodeBlock):
                raise Unsupported("operand-count:.repeat")
            return "Repeat %s %s" % (self.exprs(ops[:1])[1:-1], self.block(ops[1], True))
        if name == "insert_file":
            need(1)
            data = self.read_file(self.plain_string(ops[0]))
            return "Insert [%s]" % "; ".join(str(b) for b in data)
        if name in ("make_bin", "make_raw", "make_bk0010_rom"):
            need(0, 1)
            for o in ops:
                self.plain_string(o)
            return "NoOp"
        if name in ("make_wav", "make_turbo_wav"):
            need(2)
            self.plain_string(ops[0])
            nm = self.plain_string(ops[1])
            if not (all(32 <= ord(c) < 127 for c in nm) and len(nm) <= 16):
                raise Unsupported("tape-name")
            return "NoOp"
        if name in (".list", ".nlist", ".page", ".title", ".sbttl"):
            if name in (".list", ".nlist", ".page"):
                need(0)
            else:
                need(1)          # .title / .sbttl without text: wrong-meta-operands in the code
            return "NoOp"
        if name == ".once":
            need(0)
            if self.shared.times_included[self.filename] > 1:
                raise Unsupported("once-second-inclusion")
            return "NoOp"
        if name == ".include":
            need(1)
            if in_repeat:
                raise Unsupported("include-inside-repeat")
            return self.include(self.plain_string(ops[0]))
        if name == ".extern":
            if not all(isinstance(o, T.Symbol) for o in ops):
                raise Unsupported("extern-operand")
            names = [o.name.lower() for o in ops]
            if "all" in names:
                if len(names) != 1:
                    raise Unsupported("extern-all-mixed")
                return "ExternAll"
            return "Extern [%s]" % "; ".join(coq_str(n) for n in names)
        if name == ".end":
            need(0)
            return "End"
        raise Unsupported("directive:" + name)

    def stmt(self, s, in_repeat):
        T = self.types
        if isinstance(s, T.Label):
            if s.is_extern:
                if s.local or s.name[:1].isdigit():
                    raise Unsupported("extern-local-label")
                self.kinds["label"] += 1
                return ["Label %s" % coq_str(s.name.lower()), "Extern [%s]" % coq_str(s.name.lower())]
            if s.local:
                self.kinds["local-label"] += 1
                return "LocalLabel %s" % coq_str(s.name.lower())
            if s.name[:1].isdigit():
                raise Unsupported("label-name")
            self.kinds["label"] += 1
            return "Label %s" % coq_str(s.name.lower())
        if isinstance(s, T.Assignment):
            if isinstance(s.target, T.InstructionPointer):
                self.kinds["dot-assign"] += 1
                return "Skip %s" % self.expr(s.value)
            if s.target.name[:1].isdigit() or s.target.name.lower() in self.insns.REGISTER_NAMES:
                raise Unsupported("assignment-target")
            self.kinds["assign"] += 1
            t = "Assign %s %s" % (coq_str(s.target.name.lower()), self.expr(s.value))
            if s.is_extern:
                return [t, "Extern [%s]" % coq_str(s.target.name.lower())]
            return t
        if isinstance(s, T.WordList):
            self.kinds["word-list"] += 1
            return "WordList " + self.exprs(s.words)
        if isinstance(s, T.Instruction):
            name = s.name.name
            cmd = None
            if name in self.builtin:
                cmd = self.builtin[name]
            elif "." + name in self.builtin:
                name = "." + name
                cmd = self.builtin[name]
            else:
                raise Unsupported("implicit-word-or-unknown-insn")
            if isinstance(cmd, self.Metacommand):
                self.kinds["meta:" + cmd.name] += 1
                return self.meta(cmd.name, s.operands, in_repeat)
            # a machine instruction
            self.kinds["insn"] += 1
            ops = s.operands
            if ops and isinstance(ops[-1], T.CodeBlock):
                raise Unsupported("code-block-operand")
            stubs = cmd.operands
            if len(ops) != len(stubs):
                # 'wrong-operands' in code and model; the forms do not matter
                return "Insn %s [%s]" % (coq_str(cmd.name.lower()), "; ".join("AAcc 0" for _ in ops))
            return "Insn %s [%s]" % (coq_str(cmd.name.lower()),
                                     "; ".join(self.operand(st, o) for st, o in zip(stubs, ops)))
        raise Unsupported("statement:" + type(s).__name__)

    def block_items(self, blk, in_repeat):
        """per statement of the block: (list of Coq terms -- one, or two for `a::` / `a ==` --, the parser's token)"""
        items = []
        for s in blk.insns:
            try:
                t = self.stmt(s, in_repeat)
                items.append((t if isinstance(t, list) else [t], s))
            except Unsupported as u:
                self.unsupported[u.kind] += 1
        return items

    def block(self, blk, in_repeat):
        out = [t for ts, _ in self.block_items(blk, in_repeat) for t in ts]
        return "[" + ";\n  ".join(out) + "]"


class Conversion:
    pass


def parse_with(conv, filename, text):
    """parse with the real parser; error-severity parser diagnostics put the program outside the subset"""
    reports = conv.reports
    sh = conv.shared
    before = len(sh.parse_diags)

    def handler(priority, identifier, *lst):
        if priority is not reports.warning:
            sh.parse_diags.append(identifier)
    try:
        with reports.handle_reports(handler):
            tree = conv.parser.parse(filename, text)
    except reports.UnrecoverableError:
        sh.unsupported["parse-critical"] += 1
        return None
    if len(sh.parse_diags) > before:
        sh.unsupported["parse-error:" + sh.parse_diags[before]] += 1
        return None
    return tree


def convert(filename, text, fs=None):
    """Parse with the real parser and convert.  Never raises for an unsupported program."""
    c = Converter(filename, fs=fs)
    res = Conversion()
    res.parse_diags = c.shared.parse_diags
    res.term = None
    res.items = None
    res.unsupported = c.unsupported
    res.kinds = c.kinds
    tree = parse_with(c, filename, text)
    if tree is None:
        return res
    items = c.block_items(tree.body, False)
    if not c.unsupported:
        res.items = items          # [(terms, token)]: the top-level statements with the parser's spans
        res.term = "[" + ";\n  ".join(t for ts, _ in items for t in ts) + "]"
    return res


def convert_files(files, fs=None):
    """several files given to the linker, in order: Model/AsmT.link of the first file and the others as
    (file id, statements); one file: the same term as convert()"""
    name, text = files[0]
    res = convert(name, text, fs=fs)
    if len(files) == 1 or res.term is None:
        return res
    sh = Shared()
    sh.unsupported, sh.kinds, sh.parse_diags = res.unsupported, res.kinds, res.parse_diags
    # file ids of the inclusions of the first file were numbered from 1: go on after the highest one used
    used = [int(x) for x in __import__("re").findall(r"Include true (\d+) ", res.term)]
    sh.next_fid = max(used + [0]) + 1
    rest = []
    for fname, ftext in files[1:]:
        c = Converter(fname, fs=fs, shared=sh)
        tree = parse_with(c, fname, ftext)
        if tree is None:
            res.term = None
            return res
        fid = sh.next_fid
        sh.next_fid += 1
        body = c.block(tree.body, False)
        rest.append("(%d%%nat, %s)" % (fid, body))
    if sh.unsupported:
        res.term = None
        return res
    res.term = "(link %s\n [%s])" % (res.term, ";\n  ".join(rest))
    res.items = None
    return res


if __name__ == "__main__":
    src = sys.stdin.read()
    r = convert("stdin.mac", src)
    print(r.term)
    print(dict(r.unsupported), dict(r.kinds), file=sys.stderr)
