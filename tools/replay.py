"""./check <ID> --replay <file>: re-execute a replay file written by a failing check."""
import importlib
import json
import impl


def main(pid, path):
    with open(path) as f:
        data = json.load(f)
    pid = pid or data.get("property")
    print(f"replay {path}: property={data.get('property')} kind={data.get('kind')}")
    if data.get("kind") == "no-failing-input-found":
        print("no concrete failing input was found; what stopped checking:")
        for b in data.get("broken_obligations", []):
            print("  broken:", b)
        for d in data.get("correspondence_disagreements", []):
            print("  disagreement:", json.dumps(d, ensure_ascii=False)[:400])
        return 1
    mod = importlib.import_module("props." + pid.lower())
    if hasattr(mod, "replay"):
        ok = mod.replay(data)
        print("REPLAY: property holds on this input now" if ok else f"REPLAY: VIOLATION reproduced property={pid}")
        return 0 if ok else 1
    print(json.dumps(data, indent=1, ensure_ascii=False)[:4000])
    if isinstance(data.get("input"), dict) and "files" in data["input"]:
        r = impl.assemble([tuple(x) for x in data["input"]["files"]])
        print("re-assembled now:", json.dumps({k: r.get(k) for k in ("outcome", "base", "code", "crash")}))
    print("REPLAY: no property-specific replay function; the recorded observation is shown above")
    return 1
