#!/usr/bin/env python3
"""Correspondence of coq/Model/Classify.v (hoist + the isinstance cascade of RegisterModeOperandStub.encode and
FP11RMOperandStub.encode: operand token tree -> addressing form) with the real pdpy11.

For every generated operand TEXT (every form x r0-r7/sp/pc/letter case/%N x expression shapes, register-named symbols in
odd places, nested parentheses, infix / unary minus before (rN), stacked '@' / '#', FP accumulators, ...):
  * the real parser parses `mov <op>, r0` (CPU) / `clrf <op>` (FP11); the operand token is converted to a Classify.optree
    term (fail closed on an unknown token / operator class; the operator classes of operators.py must be exactly the
    enumerated ones);
  * direct drive: the real stub's encode(operand, state) is called on that token -> (mode|reg or Deferred, kind of the
    extension, warnings, errors);
  * end to end: the same line is assembled through impl.assemble (`mov <op>, r0`, `mov r0, <op>`, `clrf <op>`), the 6-bit
    field and the extension word are decoded from the bytes;
  * forms: for texts printed from an abstract form o the case also carries o: Coq checks `spell o` = the parser's tree and
    classify reads it back as o (ties Classify.spell/attach to the real parser).
Coq (Run/C01ClassifyRun.v, vm_compute in coqc) evaluates classify / classify_fp on the tree and judges:
  bit 0 direct drive differs, bit 1 e2e field differs, bit 2 e2e extension presence/value differs, bit 3 form check failed,
  bit 4 (informative) the extension value was compared.

    explore_classify(rep, tier, seed)       rep: common.Report (counts, disagreements)
    python3 tools/classify_corr.py [--tier quick|thorough] [--seed N]     standalone; exit 1 on a disagreement
"""
import os
import random
import sys

sys.path.insert(0, os.path.dirname(os.path.abspath(__file__)))
import common as C
import impl

ID = "C01K"
REQ = "Base.Res Model.Classify Run.C01ClassifyRun"
PRE = "Open Scope string_scope.\nOpen Scope Z_scope."

INFIX = {"mul": "IMul", "div": "IDiv", "mod": "IMod", "add": "IAdd", "sub": "ISub", "lshift": "IShl", "rshift": "IShr",
         "lsh": "ILsh", "and_": "IAnd", "xor": "IXor", "or_": "IOr", "or2": "IOr2"}
PREFIX = {"pos": "PPos", "neg": "PNeg", "inv": "PInv", "inv2": "PInv2", "immediate": "PImm", "deferred": "PDef", "register": "PPct"}
POSTFIX = {"postadd": "QAdd", "postsub": "QSub"}
ENV = [("a", 0o100), ("b", 0o20), ("x", 0o3000), ("r0x", 0o44), ("spx", 0o46)]
PROLOGUE = "".join("%s = %o\n" % (k, v) for k, v in ENV)


class Unknown(Exception):
    pass


def check_operator_classes(m):
    O = m["operators"]
    inf, pre, post = set(), set(), set()
    for n in dir(O):
        c = getattr(O, n)
        if isinstance(c, type) and c not in (O.InfixOperator, O.PrefixOperator, O.PostfixOperator, O.UnaryOperator):
            if issubclass(c, O.InfixOperator):
                inf.add(c.__name__)
            elif issubclass(c, O.PrefixOperator):
                pre.add(c.__name__)
            elif issubclass(c, O.PostfixOperator):
                post.add(c.__name__)
    ok = inf == set(INFIX) | {"call"} and pre == set(PREFIX) and post == set(POSTFIX)
    return ok, (sorted(inf), sorted(pre), sorted(post))


def to_term(m, t):
    T, O = m["types"], m["operators"]
    if isinstance(t, T.Symbol):
        return "(TSym %s %s)" % (C.coq_str(t.name), "true" if t.is_necessarily_label else "false")
    if isinstance(t, T.Number):
        if not isinstance(t.value, int):
            raise Unknown("Number value " + repr(t.value))
        return "(TNum %s)" % C.zlit(t.value)
    if isinstance(t, T.InstructionPointer):
        return "TDot"
    if isinstance(t, T.ParenthesizedExpression):
        return "(TParen %s %s)" % ("true" if t.opening_parenthesis == "(" else "false", to_term(m, t.expr))
    if type(t) is O.call:
        return "(TCall %s %s)" % (to_term(m, t.lhs), to_term(m, t.rhs))
    n = type(t).__name__
    if isinstance(t, O.InfixOperator):
        if n not in INFIX:
            raise Unknown(n)
        return "(TInfix %s %s %s)" % (INFIX[n], to_term(m, t.lhs), to_term(m, t.rhs))
    if isinstance(t, O.PrefixOperator):
        if n not in PREFIX:
            raise Unknown(n)
        return "(TPrefix %s %s)" % (PREFIX[n], to_term(m, t.operand))
    if isinstance(t, O.PostfixOperator):
        if n not in POSTFIX:
            raise Unknown(n)
        return "(TPostfix %s %s)" % (POSTFIX[n], to_term(m, t.operand))
    if n in ("CharLiteral", "QuotedString", "AngleBracketedChar", "StringConcatenation"):
        return "(TOther %s)" % C.coq_str(n)
    raise Unknown(n)


def parse_line(m, line):
    """-> Instruction token of the single line, or None when the parser refuses it"""
    reports, parser = m["reports"], m["parser"]
    bad = []

    def h(priority, identifier, *lst):
        if priority is not reports.warning:
            bad.append(identifier)
    impl.reset_global_state()
    try:
        with reports.handle_reports(h):
            f = parser.parse("t.mac", line + "\n")
    except reports.UnrecoverableError:
        return None
    except Exception:
        return None
    if bad or len(f.body.insns) != 1 or type(f.body.insns[0]).__name__ != "Instruction":
        return None
    return f.body.insns[0]


class _Lazy:
    """While the real encode() is driven directly, Deferred.construct / SizedDeferred.construct do not try to compute the
    value at once (harness-side, in this process only, restored afterwards; the cascade under test is untouched and the
    end-to-end runs are unpatched).  Otherwise an extension whose expression is already computable would be evaluated inside
    encode() and an error of that EVALUATION (e.g. unexpected-register for 'r1+2') would hide what the cascade decided."""

    def __init__(self, m):
        self.D = m["deferred"]

    def __enter__(self):
        D = self.D
        self.old = (D.Deferred.__dict__["construct"], D.SizedDeferred.__dict__["construct"])
        D.Deferred.construct = classmethod(lambda cls, *args: cls(*args))
        D.SizedDeferred.construct = classmethod(lambda cls, typ, size, fn: cls(typ, size, fn))

    def __exit__(self, *a):
        self.D.Deferred.construct, self.D.SizedDeferred.construct = self.old
        return False


def direct(m, stub, operand, insn):
    """the real encode on the real token -> (field or None, extkind, warnings, errors) or ('exc', name)"""
    reports, D = m["reports"], m["deferred"]
    warns, errs = [], []

    def h(priority, identifier, *lst):
        (warns if priority is reports.warning else errs).append(identifier)
    impl.reset_global_state()
    val = ext = None
    try:
        try:
            with reports.handle_reports(h):
                with _Lazy(m):
                    val, ext = stub.encode(operand, {"insn": insn})
        except reports.UnrecoverableError:
            pass     # raised on leaving the handler when an error was reported; val/ext are kept
    except Exception as ex:
        return ("exc", type(ex).__name__)
    if val is None and not errs:
        return ("exc", "no-value")
    field = val if isinstance(val, int) else None
    if isinstance(ext, (bytes, bytearray)):
        kind = 0 if len(ext) == 0 else (2 if bytes(ext) == b"\0\0" else -1)     # -1 cannot happen with _Lazy
    elif isinstance(ext, D.BaseDeferred) or ext is not None:
        kind = 1
    else:
        kind = 0
    return (field, kind, warns, errs)


def e2e(line, which):
    """which: 'src' (bits 11..6), 'dst' / 'fp' (bits 5..0) -> (field, ext or None, addr) or None"""
    r = impl.assemble([("t.mac", PROLOGUE + line + "\n")])
    if r["outcome"] != "ok" or any(d[0] != "warning" for d in r["diags"]):
        return None
    code = bytes.fromhex(r["code"])
    if len(code) not in (2, 4):
        return None
    w = code[0] | code[1] << 8
    field = (w >> 6) & 63 if which == "src" else w & 63
    ext = (code[2] | code[3] << 8) if len(code) == 4 else None
    return (field, ext, r["base"])


def slist(xs):
    return "[" + "; ".join(C.coq_str(x) for x in xs) + "]"


def case_term(fp, tree, d, e, form):
    dt = "{| d_field := %s; d_ext := %s; d_warn := %s; d_err := %s |}" % (
        "None" if d[0] is None else "(Some %s)" % C.zlit(d[0]), C.zlit(d[1]), slist(d[2]), slist(d[3]))
    et = "None" if e is None else "(Some {| e_field := %s; e_ext := %s; e_addr := %s |})" % (
        C.zlit(e[0]), "None" if e[1] is None else "(Some %s)" % C.zlit(e[1]), C.zlit(e[2]))
    env = "[" + "; ".join("(%s, %s)" % (C.coq_str(k), C.zlit(v)) for k, v in ENV) + "]"
    return "{| c_fp := %s; c_tree := %s; c_env := %s; c_direct := %s; c_e2e := %s; c_form := %s |}" % (
        "true" if fp else "false", tree, env, dt, et, "None" if form is None else "(Some %s)" % form)


# ---------------------------------------------------------------------------------------------
# texts
REGS = ["r0", "r1", "r2", "r3", "r4", "r5", "r6", "r7", "sp", "pc", "R3", "Sp", "PC", "sP", "%0", "%3", "%7", "%6"]
EXPRS = ["a", "100", "a+b", "a-2", "-2", "-a", "a+-2", "^C5", "<a+b>", "(a+b)", "a*2", "a+b*2", "r0x", "spx", "ac1", "r1+2",
         "2+r1", "<r1>", "((r1))", "(a)", ".", ".+4", "a+<b>", "a/2", "a<<1", "~a", "+a", "a&b", "a!b", "a_2", "'A", "1$",
         "r8", "ac6", "a+(b)", "-(a)", "-<r1>", "a-(b+2)", "x-.", "10.", "a+b+x", "a-b-2", "-a+b", "-(-a)", "a*-2"]
ODD = ["@@a", "@@r1", "@@(r1)", "##a", "#@a", "@#@a", "-(r1)+", "(r1)-", "@(r1)-", "-(-(r1))", "+(r1)", "-<r1>", "<r1>+",
       "((r1))+", "(r1)(r2)", "a(r1)(r2)", "a(b)", "a(b)(r1)", "a(r1)+b", "a(r1)+b(r2)", "#a(r1)", "@#a(r1)", "%a(r1)",
       "%3(r1)", "(%3)", "a(%3)", "-(%3)", "(%3)+", "@%3", "@(%3)", "@-(%3)", "@(%3)+", "%r1", "r1:", "(r1:)", "a(r1:)", "@r1:",
       "a((r1))", "a(<r1>)", "(a)(r1)", "<a>(r1)", "-a(r1)", "--a(r1)", "-(a)(r1)", "a+b(r1)", "a-b(r1)", "a*b(r1)", "a+-b(r1)",
       "^Ca(r1)", "~a(r1)", "+a(r1)", "@-a(r1)", "@a+b(r1)", "@-(a)(r1)", "#-a(r1)", "-@a(r1)", "a+@b(r1)", "@@a(r1)",
       "(r1)+2", "2+(r1)", "-(r1)+2", "2-(r1)", "a+(r1)", "(r1)+(r2)", "@(r1)+2", "r1+r2", "r1(r2)", "(r1)(r2)+", "@r1(r2)",
       "#r1", "@#r1", "#(r1)", "#-(r1)", "#(r1)+", "@#(r1)", "r1 (r2)", "a (r1)", "- (r1)", "( r1 )", "( r1 ) +", "@ r1", "@ ( r1 )",
       "# a", "@ # a", "%1+2", "%(1+2)", "(%1+2)", "a(%1+2)", "%<3>", "%%3", "%a", "@%a", "%-1", "a(pc)", "@a(pc)", "(pc)+", "@(pc)+", "-(pc)",
       "(r1)+(r2)+", "-(r1)(r2)", "a(r1)-", "a(r1)+", "(a(r1))", "<a(r1)>", "-(a(r1))", "@(a(r1))", "a+(b(r1))", "a+<b(r1)>"]
FPEXTRA = ["ac0", "ac1", "ac2", "ac3", "ac4", "ac5", "AC3", "Ac0", "ac6", "ac7", "ac10", "ac", "ac1:", "(ac1)", "#ac1", "@ac1", "ac1+0",
           "a(ac1)", "-(ac1)", "ac1(r1)", "%ac1"]


def texts(tier, rng):
    """-> list of (text, form_spec or None); form_spec = (ctor, expr_text or None, reg_text or None)"""
    out = []
    canon = {"r0": 0, "r1": 1, "r2": 2, "r3": 3, "r4": 4, "r5": 5, "r6": 6, "r7": 7}
    for r in REGS:
        pct = r.startswith("%")
        can = r in canon or pct
        for ctor, s in [("FReg", r), ("FRegDef", "(%s)" % r), ("FAutoInc", "(%s)+" % r), ("FAutoIncDef", "@(%s)+" % r),
                        ("FAutoDec", "-(%s)" % r), ("FAutoDecDef", "@-(%s)" % r)]:
            out.append((s, (ctor, None, r) if can else None))
        out.append(("@" + r, None))
        out.append(("@(%s)" % r, None))
    # expressions that are legal expression operands by construction (checked in Coq through c_form: classify must read o back)
    plain = ["a", "100", "a+b", "a-2", "-2", "-a", "a+-2", "^C5", "<a+b>", "(a+b)", "a*2", "a+b*2", "r0x", "spx", "ac1", "r1+2", "2+r1",
             "<r1>", "((r1))", "(a)", ".", ".+4", "a+<b>", "a/2", "a<<1", "~a", "+a", "a&b", "a!b", "a_2", "r8", "ac6", "a+(b)", "-(a)",
             "-<r1>", "a-(b+2)", "x-.", "10.", "a+b+x", "a-b-2", "-a+b", "-(-a)", "a*-2"]
    regs_for_index = REGS if tier == "thorough" else ["r0", "r3", "r5", "sp", "pc", "R3", "PC", "%3", "%6"]
    for e in EXPRS:
        ok = e in plain
        for ctor, s in [("FRel", e), ("FRelDef", "@" + e), ("FImm", "#" + e), ("FAbs", "@#" + e)]:
            out.append((s, (ctor, e, None) if ok else None))
        for r in regs_for_index:
            can = r in canon or r.startswith("%")
            out.append(("%s(%s)" % (e, r), ("FIndex", e, r) if ok and can else None))
            out.append(("@%s(%s)" % (e, r), ("FIndexDef", e, r) if ok and can else None))
    for s in ODD:
        out.append((s, None))
    # random compositions: prefix/infix chains before '(reg)'
    n = 400 if tier == "thorough" else 80
    atoms = ["a", "b", "2", "r0x", "r1", "(r2)", "<a>", "(a)", ".", "%3", "sp"]
    for _ in range(n):
        k = rng.randrange(1, 4)
        s = ""
        for i in range(k):
            s += rng.choice(["", "", "-", "+", "~", "^C", "@", "#", "%"]) + rng.choice(atoms)
            if i < k - 1:
                s += rng.choice(["+", "-", "*", "/", "&", "!", "_", "<<"])
        s = rng.choice(["", "", "@", "#", "@#", "-"]) + s + rng.choice(["", "", "(r1)", "(sp)", "(%2)", "+", "(r1)+", "(a)", "(PC)"])
        out.append((s, None))
    seen, res = set(), []
    for t in out:
        if t[0] not in seen:
            seen.add(t[0])
            res.append(t)
    return res


def form_term(m, spec):
    ctor, e, r = spec

    def reg(rt):
        if rt.startswith("%"):
            ins = parse_line(m, "mov %s, r0" % rt)
            return "(RPct %s)" % to_term(m, ins.operands[0].operand)
        return "(RName %d)" % int(rt[1])
    parts = [ctor]
    if e is not None:
        ins = parse_line(m, "mov %s, r0" % e)
        if ins is None:
            return None
        parts.append(to_term(m, ins.operands[0]))
    if r is not None:
        parts.append(reg(r))
    return "(" + " ".join(parts) + ")"


def explore_classify(rep, tier="quick", seed=0):
    m = impl.load()
    ok, classes = check_operator_classes(m)
    if not ok:
        rep.disagree("operator classes of operators.py are not the ones enumerated in Model/Classify.v", {"classes": classes})
        return {"cases": 0}
    rng = random.Random(seed)
    I = m["insns"]
    cpu_stub_s, cpu_stub_d = I.instructions["mov"].operands
    fp_stub = I.instructions["clrf"].operands[0]
    assert type(cpu_stub_s).__name__ == "RegisterModeOperandStub" and type(fp_stub).__name__ == "FP11RMOperandStub"
    cases, infos = [], []
    stats = {"texts": 0, "parse_refused": 0, "unknown_token": 0, "e2e": 0, "forms": 0, "direct_exc": 0}
    tl = texts(tier, rng)
    plan = []
    for s, spec in tl:
        plan.append((False, "src", "mov %s, r0" % s, 0, s, spec))
        plan.append((False, "dst", "mov r0, %s" % s, 1, s, None))
        plan.append((True, "fp", "clrf %s" % s, 0, s, None))
    for s in FPEXTRA:
        plan.append((True, "fp", "clrf %s" % s, 0, s, None))
        plan.append((False, "src", "mov %s, r0" % s, 0, s, None))
    for fp, which, line, pos, s, spec in plan:
        stats["texts"] += 1
        ins = parse_line(m, line)
        if ins is None or len(ins.operands) != (1 if fp else 2):
            stats["parse_refused"] += 1
            continue
        operand = ins.operands[pos]
        try:
            tree = to_term(m, operand)
        except Unknown as u:
            stats["unknown_token"] += 1
            rep.disagree("operand token of a class unknown to Model/Classify.v", {"line": line, "class": str(u)})
            continue
        stub = fp_stub if fp else (cpu_stub_s if pos == 0 else cpu_stub_d)
        d = direct(m, stub, operand, ins)
        if d[0] == "exc":
            stats["direct_exc"] += 1
            rep.disagree("the real encode raised; the model is total", {"line": line, "exception": d[1]})
            continue
        e = e2e(line, which)
        if e is not None:
            stats["e2e"] += 1
        form = None
        if spec is not None:
            form = form_term(m, spec)
            if form is not None:
                stats["forms"] += 1
        cases.append(case_term(fp, tree, d, e, form))
        infos.append({"line": line, "tree": tree, "direct": list(d), "e2e": e, "form": form})
        rep.count("classify:" + which)
        rep.nontrivial(("classify", line))
    shards = C.shard(cases, 300)
    codes = C.run_case_files(ID, REQ, PRE, shards, judge_expr="map judge cases", cases_type="list case")
    flat = [c for sh in codes for c in sh]
    assert len(flat) == len(cases), (len(flat), len(cases))
    rep.add_eval(len(flat))
    bad = 0
    valued = 0
    for code, info in zip(flat, infos):
        if code & 16:
            valued += 1
        if code & 15:
            bad += 1
            what = [n for b, n in [(1, "direct drive of encode differs from classify"), (2, "mode/register field of the emitted word differs"),
                                   (4, "extension word presence/value differs"), (8, "parser tree <> spell(form) or form not read back")] if code & b]
            rep.disagree("; ".join(what), info)
    stats.update(cases=len(flat), disagreements=bad, ext_values_compared=valued)
    return stats


class _Rep:
    def __init__(self):
        self.dis, self.n, self.keys, self.kinds = [], 0, set(), {}

    def add_eval(self, n):
        self.n += n

    def nontrivial(self, k):
        self.keys.add(k)

    def count(self, k):
        self.kinds[k] = self.kinds.get(k, 0) + 1

    def sample(self, o):
        pass

    def disagree(self, what, inp, **kw):
        self.dis.append((what, inp))


if __name__ == "__main__":
    import argparse
    import json
    ap = argparse.ArgumentParser()
    ap.add_argument("--tier", default="quick")
    ap.add_argument("--seed", type=int, default=int(os.environ.get("VERIF_SEED", "0")))
    a = ap.parse_args()
    rep = _Rep()
    st = explore_classify(rep, a.tier, a.seed)
    print(json.dumps(st), rep.kinds)
    for what, inp in rep.dis[:400]:
        print("DISAGREE", what, json.dumps(inp)[:600])
    sys.exit(1 if rep.dis else 0)
