#!/usr/bin/env python3
"""Cross-check of the translator tools/gens/gen_pure2.py: the loops of Instruction.compile_insn translated into
coq/Gen/GenPure2Insns.v (`indexes_of_char` + `get_opcode`, regenerated from the Python source on each run) are evaluated
in coqc (Run/TRun2Insns.v) on inputs on which the *real* Instruction.compile_insn was driven directly (stub objects
that only carry pattern_char / bit_indexes and return a chosen inline value), and must give exactly the
implementation's answer (the two bytes, or "some Python exception").  bit 0 of a judge code = Gen differs from the
implementation.

    explore_t2(rep, tier, seed, pid="T2")              rep: common.Report
    python3 tools/t_check2.py [--tier quick|thorough] [--seed N] [--no-build]      standalone run
"""
import os
import random
import sys

sys.path.insert(0, os.path.dirname(os.path.abspath(__file__)))
import common as C
import impl
import insn_cases as IC
import t_check as T

ID = "T2"
PROP_FILES = ["Props/T_insns2.v"]
RUN_FILES = ["Run/TRun2Insns.v"]
PRE = "Open Scope string_scope.\nOpen Scope Z_scope."


class Stub:
    """what get_opcode reads of a stub, and an encode() that hands back the chosen inline value"""

    def __init__(self, pattern_char, bit_indexes, value):
        self.pattern_char, self.bit_indexes, self.value = pattern_char, list(bit_indexes), value

    def encode(self, operand, state):
        return self.value, b""


def drive(m, pattern, reps):
    """reps: [(pattern_char, bit_indexes, value)] -> (bytes as list or None, exception name or None)"""
    wait = m["deferred"].wait
    ins = m["insns"].Instruction("t", pattern, [Stub(c, idx, v) for c, idx, v in reps])
    fake = IC._FakeInsn("t")
    fake.operands = [IC._FakeOperand(0) for _ in reps]

    def go():
        out = wait(ins.compile_insn({"emit_address": 0o1000, "insn": fake}, fake))
        return list(out)
    val, ids, exc = T.with_reports(go)
    if not exc and ids:
        exc = "reports:" + ",".join(ids)
    return val, exc


def term(pattern, reps, val, exc):
    rs = "; ".join("(%s, %s, %s)" % (C.coq_str(c), C.zlist(idx), C.zlit(v)) for c, idx, v in reps)
    impl_t = "(Crash %s)" % C.coq_str(exc) if exc else "(Ok %s)" % C.zlist(val)
    return "(%s, [%s], %s)" % (C.coq_str(pattern), rs, impl_t)


def values(rng, n):
    return [0, 1, 2 ** n - 1, 2 ** n, -1, -2 ** n, rng.randrange(0, 2 ** n), rng.randrange(0, 2 ** n), rng.randrange(-2 ** 20, 2 ** 20), 2 ** 40 + rng.randrange(0, 2 ** n)]


def cases_of(rep, tier, rng):
    m = impl.load()
    out = []

    def add(pattern, reps, kind):
        val, exc = drive(m, pattern, reps)
        if exc == "Hang":
            rep.disagree("driver of Instruction.compile_insn hung", {"pattern": pattern, "replacements": reps})
            return
        out.append((term(pattern, reps, val, exc), {"function": "Instruction.compile_insn get_opcode", "pattern": pattern, "replacements": reps, "impl": [val, exc]}))
        rep.count("T2:" + kind + (":raises" if exc else ":bytes"))
        rep.nontrivial((pattern, tuple((c, tuple(i), v) for c, i, v in reps)))

    # 1. every distinct (opcode_pattern, stub layout) of the real instruction table, with boundary / random field values
    seen = {}
    for name in m["insns"].instructions:
        ins = m["insns"].instructions[name]
        key = (ins.opcode_pattern, tuple((st.pattern_char, tuple(st.bit_indexes)) for st in ins.operands))
        seen.setdefault(key, name)
    keys = sorted(seen)
    per = 3 if tier == "quick" else 10
    for pattern, layout in keys:
        combos = [[vs[k % len(vs)] for vs in [values(rng, len(idx)) for _, idx in layout]] for k in range(per)] if layout else [[]]
        for k, vals in enumerate(combos):
            if layout:
                vals = [rng.choice(values(rng, len(idx))) for _, idx in layout] if k else [2 ** len(idx) - 1 for _, idx in layout]
            add(pattern, [(c, list(idx), v) for (c, idx), v in zip(layout, vals)], "table")
    # 2. synthetic shapes: permuted / negative / repeated / out-of-range bit indexes, absent pattern characters,
    #    non-binary and non-digit leftovers, patterns that are not 16 long (struct.pack range), the empty pattern
    base = ["0001ssssssdddddd", "1000000ooooooooo", "0111111sssOOOOOO", "01110sss00ssssss", "s0s1s0s1d1d0d1d0", "ssss", "0", "1" * 16, "1" * 17, "0" * 40, "",
            "0002ssssssdddddd", "000xssssssdddddd", "7", "s", "ddddddddssssssss1"]
    n = 150 if tier == "quick" else 1500
    for _ in range(n):
        pattern = rng.choice(base)
        letters = sorted({c for c in pattern if not c.isdigit()}) or ["s"]
        reps = []
        for _ in range(rng.randrange(0, 4)):
            c = rng.choice(letters + (["q", "0", "1"] if rng.random() < 0.15 else []))
            cnt = pattern.count(c)
            mode = rng.random()
            if mode < 0.5:
                idx = list(range(cnt - 1, -1, -1))
            elif mode < 0.65:
                idx = list(range(cnt))
            elif mode < 0.8:
                idx = [rng.randrange(-cnt - 1, cnt + 1) for _ in range(rng.randrange(0, cnt + 2))]
            elif mode < 0.9:
                idx = rng.sample(range(max(cnt, 1)), rng.randrange(0, max(cnt, 1) + 1))
            else:
                idx = [rng.randrange(-3, 20) for _ in range(rng.randrange(1, 4))]
            reps.append((c, idx, rng.choice(values(rng, max(len(idx), 1)))))
        add(pattern, reps, "synthetic")
    return out


def explore_t2(rep, tier, seed, pid=ID):
    rng = random.Random(seed ^ 0x7C2)
    cases = cases_of(rep, tier, rng)
    if not cases:
        rep.disagree("get_opcode: no case could be built", {})
        return
    codes = C.run_case_files(pid, "Base.Res Gen.GenPure2 Gen.GenPure2Insns Run.TRun Run.TRun2Insns", PRE, C.shard([t for t, _ in cases], 1500),
                             judge_expr="map judge_get_opcode cases")
    flat = [x for sh in codes for x in sh]
    assert len(flat) == len(cases)
    rep.add_eval(len(cases))
    for (t, d), code in zip(cases, flat):
        if code & 1:
            rep.disagree("Gen.GenPure2Insns (translated from the source) vs the real Instruction.compile_insn / get_opcode", d)


def main():
    import argparse
    ap = argparse.ArgumentParser()
    ap.add_argument("--tier", default="quick")
    ap.add_argument("--seed", type=int, default=int(os.environ.get("VERIF_SEED", "20260927")))
    ap.add_argument("--no-build", action="store_true")
    a = ap.parse_args()
    rep = C.Report(ID, a.tier, a.seed)
    br = None
    if not a.no_build:
        br = C.build(PROP_FILES, RUN_FILES)
        for l in (br.broken_summary() if not br.ok else []):
            C.log("BROKEN:", l)
        for t in br.theorems:
            C.log("theorem", t, ":", br.assumptions.get(t, "NOT CHECKED").splitlines()[0])
    try:
        explore_t2(rep, a.tier, a.seed)
    except RuntimeError as ex:
        rep.disagree("case evaluation failed in coqc (Gen/GenPure2Insns.v or Run/TRun2Insns.v no longer compiles)", str(ex)[-1500:])
    for d in rep.disagreements[:5]:
        C.log("DISAGREEMENT:", str(d)[:700])
    bad = bool(rep.disagreements) or (br is not None and not br.ok)
    C.log(f"T2 {a.tier}: evaluations {rep.evaluations}, nontrivial {len(rep.nontrivial_keys)}, disagreements {len(rep.disagreements)}, "
          f"obligations {'-' if br is None else ('ok' if br.ok else 'BROKEN')} {rep.distribution} -> exit {1 if bad else 0}")
    sys.exit(1 if bad else 0)


if __name__ == "__main__":
    main()
