"""Correspondence of coq/Model/Poly.v with the real pdpy11.deferred objects (used by C09 and C12).

Random operation sequences are applied to real LinearPolynomial / Promise objects through the
internal API; the same sequences are replayed on the model inside coqc (Run/PolyRun.v)."""
import signal
import common as C
import impl


class PolyHang(BaseException):
    pass


def _alarm(signum, frame):
    raise PolyHang()

NREGS = 5
NVARS = 6          # variables 1..3 are Promises, 4..6 are "late" Deferreds
PROMISES = (1, 2, 3)
LATES = (4, 5, 6)


def gen_ops(rng, n):
    ops = []
    settled, latent, awaiting = set(), set(), set()
    small = [0, 1, -1, 2, -2, 3, 5, -7, 8, 100, 512, -512, 65535, 65536]
    for _ in range(n):
        k = rng.random()
        r, a, b = rng.randrange(NREGS), rng.randrange(NREGS), rng.randrange(NREGS)
        x = rng.randrange(1, NVARS + 1)
        c = rng.choice(small)
        if k < 0.15:
            ops.append(("PVar", r, x))
        elif k < 0.19:
            ops.append(("PConst", r, c))
        elif k < 0.31:
            ops.append(("PAdd", r, a, b))
        elif k < 0.35:
            ops.append(("PAddC", r, a, c, rng.random() < 0.5))
        elif k < 0.45:
            ops.append(("PAddV", r, a, x, rng.random() < 0.5))
        elif k < 0.49:
            ops.append(("PNeg", r, a))
        elif k < 0.58:
            ops.append(("PSub", r, a, b))
        elif k < 0.63:
            ops.append(("PSubV", r, a, x))
        elif k < 0.65:
            ops.append(("PRSubC", r, a, c))
        elif k < 0.71:
            ops.append(("PScale", r, a, rng.choice([0, 1, -1, 2, 3, -2, 4]), rng.random() < 0.5))
        elif k < 0.83:
            # settle a promise / give a late deferred its value: a number, a polynomial (possibly containing
            # other variables, the "base promise" among them), or another variable (chains)
            y = rng.randrange(1, NVARS + 1)
            kind = rng.choice(["C", "P", "P", "V", "V"])
            if x in PROMISES and x not in settled:
                settled.add(x)
                ops.append({"C": ("PSettleC", x, c), "P": ("PSettleP", x, a), "V": ("PSettleV", x, y)}[kind])
            elif x in LATES and x not in latent:
                latent.add(x)
                ops.append({"C": ("PLatentC", x, c), "P": ("PLatentP", x, a), "V": ("PLatentV", x, y)}[kind])
        elif k < 0.88:
            if x in awaiting:
                awaiting.discard(x)
                ops.append(("PAwait", x, False))
            else:
                awaiting.add(x)
                ops.append(("PAwait", x, True))
        else:
            ops.append(("PWait", a, rng.random() < 0.35))
    ops.append(("PWait", rng.randrange(NREGS), False))
    return ops


def gen_deep(rng):
    """chains far beyond depth 64 (the code has no bound there): a chain of aliases V7 -> V8 -> ... and a
    nest of polynomials V7 = V8 + 1, V8 = V9 + 1, ...; the end is a number, a polynomial over V1, or unknown"""
    L = rng.choice([70, 100, 150, 220])
    ids = list(range(7, 7 + L))
    ops = [("PVar", 0, 7), ("PSubV", 1, 0, 1), ("PVar", 2, ids[L // 2])]
    if rng.random() < 0.5:
        order = ids[:-1]
        if rng.random() < 0.5:
            rng.shuffle(order)
        for i in order:
            ops.append(("PSettleV", i, i + 1))
    else:
        for i in ids[:-1]:
            ops += [("PVar", 3, i + 1), ("PAddC", 3, 3, rng.choice([1, -1, 2]), True), ("PSettleP", i, 3)]
    end = rng.random()
    if end < 0.4:
        ops.append(("PSettleC", ids[-1], rng.choice([0, 5, -7, 512])))
    elif end < 0.7:
        ops += [("PVar", 4, 1), ("PAddC", 4, 4, 3, True), ("PSettleP", ids[-1], 4)]
    elif end < 0.85:
        ops.append(("PSettleV", ids[-1], 4))
        if rng.random() < 0.5:
            ops.append(("PLatentC", 4, 9))
    if rng.random() < 0.3:
        ops.append(("PAwait", rng.choice(ids), True))
    ops += [("PWait", 1, rng.random() < 0.3), ("PAdd", 3, 0, 2), ("PWait", 3, False), ("PWait", 0, False), ("PWait", 2, False)]
    return ops


def _obs(v, names):
    if isinstance(v, int):
        return [[], v]
    return [[[names[id(k)], c] for k, c in v.coeffs.items()], v.constant_term]


def _num(ret, D):
    """a wait result as a number, or None (an exception, a polynomial that still has variables, another object)"""
    if isinstance(ret, bool):
        return None
    if isinstance(ret, int):
        return ret
    if isinstance(ret, D.LinearPolynomial) and not ret.coeffs:
        return ret.constant_term
    return None


def drive(ops):
    """Apply ops to the real objects.  Returns (final registers, wait results) as plain lists."""
    m = impl.load()
    D = m["deferred"]
    impl.reset_global_state()
    LP, Promise = D.LinearPolynomial, D.Promise
    V, cell = {}, {}
    pos = {"PVar": (2,), "PAddV": (3,), "PSubV": (3,), "PSettleC": (1,), "PSettleP": (1,), "PSettleV": (1, 2), "PAwait": (1,)}
    extra = sorted({op[i] for op in ops for i in pos.get(op[0], ()) if op[i] > NVARS})
    for x in list(PROMISES) + [x for x in range(NVARS + 1, (max(extra) if extra else NVARS) + 1)]:
        V[x] = Promise[int](f"P{x}")

    def late_fn(x):
        def fn():
            D.not_ready()            # like Symbol._resolve before it looks at exported symbols
            if x not in cell:
                raise Exception(f"Late {x} is not ready")
            return cell[x]
        return fn
    for x in LATES:
        V[x] = D.Deferred(int, late_fn(x), f"L{x}")
    names = {id(p): x for x, p in V.items()}
    regs = [LP[int]() for _ in range(NREGS)]
    rets = []
    try:
        for op in ops:
            t = op[0]
            if t == "PConst":
                regs[op[1]] = LP[int]() + op[2]
            elif t == "PVar":
                regs[op[1]] = V[op[2]] + 0
            elif t == "PAdd":
                regs[op[1]] = regs[op[2]] + regs[op[3]]
            elif t == "PAddC":
                regs[op[1]] = (regs[op[2]] + op[3]) if op[4] else (op[3] + regs[op[2]])
            elif t == "PAddV":
                regs[op[1]] = (regs[op[2]] + V[op[3]]) if op[4] else (V[op[3]] + regs[op[2]])
            elif t == "PNeg":
                regs[op[1]] = -regs[op[2]]
            elif t == "PSub":
                regs[op[1]] = regs[op[2]] - regs[op[3]]
            elif t == "PSubV":
                regs[op[1]] = regs[op[2]] - V[op[3]]
            elif t == "PRSubC":
                regs[op[1]] = op[3] - regs[op[2]]
            elif t == "PScale":
                regs[op[1]] = (regs[op[2]] * op[3]) if op[4] else (op[3] * regs[op[2]])
            elif t == "PSettleC":
                V[op[1]].settle(op[2])
            elif t == "PSettleP":
                src = regs[op[2]]
                V[op[1]].settle(LP[int](dict(src.coeffs), src.constant_term))
            elif t == "PSettleV":
                V[op[1]].settle(V[op[2]])
            elif t == "PLatentC":
                cell[op[1]] = op[2]
            elif t == "PLatentP":
                src = regs[op[2]]
                cell[op[1]] = LP[int](dict(src.coeffs), src.constant_term)
            elif t == "PLatentV":
                cell[op[1]] = V[op[2]]
            elif t == "PAwait":
                V[op[1]].is_awaiting = op[2]
            elif t == "PWait":
                ret = None
                if op[2]:
                    with D.try_compute:      # speculative evaluation
                        ret = regs[op[1]].wait()
                else:
                    try:                     # final evaluation
                        ret = regs[op[1]].wait()
                    except D.DeferredCycle:
                        pass
                    except Exception as ex:
                        if "is not ready" not in str(ex):
                            raise
                rets.append(_num(ret, D))
            else:
                raise AssertionError(t)
    finally:
        for v in V.values():
            v.is_awaiting = False
        impl.reset_global_state()
    return [_obs(r, names) for r in regs], rets


def _pairs(l):
    return "[" + "; ".join(f"({k}, {C.zlit(v)})" for k, v in l) + "]"


def _obs_term(o):
    return f"({_pairs(o[0])}, {C.zlit(o[1])})"


def op_term(op):
    t = op[0]
    if t == "PConst":
        return f"PConst {op[1]} {C.zlit(op[2])}"
    if t == "PVar":
        return f"PVar {op[1]} {op[2]}"
    if t in ("PAdd", "PSub"):
        return f"{t} {op[1]} {op[2]} {op[3]}"
    if t in ("PAddC", "PRSubC", "PScale"):
        return f"{t} {op[1]} {op[2]} {C.zlit(op[3])}"
    if t in ("PAddV", "PSubV"):
        return f"{t} {op[1]} {op[2]} {op[3]}"
    if t == "PNeg":
        return f"PNeg {op[1]} {op[2]}"
    if t in ("PSettleC", "PLatentC"):
        return f"{t} {op[1]} {C.zlit(op[2])}"
    if t in ("PSettleP", "PLatentP"):
        return f"{t} {op[1]} {op[2]}%nat"
    if t in ("PSettleV", "PLatentV"):
        return f"{t} {op[1]} {op[2]}"
    if t == "PAwait":
        return f"PAwait {op[1]} {'true' if op[2] else 'false'}"
    if t == "PWait":
        return f"PWait {'true' if op[2] else 'false'} {op[1]}"
    raise AssertionError(t)


def case_term(ops, regs, rets):
    ops_t = "[" + "; ".join(op_term(o) for o in ops) + "]"
    regs_t = "[" + "; ".join(_obs_term(r) for r in regs) + "]"
    rets_t = "[" + "; ".join("None" if r is None else f"Some {C.zlit(r)}" for r in rets) + "]"
    return f"(({NREGS}%nat, {ops_t}, {regs_t}, {rets_t}) : poly_case)"


def run(rep, pid, rng, n):
    """n random sequences; reports disagreements on rep.  Returns number of cases."""
    cases = []
    for i in range(n):
        ops = gen_deep(rng) if i % 25 == 24 else gen_ops(rng, rng.choice([4, 8, 12, 20, 30]))
        old = signal.signal(signal.SIGALRM, _alarm)
        signal.setitimer(signal.ITIMER_REAL, 5)
        try:
            regs, rets = drive(ops)
        except PolyHang:
            rep.violate("poly-hang", "LinearPolynomial.wait() did not return within 5 s on this operation sequence (driven through the internal API)",
                        {"ops": ops})
            continue
        except Exception as ex:  # the real objects raised where the model has no such case
            rep.disagree("poly: the real LinearPolynomial raised " + type(ex).__name__, {"ops": ops}, impl=str(ex)[:200])
            continue
        finally:
            signal.setitimer(signal.ITIMER_REAL, 0)
            signal.signal(signal.SIGALRM, old)
        cases.append((ops, regs, rets))
    terms = [case_term(*c) for c in cases]
    codes = C.run_case_files(pid + "_poly", "Model.Poly Run.PolyRun", "Open Scope Z_scope.", C.shard(terms, 300),
                             judge_expr="map judge_poly cases")
    flat = [c for sh in codes for c in sh]
    for (ops, regs, rets), code in zip(cases, flat):
        rep.add_eval()
        rep.count("poly-sequence")
        if any(o[0] in ("PSettleP", "PSettleV", "PLatentP", "PLatentV") for o in ops[:-1]) and any(o[0] == "PWait" for o in ops[:-1]):
            rep.nontrivial(("poly", str(ops)))
        if code & 1:
            rep.disagree("poly: Model.Poly replay vs real LinearPolynomial/Promise objects", {"ops": ops},
                         impl={"regs": regs, "rets": rets})
    if cases:
        rep.sample({"poly_ops": cases[0][0][:6], "impl_regs": cases[0][1][:2]})
    return len(cases)
