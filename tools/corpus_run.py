#!/usr/bin/env python3
"""Assemble the 21 practice programs with /repo's pdpy11 and compare with their committed out.bin.
Also runs tests/test_compiler.py-like smoke? No: only the corpus. Exit 0 iff all match."""
import os, sys, signal
REPO = os.environ.get("VERIF_REPO", "/repo")
sys.path.insert(0, REPO)
from pdpy11 import bk_encoding, reports  # noqa
from pdpy11.compiler import Compiler
from pdpy11.formats import file_formats
from pdpy11.parser import parse

def run_one(name):
    root = os.path.join(REPO, "tests", "practice", name)
    src = os.path.join(root, "code.mac")
    with open(src) as f:
        source = f.read()
    errs = []
    def handler(priority, identifier, *l):
        if priority is not reports.warning:
            errs.append(identifier)
    signal.alarm(120)
    try:
        with reports.handle_reports(handler):
            base, code = Compiler().compile_and_link_files([parse(src, source)])
    except reports.UnrecoverableError:
        return "failed:" + ",".join(errs)
    finally:
        signal.alarm(0)
    with open(os.path.join(root, "out.bin"), "rb") as f:
        want = f.read()
    return "ok" if file_formats["bin"](base, code) == want else "MISMATCH"

if __name__ == "__main__":
    bad = 0
    for name in sorted(os.listdir(os.path.join(REPO, "tests", "practice"))):
        r = run_one(name)
        if r != "ok":
            bad += 1
            print(name, r)
    print("corpus: %d bad" % bad)
    sys.exit(1 if bad else 0)
