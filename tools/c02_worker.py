"""Post-processing of the PDPY11_VERIF hook trace (runs inside impl.assemble's report handler)."""
import impl


def post(comp, base, code, parsed):
    m = impl.load()
    D = m["deferred"]
    wait, BaseDeferred = D.wait, D.BaseDeferred
    trace = getattr(comp, "verif_trace", None)
    if trace is None:
        return {"error": "no verif_trace: hook missing or PDPY11_VERIF not set"}
    blocks, stack, anomalies = [], [], []
    main_lb = None
    for rec in trace:
        if rec[0] == "enter":
            _, block, start, state = rec
            lb = state.get("link_base")
            if main_lb is None:
                main_lb = lb
            own_base = lb is not main_lb and lb is not None and lb.get("set_where") is not None
            b = {"start": start, "recs": [], "file": state.get("filename"), "context": state.get("context"),
                 "lb": lb, "own_base": own_base, "depth": len(stack), "end": None,
                 "top": state.get("context") == "file" and lb is main_lb}
            stack.append((block, b))
            blocks.append(b)
        elif rec[0] == "exit":
            _, block, addr, data = rec
            if not stack or stack[-1][0] is not block:
                anomalies.append("unbalanced exit")
                while stack and stack[-1][0] is not block:
                    stack.pop()
            if stack:
                stack.pop()[1]["end"] = addr
        else:
            if not stack:
                anomalies.append("record outside block")
                continue
            stack[-1][1]["recs"].append(rec)
    if stack:
        anomalies.append("unclosed block")
    out = []
    for b in blocks:
        if b["end"] is None:
            continue
        # set_where may have been filled in after the block was entered
        own = b["lb"] is not main_lb and b["lb"] is not None and b["lb"].get("set_where") is not None
        start = wait(b["start"])
        recs = []
        for insn, addr, chunk, state in b["recs"]:
            a = wait(addr)
            text = insn.text()[:50] if hasattr(insn, "text") else "?"
            kind = type(insn).__name__
            if kind == "Instruction":
                kind = "insn:" + insn.name.name.lower()
            if chunk is None:
                recs.append({"k": "label", "t": text, "ready": True, "ann": None, "n": 0, "a": a, "bytes": ""})
                continue
            ready = not isinstance(chunk, BaseDeferred)
            if ready:
                data = bytes(chunk)
                ann = None
            else:
                data = bytes(wait(chunk))
                ann = wait(chunk.length())
            recs.append({"k": kind, "t": text, "ready": ready, "ann": ann, "n": len(data), "a": a, "bytes": data.hex()})
        out.append({"start": start, "end": wait(b["end"]), "file": b["file"], "context": b["context"], "own_base": own,
                    "depth": b["depth"], "top": b["top"], "recs": recs})
    return {"blocks": out, "anomalies": anomalies, "nfiles": len(parsed)}


# --- loaded-image stream: what the written containers say about where the bytes go -------------------------------
# Readers written from the container descriptions (bin: two little-endian words then the bytes; BK tape: pilot, sync
# marker, per-bit pulse widths, least significant bit first), independent of pdpy11/formats.py and bk_wav.py.  They are
# only as strict as needed to recover (load address, announced length, payload); the container format itself is C13's.

def read_bin(data):
    if len(data) < 4:
        return {"err": "bin container shorter than its 4-byte header"}
    load = data[0] | (data[1] << 8)
    length = data[2] | (data[3] << 8)
    return {"load": load, "length": length, "payload": data[4:].hex()}


def _hi_runs(samples):
    runs, n = [], 0
    for s in samples:
        if s >= 128:
            n += 1
        elif n:
            runs.append(n)
            n = 0
    if n:
        runs.append(n)
    return runs


def _bytes_of_bits(bits):
    return bytes(sum(b << i for i, b in enumerate(bits[k:k + 8])) for k in range(0, len(bits), 8))


def read_bk_wav(data, turbo):
    if data[:4] != b"RIFF" or data[8:12] != b"WAVE" or data[36:40] != b"data":
        return {"err": "not a RIFF/WAVE file with the data chunk at offset 36"}
    runs = _hi_runs(data[44:])
    pos = [0]

    def expect(seq):
        if runs[pos[0]:pos[0] + len(seq)] != list(seq):
            raise ValueError("pulse train: expected widths %r at pulse %d, found %r" % (list(seq)[:6], pos[0], runs[pos[0]:pos[0] + 6]))
        pos[0] += len(seq)

    def bits(n):
        out = []
        for _ in range(n):
            if turbo:
                w = runs[pos[0]] if pos[0] < len(runs) else None
                pos[0] += 1
                if w not in (1, 3):
                    raise ValueError("pulse train: bit pulse of width %r at pulse %d" % (w, pos[0] - 1))
                out.append(1 if w == 3 else 0)
            else:
                expect([2])
                w = runs[pos[0]] if pos[0] < len(runs) else None
                pos[0] += 1
                if w not in (2, 4):
                    raise ValueError("pulse train: bit pulse of width %r at pulse %d" % (w, pos[0] - 1))
                out.append(1 if w == 4 else 0)
        return out

    try:
        if turbo:
            while pos[0] < len(runs) and runs[pos[0]] == 3:
                pos[0] += 1
            expect([12])
            header = _bytes_of_bits(bits(160))
        else:
            while pos[0] < len(runs) and runs[pos[0]] == 2:
                pos[0] += 1
            expect([8, 4] + [2] * 10 + [8, 4])
            header = _bytes_of_bits(bits(160))
            expect([2] * 10 + [8, 4])
        load = header[0] | (header[1] << 8)
        length = header[2] | (header[3] << 8)
        payload = _bytes_of_bits(bits(8 * length))
        bits(16)  # checksum word: present, its value is C13's business
    except (ValueError, IndexError) as ex:
        return {"err": str(ex)[:200]}
    return {"load": load, "length": length, "payload": payload.hex(), "tape_name": header[4:20].hex()}


READERS = {"bin": read_bin, "bk_wav": lambda d: read_bk_wav(d, False), "bk_turbo_wav": lambda d: read_bk_wav(d, True),
           "raw": lambda d: {"load": None, "length": len(d), "payload": d.hex()}}


class _Capture:
    def __init__(self, store, path):
        self.store, self.path, self.buf = store, path, bytearray()

    def write(self, data):
        self.buf += data
        return len(data)

    def __enter__(self):
        return self

    def __exit__(self, *exc):
        self.store.append((self.path, bytes(self.buf)))
        return False


def post_emit(comp, base, code, parsed):
    """post() plus: every output the program's make_* directives request, produced by the real Compiler.emit_files
    (open_device replaced by an in-memory writer, nothing touches the disk), and the containers the command line
    builds for '-o x.bin' / '-o x.raw' (file_formats[...](base, code), as _cli.py does); each is read back here."""
    import contextlib
    import io
    res = post(comp, base, code, parsed)
    m = impl.load()
    cm = m["compiler"]
    written = []
    old = cm.open_device
    cm.open_device = lambda path, mode="rb", *a, **k: _Capture(written, path)
    try:
        with contextlib.redirect_stderr(io.StringIO()):
            comp.emit_files(base, code)
    finally:
        cm.open_device = old
    requested = [(e[2], e[3]) for e in comp.emitted_files]
    outs = []
    for (fmt, path), (wpath, data) in zip(requested, written) if len(requested) == len(written) else []:
        outs.append(dict(READERS[fmt](data), fmt=fmt, via="directive", path=path, size=len(data)))
    for fmt in ("bin", "raw"):
        try:
            data = m["formats"].file_formats[fmt](base, bytes(code))
        except Exception as ex:  # does not fit the 16-bit header: reported by the CLI, no container
            outs.append({"fmt": fmt, "via": "-o", "refused": type(ex).__name__})
            continue
        outs.append(dict(READERS[fmt](data), fmt=fmt, via="-o", path="out." + fmt, size=len(data)))
    res["containers"] = outs
    res["requested"] = len(requested)
    res["written"] = len(written)
    return res
