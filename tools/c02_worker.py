"""Post-processing of the PDPY11_VERIF hook trace (runs inside impl.assemble's report handler)."""
import impl


def post(comp, base, code, parsed):
    m = impl.load()
    D = m["deferred"]
    wait, BaseDeferred = D.wait, D.BaseDeferred
    trace = getattr(comp, "verif_trace", None)
    if trace is None:
        return {"error": "no verif_trace: hook missing or PDPY11_VERIF not set"}
    blocks, stack, anomalies = [], [], []
    main_lb = None
    for rec in trace:
        if rec[0] == "enter":
            _, block, start, state = rec
            lb = state.get("link_base")
            if main_lb is None:
                main_lb = lb
            own_base = lb is not main_lb and lb is not None and lb.get("set_where") is not None
            b = {"start": start, "recs": [], "file": state.get("filename"), "context": state.get("context"),
                 "lb": lb, "own_base": own_base, "depth": len(stack), "end": None,
                 "top": state.get("context") == "file" and lb is main_lb}
            stack.append((block, b))
            blocks.append(b)
        elif rec[0] == "exit":
            _, block, addr, data = rec
            if not stack or stack[-1][0] is not block:
                anomalies.append("unbalanced exit")
                while stack and stack[-1][0] is not block:
                    stack.pop()
            if stack:
                stack.pop()[1]["end"] = addr
        else:
            if not stack:
                anomalies.append("record outside block")
                continue
            stack[-1][1]["recs"].append(rec)
    if stack:
        anomalies.append("unclosed block")
    out = []
    for b in blocks:
        if b["end"] is None:
            continue
        # set_where may have been filled in after the block was entered
        own = b["lb"] is not main_lb and b["lb"] is not None and b["lb"].get("set_where") is not None
        start = wait(b["start"])
        recs = []
        for insn, addr, chunk, state in b["recs"]:
            a = wait(addr)
            text = insn.text()[:50] if hasattr(insn, "text") else "?"
            kind = type(insn).__name__
            if kind == "Instruction":
                kind = "insn:" + insn.name.name.lower()
            if chunk is None:
                recs.append({"k": "label", "t": text, "ready": True, "ann": None, "n": 0, "a": a, "bytes": ""})
                continue
            ready = not isinstance(chunk, BaseDeferred)
            if ready:
                data = bytes(chunk)
                ann = None
            else:
                data = bytes(wait(chunk))
                ann = wait(chunk.length())
            recs.append({"k": kind, "t": text, "ready": ready, "ann": ann, "n": len(data), "a": a, "bytes": data.hex()})
        out.append({"start": start, "end": wait(b["end"]), "file": b["file"], "context": b["context"], "own_base": own,
                    "depth": b["depth"], "top": b["top"], "recs": recs})
    return {"blocks": out, "anomalies": anomalies, "nfiles": len(parsed)}
