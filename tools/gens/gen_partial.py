"""Translator plug-in for C08: pins the source text of every *guarded partial operation* the Coq model
Model/Partial.v reasons about, and emits the data of those guards as coq/Gen/GenPartial.v.

For each site the plug-in checks (ast shape, fail closed) that the partial operation is still wrapped in the guard
the model assumes, and extracts what the guard consists of:

  chr(code)                 types.AngleBracketedChar.resolve      -> chr_caught  (exception classes of the try)
  TABLE.index(c.upper())    metacommands.rad50                    -> rad50_caught
  encode_char / pack_to_int radix50.py                            -> (shape only)
  ^R literal                parser.radix50_chars, radix50_literal -> rad50_literal_class (code points the regex admits)
  int(num, base)            parser.number                         -> radix_classes [(prefix, code points, base)],
                                                                     local_symbol_class, the guards around each int() call
  int(num, 16) / chr        parser.string_escape                  -> hex_escape_class
  Parser.regex flags        parser.Parser.regex                   -> (shape only: re.I | re.ASCII unless case_sensitive)
  {"s":..,"d":..}[c]        insns.RegisterOperandStub.encode      -> reg_stub_keys / reg_stub_chars (constructor arguments)
  {"S":..,"D":..}[c]        insns.FP11AccumulatorOperandStub      -> acc_stub_keys / acc_stub_chars

Character classes are obtained by running Python's own `re` on every code point with the flags the source
passes (that reading of `re` is part of the trusted base); everything else is read off the ast.
An edit to any of these sites aborts the translator: a broken obligation of C08, which triggers the search.
"""
import ast
import re

from translate import parse, need, find_assign, find_def, find_class, const_str, const_int, dump_eq, coq_string, HEADER, TranslateAbort  # noqa: F401


def nlist(xs):
    return "[" + "; ".join(str(int(x)) for x in xs) + "]"


def slist(xs):
    return "[" + "; ".join(coq_string(x) for x in xs) + "]"


def walk_with_guards(fn):
    """yield (call_node, [guard strings]) for every call inside fn; a guard string is the unparsed test of an
    enclosing `if` (prefixed 'not ' in the else branch), 'for', or 'try[except A, B]' """
    out = []

    def visit(node, guards):
        if isinstance(node, ast.If):
            visit_expr(node.test, guards)
            t = ast.unparse(node.test)
            for s in node.body:
                visit(s, guards + [t])
            for s in node.orelse:
                visit(s, guards + ["not " + t])
            return
        if isinstance(node, ast.Try):
            names = []
            for h in node.handlers:
                names.append(ast.unparse(h.type) if h.type is not None else "*")
            for s in node.body:
                visit(s, guards + ["try[" + ",".join(names) + "]"])
            for h in node.handlers:
                for s in h.body:
                    visit(s, guards)
            for s in node.orelse + node.finalbody:
                visit(s, guards)
            return
        if isinstance(node, ast.For):
            visit_expr(node.iter, guards)
            for s in node.body:
                visit(s, guards + ["for"])
            return
        if isinstance(node, (ast.FunctionDef, ast.Lambda)) and node is not fn:
            return
        for ch in ast.iter_child_nodes(node):
            if isinstance(ch, ast.stmt):
                visit(ch, guards)
            else:
                visit_expr(ch, guards)

    def visit_expr(node, guards):
        for sub in ast.walk(node):
            if isinstance(sub, ast.Call):
                out.append((sub, list(guards)))

    for s in fn.body:
        visit(s, [])
    return out


def int_calls(fn):
    res = []
    for call, guards in walk_with_guards(fn):
        if isinstance(call.func, ast.Name) and call.func.id == "int":
            res.append((ast.unparse(call), guards))
    return res


def matched_codepoints(pattern, flags):
    rx = re.compile(pattern, flags)
    return [cp for cp in range(0x110000) if rx.fullmatch(chr(cp))]


def always_returns(stmts):
    if not stmts:
        return False
    last = stmts[-1]
    if isinstance(last, (ast.Return, ast.Raise)):
        return True
    if isinstance(last, ast.If):
        return always_returns(last.body) and always_returns(last.orelse)
    return False


def gen_partial():
    out = HEADER.format(src="pdpy11/{types,metacommands,radix50,parser,insns}.py (guarded partial operations) by tools/gens/gen_partial.py")
    out += "Open Scope N_scope.\n\n"

    # ---- deferred.wait: the loop the model Model/WaitModel.v transliterates, and its `seen` bound -----------------
    tree, _ = parse("pdpy11/deferred.py")
    wait = find_def(tree, "wait")
    need(len(wait.body) == 4, "deferred.wait: body changed")
    dump_eq(wait.body[0], "seen = []", "deferred.wait: seen")
    dump_eq(wait.body[1], "polynomial_steps = 0", "deferred.wait: polynomial_steps")
    loop = wait.body[2]
    need(isinstance(loop, ast.While) and ast.unparse(loop.test) == "isinstance(deferred, BaseDeferred)" and len(loop.body) == 5 and not loop.orelse,
         "deferred.wait: loop changed")
    chk = loop.body[0]
    need(isinstance(chk, ast.If) and not chk.orelse and isinstance(chk.test, ast.BoolOp) and isinstance(chk.test.op, ast.Or) and len(chk.test.values) == 3,
         "deferred.wait: cycle check changed")

    def bound_of(cmp, left, what):
        need(isinstance(cmp, ast.Compare) and ast.unparse(cmp.left) == left and len(cmp.ops) == 1 and isinstance(cmp.ops[0], ast.GtE), what + " changed")
        b = const_int(cmp.comparators[0], what)
        need(0 < b <= 100000, what + ": implausible bound")
        return b
    wait_bound = bound_of(chk.test.values[0], "len(seen)", "deferred.wait: length bound")
    poly_bound = bound_of(chk.test.values[1], "polynomial_steps", "deferred.wait: polynomial step bound")
    dump_eq(chk.test.values[2], "any(deferred is prev for prev in seen)", "deferred.wait: identity check")
    dump_eq(chk.body[0], "raise DeferredCycle()", "deferred.wait: raise")
    dump_eq(loop.body[1], "seen.append(deferred)", "deferred.wait: append")
    dump_eq(loop.body[2], "value = deferred.wait()", "deferred.wait: step")
    dump_eq(loop.body[3], "if isinstance(deferred, LinearPolynomial) and isinstance(value, LinearPolynomial):\n    polynomial_steps += 1", "deferred.wait: counting")
    dump_eq(loop.body[4], "deferred = value", "deferred.wait: advance")
    dump_eq(wait.body[3], "return deferred", "deferred.wait: return")
    stores = [n for n in ast.walk(wait) if isinstance(n, ast.Name) and n.id == "polynomial_steps" and isinstance(n.ctx, ast.Store)]
    need(len(stores) == 2, "deferred.wait: polynomial_steps is assigned elsewhere")
    bd = find_class(tree, "BaseDeferred")
    dump_eq(find_def(bd, "wait"),
            "def wait(self):\n"
            "    if try_compute.depth > 0 and id(self) in try_compute.not_ready_yet:\n"
            "        raise NotReadyError()\n"
            "    try:\n"
            "        with Awaiting(self):\n"
            "            try:\n"
            "                return self._wait()\n"
            "            except NotReadyError:\n"
            "                if try_compute.depth > 0:\n"
            "                    try_compute.not_ready_yet[id(self)] = self\n"
            "                raise\n"
            "    except DeferredCycle:\n"
            "        remember_cycle(self)\n"
            "        raise", "BaseDeferred.wait (not_ready_yet memo, cycle remembered on the way out)")
    aw = find_class(tree, "Awaiting")
    # Awaiting with the frame-scoped cycle memo of fixes 22284d4 / 2b465cd.  The memo is written by remember_cycle(), called by
    # BaseDeferred.wait on every DeferredCycle on its way out and where symbolic_product() catches the DeferredCycle of a factor.
    # It is read (Awaiting.__enter__) only by an evaluation that goes on after a DeferredCycle was caught; in Model/WaitModel.v
    # no fn catches an exception: a DeferredCycle unwinds to the outermost wait(), whose frame forgets everything.  So the memo
    # is inert on the graphs of the model.  The shapes are pinned so that any change of the protocol aborts here.
    dump_eq(find_def(aw, "__enter__"), "def __enter__(self):\n    if self.deferred.is_awaiting or id(self.deferred) in Awaiting.known_cycles:\n        raise DeferredCycle()\n"
            "    self.deferred.is_awaiting = True\n    Awaiting.awaiting_stack.append(self.deferred)\n    Awaiting.found_cycles_stack.append([])\n    return self", "Awaiting.__enter__")
    dump_eq(find_def(aw, "__exit__"), "def __exit__(self, exc_type, exc_value, exc_tb):\n    assert Awaiting.awaiting_stack.pop() is self.deferred\n"
            "    self.deferred.is_awaiting = False\n    found = Awaiting.found_cycles_stack.pop()\n"
            "    if exc_type is DeferredCycle and Awaiting.found_cycles_stack:\n        Awaiting.found_cycles_stack[-1].extend(found)\n"
            "    else:\n        for key in found:\n            Awaiting.known_cycles.pop(key, None)", "Awaiting.__exit__")
    dump_eq(find_def(tree, "remember_cycle"),
            "def remember_cycle(deferred):\n"
            "    if Awaiting.found_cycles_stack and isinstance(deferred, BaseDeferred) and id(deferred) not in Awaiting.known_cycles:\n"
            "        Awaiting.known_cycles[id(deferred)] = deferred\n"
            "        Awaiting.found_cycles_stack[-1].append(id(deferred))", "remember_cycle")
    rc_calls = [n for n in ast.walk(tree) if isinstance(n, ast.Call) and isinstance(n.func, ast.Name) and n.func.id == "remember_cycle"]
    need(sorted(ast.unparse(c) for c in rc_calls) == ["remember_cycle(number)", "remember_cycle(self)"],
         "remember_cycle is called somewhere else than in BaseDeferred.wait and symbolic_product's second loop")
    sp = find_def(tree, "symbolic_product")
    sp_call = [c for c in rc_calls if ast.unparse(c) == "remember_cycle(number)"][0]
    need(any(n is sp_call for n in ast.walk(sp)), "remember_cycle(number) is not called from symbolic_product")
    handlers = [h for h in ast.walk(sp) if isinstance(h, ast.ExceptHandler) and any(n is sp_call for n in ast.walk(h))]
    need(len(handlers) == 1 and ast.unparse(handlers[0].type) == "DeferredCycle" and ast.unparse(handlers[0].body[-1]) == "continue",
         "symbolic_product: remember_cycle must sit in `except DeferredCycle: remember_cycle(number); continue`")
    kc_writers = sorted({ast.unparse(n.value)[:40] for n in ast.walk(tree) if isinstance(n, ast.Subscript) and isinstance(n.ctx, ast.Store) and "known_cycles" in ast.unparse(n.value)})
    need(kc_writers == ["Awaiting.known_cycles"] and sum(1 for n in ast.walk(tree) if isinstance(n, ast.Subscript) and isinstance(n.ctx, ast.Store) and "known_cycles" in ast.unparse(n.value)) == 1,
         "known_cycles is written outside remember_cycle")
    # a coefficient beyond MAX_COEFFICIENT_BITS in LinearPolynomial expansion is treated as a ring being unrolled (2b465cd)
    mcb = const_int(find_assign(tree, "MAX_COEFFICIENT_BITS"), "MAX_COEFFICIENT_BITS")
    need(mcb >= 64, "MAX_COEFFICIENT_BITS implausibly small")
    guards = [n for n in ast.walk(tree) if isinstance(n, ast.If) and ast.unparse(n.test) == "value.bit_length() > MAX_COEFFICIENT_BITS"]
    need(len(guards) == 1 and ast.unparse(guards[0].body[-1]) == "raise DeferredCycle()" and not guards[0].orelse, "expand(): the coefficient guard changed")
    out += f"(* deferred.py: MAX_COEFFICIENT_BITS *)\nDefinition max_coefficient_bits : N := {mcb}%N.\n\n"
    df = find_class(tree, "Deferred")
    dump_eq(find_def(df, "_wait"), "def _wait(self):\n    if self.settled:\n        return self.value\n    else:\n        self.value = self.fn()\n"
            "        self.settled = True\n        return self.value", "Deferred._wait")
    tc = find_class(tree, "TryCompute")
    dump_eq(find_def(tc, "__enter__"), "def __enter__(self):\n    if self.depth == 0:\n        self.not_ready_yet = {}\n    self.depth += 1\n    return self",
            "TryCompute.__enter__ (memo reset at the outermost speculation)")
    memo_users = sorted({ast.unparse(n)[:60] for n in ast.walk(tree) if isinstance(n, ast.Attribute) and n.attr == "not_ready_yet"})
    need(memo_users == ["self.not_ready_yet", "try_compute.not_ready_yet"], "deferred.py: not_ready_yet is used somewhere else: " + repr(memo_users))
    n_memo = sum(1 for n in ast.walk(tree) if isinstance(n, ast.Attribute) and n.attr == "not_ready_yet")
    need(n_memo == 3, f"deferred.py: not_ready_yet is referenced {n_memo} times (expected: reset, membership test, store)")
    need(ast.unparse(find_def(tc, "__exit__").body[-1]) == "return exc_type is NotReadyError or exc_type is DeferredCycle", "TryCompute.__exit__: what it swallows changed")
    out += "(* deferred.wait: `if len(seen) >= <N1> or polynomial_steps >= <N2> or any(deferred is prev for prev in seen): raise DeferredCycle()` *)\n"
    out += f"Definition wait_seen_bound : nat := {wait_bound}%nat.\nDefinition wait_poly_bound : nat := {poly_bound}%nat.\n\n"

    # ---- chr(code) in AngleBracketedChar.resolve ------------------------------------------------------------
    tree, _ = parse("pdpy11/types.py")
    cls = find_class(tree, "AngleBracketedChar")
    resolve = find_def(cls, "resolve")
    tries = [n for n in ast.walk(resolve) if isinstance(n, ast.Try)]
    need(len(tries) == 1, "AngleBracketedChar.resolve: expected exactly one try statement")
    t = tries[0]
    need(len(t.body) == 1, "AngleBracketedChar.resolve: try body is not a single statement")
    dump_eq(t.body[0], "return chr(code)", "AngleBracketedChar.resolve try body")
    caught = []
    for h in t.handlers:
        need(h.type is not None, "AngleBracketedChar.resolve: bare except")
        if isinstance(h.type, ast.Tuple):
            for e in h.type.elts:
                need(isinstance(e, ast.Name), "AngleBracketedChar.resolve: exception class is not a name")
                caught.append(e.id)
        else:
            need(isinstance(h.type, ast.Name), "AngleBracketedChar.resolve: exception class is not a name")
            caught.append(h.type.id)
        need(isinstance(h.body[-1], ast.Return), "AngleBracketedChar.resolve: handler does not return")
        need(any(isinstance(s, ast.Expr) and ast.unparse(s).startswith("reports.error('value-out-of-bounds'") for s in h.body),
             "AngleBracketedChar.resolve: handler does not report value-out-of-bounds")
    chr_calls = [c for c, _ in walk_with_guards(resolve) if isinstance(c.func, ast.Name) and c.func.id == "chr"]
    need(len(chr_calls) == 1, "AngleBracketedChar.resolve: chr() is called outside the try")
    codes = [s for s in resolve.body if isinstance(s, ast.Assign) and ast.unparse(s.targets[0]) == "code"]
    need(len(codes) == 1, "AngleBracketedChar.resolve: assignment to code not found")
    dump_eq(codes[0], "code = get_as_int(state, 'Unicode code point', self, self.expr, bitness=None, unsigned=False)", "AngleBracketedChar.resolve: code")
    out += "(* types.AngleBracketedChar.resolve: try: return chr(code) except <these>: report value-out-of-bounds; return '' *)\n"
    out += f"Definition chr_caught : list string := {slist(caught)}.\n\n"

    # ---- TABLE.index in metacommands.rad50 ---------------------------------------------------------------------
    tree, _ = parse("pdpy11/metacommands.py")
    rad50 = find_def(tree, "rad50")
    tries = [n for n in ast.walk(rad50) if isinstance(n, ast.Try)]
    need(len(tries) == 1, "metacommands.rad50: expected exactly one try statement")
    t = tries[0]
    need(len(t.body) == 2, "metacommands.rad50: try body changed")
    dump_eq(t.body[0], "if not char.isascii():\n    raise ValueError(char)", "metacommands.rad50: ASCII guard")
    dump_eq(t.body[1], "val = radix50.TABLE.index(char.upper())", "metacommands.rad50: index")
    r_caught = []
    for h in t.handlers:
        need(isinstance(h.type, ast.Name), "metacommands.rad50: exception class is not a name")
        r_caught.append(h.type.id)
        dump_eq(h.body[-1], "val = 0", "metacommands.rad50: handler result")
        need(ast.unparse(h.body[0]).startswith("reports.error('invalid-character'"), "metacommands.rad50: handler does not report invalid-character")
    idx_calls = [c for c, _ in walk_with_guards(rad50) if ast.unparse(c.func).endswith("TABLE.index")]
    need(len(idx_calls) == 1, "metacommands.rad50: TABLE.index is called outside the try")
    out += "(* metacommands.rad50: try: if not char.isascii(): raise ValueError; val = TABLE.index(char.upper()) except <these>: report; val = 0 *)\n"
    out += f"Definition rad50_caught : list string := {slist(r_caught)}.\n\n"

    # ---- struct.pack formats of the data directives (Model/Partial.v: pack_byte / pack_word / pack_dword / ascii_chunk) ----
    byte = find_def(tree, "byte")
    dump_eq(byte.body[-1], "return b''.join(struct.pack('<B', operand) for operand in byte_operand)", "metacommands.byte: pack")
    need(ast.unparse(byte.args) == "state, *byte_operand: int8", "metacommands.byte: signature")
    word = find_def(tree, "word")
    dump_eq(word.body[-1], "return prefix + b''.join(struct.pack('<H', operand) for operand in word_operand)", "metacommands.word: pack")
    need(ast.unparse(word.args) == "state, *word_operand: int16", "metacommands.word: signature")
    dword = find_def(tree, "dword")
    need(ast.unparse(dword.args) == "state, *dword_operand: int32", "metacommands.dword: signature")
    enc = [n for n in dword.body if isinstance(n, ast.FunctionDef) and n.name == "encode_i32"]
    need(len(enc) == 1, "metacommands.dword: encode_i32 not found")
    dump_eq(enc[0], "def encode_i32(value):\n    return struct.pack('<H', value >> 16) + struct.pack('<H', value & 0xffff)", "metacommands.dword: encode_i32")
    dump_eq(dword.body[-1], "return prefix + b''.join(encode_i32(operand) for operand in dword_operand)", "metacommands.dword: pack")
    packs = [ast.unparse(c) for f in (byte, word, dword) for c, _ in walk_with_guards(f) if ast.unparse(c.func) == "struct.pack"]
    ai = find_def(tree, "ascii_impl")
    appends = [ast.unparse(c) for c, _ in walk_with_guards(ai) if ast.unparse(c.func) == "result.append"]
    need(appends == ["result.append(get_as_int(state, 'byte character', chunk, chunk.expr, bitness=8, unsigned=True, default=0))"],
         "metacommands.ascii_impl: the <n> chunk is no longer appended through get_as_int(bitness=8, unsigned=True, default=0): " + repr(appends))

    # ---- radix50.py --------------------------------------------------------------------------------------------
    tree, _ = parse("pdpy11/radix50.py")
    table = const_str(find_assign(tree, "TABLE"), "radix50.TABLE")
    dump_eq(find_def(tree, "encode_char"), "def encode_char(char):\n    return TABLE.index(char)", "radix50.encode_char")
    dump_eq(find_def(tree, "pack_to_int"),
            "def pack_to_int(string):\n    assert len(string) <= 3\n    string = string.ljust(3, ' ')\n    a, b, c = string\n"
            "    return encode_char(a) * 1600 + encode_char(b) * 40 + encode_char(c)", "radix50.pack_to_int")

    # ---- parser.py ---------------------------------------------------------------------------------------------
    tree, _ = parse("pdpy11/parser.py")
    pcls = find_class(tree, "Parser")
    regex_def = find_def(pcls, "regex")
    comp = [s for s in regex_def.body if isinstance(s, ast.Assign) and ast.unparse(s.targets[0]) == "regex"]
    need(len(comp) == 1, "Parser.regex: compile statement not found")
    dump_eq(comp[0], "regex = re.compile(regex, flags=0 if case_sensitive else re.I | re.ASCII)", "Parser.regex flags")
    need(ast.unparse(regex_def.args) == "cls, regex, skip_whitespace_before=True, case_sensitive=False", "Parser.regex signature")
    FLAGS = re.I | re.ASCII

    chars = find_assign(tree, "radix50_chars")
    dump_eq(chars, "Parser.regex('[' + re.escape(radix50.TABLE.replace(' ', '') + radix50.TABLE.replace(' ', '').lower()) + ']+', "
                   "skip_whitespace_before=False, case_sensitive=True)", "parser.radix50_chars")
    nosp = table.replace(" ", "")
    lit_class = matched_codepoints("[" + re.escape(nosp + nosp.lower()) + "]", 0)
    lit = find_def(tree, "radix50_literal")
    src = [ast.unparse(s) for s in lit.body]
    need("if len(string) > 3:" in "\n".join(src), "radix50_literal: length guard missing")
    guard = [s for s in lit.body if isinstance(s, ast.If) and ast.unparse(s.test) == "len(string) > 3"]
    need(len(guard) == 1, "radix50_literal: length guard missing")
    dump_eq(guard[0].body[-1], "string = string[:3]", "radix50_literal: truncation")
    need(not guard[0].orelse, "radix50_literal: unexpected else")
    gi = lit.body.index(guard[0])
    dump_eq(lit.body[gi + 1], "string = string.upper()", "radix50_literal: upper")
    need(isinstance(lit.body[gi + 2], ast.Return) and "radix50.pack_to_int(string)" in ast.unparse(lit.body[gi + 2]), "radix50_literal: return")
    need(gi + 3 == len(lit.body), "radix50_literal: statements after the return")
    prev = lit.body[gi - 1]
    dump_eq(prev, "if string is None:\n    string = ''", "radix50_literal: None guard")
    dump_eq(lit.body[gi - 2].value.func, "radix50_chars", "radix50_literal: the string comes from radix50_chars")
    out += "(* parser.radix50_literal: the characters admitted after ^R (regex built from radix50.TABLE, case sensitive, both cases listed) *)\n"
    out += f"Definition rad50_literal_class : list N := {nlist(lit_class)}.\n"
    out += f"Definition rad50_table_codes : list N := {nlist(ord(c) for c in table)}.\n\n"

    number = find_def(tree, "number")
    loops = [s for s in number.body if isinstance(s, ast.For)]
    need(len(loops) == 1 and isinstance(loops[0].iter, ast.Tuple), "parser.number: prefix loop not found")
    need(ast.unparse(loops[0].target) == "(prefix, adjective, digit_regex, base)", "parser.number: loop target")
    rows = []
    for elt in loops[0].iter.elts:
        need(isinstance(elt, ast.Tuple) and len(elt.elts) == 4, "parser.number: prefix row")
        prefix = const_str(elt.elts[0], "prefix")
        rx = const_str(elt.elts[2], "digit regex")
        base = const_int(elt.elts[3], "base")
        rows.append((prefix, matched_codepoints(rx, FLAGS), base))
    body = loops[0].body
    need(len(body) == 1 and isinstance(body[0], ast.If), "parser.number: loop body")
    dump_eq(body[0].test, "Parser.literal(prefix)(ctx, maybe=True)", "parser.number: prefix test")
    first = body[0].body[0]
    need(isinstance(first, ast.Assign) and ast.unparse(first.targets[0]) == "num", "parser.number: num assignment")
    dump_eq(first.value.func, "Parser.regex(rf'{digit_regex}+(?![$_.])\\b', skip_whitespace_before=False)", "parser.number: digit regex")
    need("reports.critical" in ast.unparse(first.value), "parser.number: a failed digit match must be critical (num is never None)")
    calls = int_calls(number)
    expected = [
        ("int(num, base)", ["for", "Parser.literal(prefix)(ctx, maybe=True)"]),
        ("int(num, 10)", ["num.isdigit()", "has_dot"]),
        ("int(num, 10)", ["num.isdigit()", "'8' in num or '9' in num", "sign == -1"]),
        ("int(num, 10)", ["num.isdigit()", "'8' in num or '9' in num"]),
        ("int(num, 8)", ["num.isdigit()"]),
        ("int(num[2:], base)", ["len(num) >= 2 and num[0] == '0' and num[1].isalpha()", "try[ValueError]"]),
    ]
    need(calls == expected, "parser.number: the int() calls or their guards changed:\n  " + repr(calls))
    isd = [s for s in number.body if isinstance(s, ast.If) and ast.unparse(s.test) == "num.isdigit()"]
    need(len(isd) == 1, "parser.number: isdigit block")
    blk = isd[0].body
    need(ast.unparse(blk[0].test) == "has_dot" and always_returns(blk[0].body), "parser.number: decimal branch")
    need(ast.unparse(blk[1].test) == "'8' in num or '9' in num" and always_returns(blk[1].body), "parser.number: the 8/9 branch must return")
    need(isinstance(blk[2], ast.Return) and "int(num, 8)" in ast.unparse(blk[2]), "parser.number: octal return")
    numsrc = [s for s in number.body if isinstance(s, ast.Assign) and ast.unparse(s.targets[0]) == "num"]
    dump_eq(numsrc[0], "num = local_symbol_literal(ctx)", "parser.number: num comes from local_symbol_literal")
    lsl = find_assign(tree, "local_symbol_literal")
    need(isinstance(lsl, ast.Call) and ast.unparse(lsl.func) == "Parser.regex" and len(lsl.args) == 1 and not lsl.keywords, "local_symbol_literal shape")
    lsl_rx = const_str(lsl.args[0], "local_symbol_literal regex")
    m = re.fullmatch(r"(\[[^\]]+\]|\\d)(\[[^\]]+\])\*", lsl_rx)
    need(m is not None, f"local_symbol_literal regex has an unknown shape: {lsl_rx!r}")
    lsl_class = sorted(set(matched_codepoints(m.group(1), FLAGS)) | set(matched_codepoints(m.group(2), FLAGS)))
    out += "(* parser.number: (prefix, code points of its digit class under re.I|re.ASCII, base) *)\n"
    out += "Definition radix_classes : list (string * list N * Z) :=\n  [ " + "\n  ; ".join(
        f"({coq_string(p)}, {nlist(cl)}, {b}%Z)" for p, cl, b in rows) + " ].\n"
    out += "(* every character local_symbol_literal can match; the bare-number branches int(num, 10) / int(num, 8) run under num.isdigit(),\n"
    out += "   the octal one after the branch for '8'/'9' has returned *)\n"
    out += f"Definition local_symbol_class : list N := {nlist(lsl_class)}.\n\n"

    esc = find_def(tree, "string_escape")
    ecalls = int_calls(esc)
    need(ecalls == [("int(num, 16)", ["not char == 'n'", "not char == 'r'", "not char == 't'", "not char in '\\\\\"\\'/'", "not char == '\\n'", "char == 'x'"])],
         "parser.string_escape: int() call or its guards changed: " + repr(ecalls))
    xs = [n for n in ast.walk(esc) if isinstance(n, ast.If) and ast.unparse(n.test) == "char == 'x'"]
    need(len(xs) == 1, "string_escape: x branch")
    xb = xs[0].body
    need(isinstance(xb[0], ast.Assign) and ast.unparse(xb[0].targets[0]) == "num", "string_escape: num")
    dump_eq(xb[0].value.func, "Parser.regex('[0-9a-f]{2}')", "string_escape: hex regex")
    dump_eq(xb[1], "if num is None:\n    return ''", "string_escape: None guard")
    dump_eq(xb[2], "return chr(int(num, 16))", "string_escape: return")
    hex_class = matched_codepoints("[0-9a-f]", FLAGS)
    out += "(* parser.string_escape: '\\x' is followed by exactly two characters of this class, or the escape is reported *)\n"
    out += f"Definition hex_escape_class : list N := {nlist(hex_class)}.\n\n"

    # ---- insns.py: dictionary lookups by pattern letter -----------------------------------------------------------
    tree, _ = parse("pdpy11/insns.py")

    def stub(name):
        c = find_class(tree, name)
        keys = []
        for n in ast.walk(c):
            if isinstance(n, ast.Subscript) and isinstance(n.value, ast.Dict):
                need(ast.unparse(n.slice) == "self.pattern_char", f"{name}: dictionary indexed by something else")
                ks = [const_str(k, "dict key") for k in n.value.keys]
                keys.append(ks)
        need(keys and all(k == keys[0] for k in keys), f"{name}: dictionary literals differ")
        init = find_def(c, "__init__")
        need(ast.unparse(init.args).startswith("self, pattern_char, bit_indexes"), f"{name}.__init__ signature")
        need(any(ast.unparse(s) == "self.pattern_char = pattern_char" for s in init.body), f"{name}: pattern_char not stored")
        stores = [n for n in ast.walk(tree) if isinstance(n, ast.Attribute) and n.attr == "pattern_char" and isinstance(n.ctx, ast.Store)]
        ctor = []
        for n in ast.walk(tree):
            if isinstance(n, ast.Call) and isinstance(n.func, ast.Name) and n.func.id == name:
                need(n.args, f"{name}(...) without arguments")
                ctor.append(const_str(n.args[0], f"{name} first argument"))
        need(ctor, f"{name} is never constructed")
        return keys[0], ctor, len(stores)

    rk, rc, nst1 = stub("RegisterOperandStub")
    ak, ac, nst2 = stub("FP11AccumulatorOperandStub")
    # pattern_char is only ever assigned in the __init__ methods (6 stub classes)
    need(nst1 == nst2, "internal")
    inits = [n for n in ast.walk(tree) if isinstance(n, ast.FunctionDef) and n.name == "__init__"]
    n_init_stores = sum(1 for f in inits for n in ast.walk(f) if isinstance(n, ast.Attribute) and n.attr == "pattern_char" and isinstance(n.ctx, ast.Store))
    need(n_init_stores == nst1, "insns.py: pattern_char is assigned outside __init__")
    subs = [n for n in ast.walk(tree) if isinstance(n, ast.ClassDef) and any(ast.unparse(b) in ("RegisterOperandStub", "FP11AccumulatorOperandStub") for b in n.bases)]
    need(not subs, "insns.py: a subclass of a register/accumulator stub appeared")
    out += "(* insns.py: keys of the {...}[self.pattern_char] dictionaries and the pattern letters the stubs are constructed with *)\n"
    out += f"Definition reg_stub_keys : list string := {slist(rk)}.\nDefinition reg_stub_chars : list string := {slist(rc)}.\n"
    out += f"Definition acc_stub_keys : list string := {slist(ak)}.\nDefinition acc_stub_chars : list string := {slist(ac)}.\n"
    return {"GenPartial.v": out}


gen_partial.outputs = ["GenPartial.v"]
GENERATORS = [gen_partial]
