"""Translator plug-in for C07 / C18 (DESIGN 2.2a rows GenReports.v and GenGState.v).

GenReports.v  <- pdpy11/reports.py, pdpy11/_cli.py
    WARNING_CLASSES; emit_report, handle_reports.__exit__ (decision part), FilterHandler.__call__
    translated from their if-trees into decision functions over enumerated priorities /
    exception classes; the -W loop of main_cli (checked shape -> fold); structural facts of
    main_cli: nothing is written before or inside the FIRST `with handle_reports` block (parse,
    compile, link); the make_* files are written INSIDE the second one (Compiler.emit_files, a failed
    write is reported and the loop goes on); the -o file and the listing after both, where a failed
    write exits 1 without a report; so do an unknown --charset / unreadable source before them.
GenGState.v   <- pdpy11/deferred.py, pdpy11/reports.py (+ a usage scan over pdpy11/*.py)
    TryCompute / Awaiting / handle_reports __enter__/__exit__ as sequences of primitive state
    effects in *source order* on {depth; awaiting; flags; handlers}.

Fail closed: every statement of the translated functions must be one of the recognised shapes.
"""
import ast
import glob
import os

from translate import (parse, need, find_assign, find_def, find_class, const_str, const_int, dump_eq,
                       coq_string, HEADER, TranslateAbort, REPO)

PRIORITIES = {"error": "PError", "critical": "PCritical", "warning": "PWarning"}
EXN = {"RecoverableError": "ERecoverable", "UnrecoverableError": "EUnrecoverable",
       "NotReadyError": "ENotReady", "DeferredCycle": "EDeferredCycle"}


def src(node):
    return ast.unparse(node)


def is_name(node, name):
    return isinstance(node, ast.Name) and node.id == name


def is_attr(node, base, attr):
    return isinstance(node, ast.Attribute) and node.attr == attr and is_name(node.value, base)


# --------------------------------------------------------------------------------------------
# tests over the enumerations
class Env:
    """How python sub-expressions of one function map to Coq terms."""

    def __init__(self, prio=None, exc=None, bools=None, dict_expr=None, key=None, classes=None):
        self.prio = prio or {}          # python source text -> coq variable of type priority
        self.exc = exc or {}            # python source text -> coq variable of type option exn
        self.bools = bools or {}        # python source text -> coq bool variable
        self.dict_expr = dict_expr      # python source text of the dict -> handled with dict_get / dict_mem
        self.key = key                  # python source text of the key variable -> coq string variable
        self.classes = classes or {}    # WARNING_CLASSES literal


def tr_test(node, env, guards):
    """Translate a python condition to a Coq bool term.  `guards` collects partial dictionary
    lookups [(var, key_term)] that must be matched (KeyError otherwise) before the term is used."""
    s = src(node)
    if s in env.bools:
        return env.bools[s]
    if isinstance(node, ast.UnaryOp) and isinstance(node.op, ast.Not):
        return f"negb ({tr_test(node.operand, env, guards)})"
    if isinstance(node, ast.BoolOp):
        op = " || " if isinstance(node.op, ast.Or) else " && "
        need(not guards or True, "")
        parts = []
        for v in node.values:
            g = []
            parts.append("(" + tr_test(v, env, g) + ")")
            need(not g, f"partial lookup inside a boolean operator is not supported: {s}")
        return "(" + op.join(parts) + ")"
    if isinstance(node, ast.Compare) and len(node.ops) == 1:
        left, op, right = node.left, node.ops[0], node.comparators[0]
        ls = src(left)
        if ls in env.prio:
            v = env.prio[ls]
            if isinstance(op, (ast.Is, ast.IsNot)):
                need(isinstance(right, ast.Name) and right.id in PRIORITIES, f"priority compared with something unknown: {s}")
                t = f"priority_eqb {v} {PRIORITIES[right.id]}"
                return t if isinstance(op, ast.Is) else f"negb ({t})"
            if isinstance(op, (ast.In, ast.NotIn)):
                need(isinstance(right, (ast.Tuple, ast.List)) and right.elts and all(isinstance(e, ast.Name) and e.id in PRIORITIES for e in right.elts),
                     f"priority membership in something unknown: {s}")
                t = "(" + " || ".join(f"priority_eqb {v} {PRIORITIES[e.id]}" for e in right.elts) + ")"
                return t if isinstance(op, ast.In) else f"negb {t}"
        if ls in env.exc:
            v = env.exc[ls]
            need(isinstance(op, (ast.Is, ast.IsNot)), f"exception type compared with an unknown operator: {s}")
            if isinstance(right, ast.Constant) and right.value is None:
                t = f"exc_is_none {v}"
            else:
                need(isinstance(right, ast.Name) and right.id in EXN, f"exception type compared with an unknown class: {s}")
                t = f"exc_is {v} {EXN[right.id]}"
            return t if isinstance(op, ast.Is) else f"negb ({t})"
        if env.key is not None and ls == env.key[0] and isinstance(op, (ast.In, ast.NotIn)):
            rs = src(right)
            if env.dict_expr is not None and rs == env.dict_expr[0]:
                t = f"dict_mem {env.key[1]} {env.dict_expr[1]}"
            else:
                need(isinstance(right, ast.Subscript) and is_name(right.value, "WARNING_CLASSES"), f"membership in something unknown: {s}")
                cls = const_str(right.slice, "WARNING_CLASSES[...] key")
                need(cls in env.classes, f"WARNING_CLASSES has no class {cls!r}")
                t = f"str_mem {env.key[1]} (warning_class {coq_string(cls)})"
            return t if isinstance(op, ast.In) else f"negb ({t})"
    if isinstance(node, ast.Subscript) and env.dict_expr is not None and src(node.value) == env.dict_expr[0] \
            and env.key is not None and src(node.slice) == env.key[0]:
        var = f"v{len(guards)}"
        guards.append((var, f"dict_get {env.key[1]} {env.dict_expr[1]}"))
        return var
    need(False, f"unrecognised condition: {s}")


def wrap_guards(guards, body, on_missing):
    for var, term in reversed(guards):
        body = f"(match {term} with None => {on_missing} | Some {var} => {body} end)"
    return body


def tr_block(stmts, env, leaf, fall, on_missing=None):
    """Translate a statement list that consists of if-trees and leaf statements.
    leaf(stmt) -> Coq term for a terminal statement (return / raise / the final call) or None;
    fall: Coq term when control falls off the end."""
    if not stmts:
        return fall
    st, rest = stmts[0], stmts[1:]
    if isinstance(st, ast.If):
        k = tr_block(rest, env, leaf, fall, on_missing)
        guards = []
        t = tr_test(st.test, env, guards)
        a = tr_block(st.body, env, leaf, k, on_missing)
        b = tr_block(st.orelse, env, leaf, k, on_missing)
        term = f"(if {t} then {a} else {b})"
        if guards:
            need(on_missing is not None, "partial lookup where no KeyError result exists")
            term = wrap_guards(guards, term, on_missing)
        return term
    r = leaf(st, rest)
    need(r is not None, f"unrecognised statement: {src(st)[:120]}")
    return r


# --------------------------------------------------------------------------------------------
PRELUDE_REPORTS = """
(* Enumerations, checked against reports.py: exactly the three Report objects error / critical /
   warning exist, class Report defines neither __eq__ nor __hash__ (so `in (..)` and `is` are
   identity tests); RecoverableError and UnrecoverableError are unrelated direct subclasses of
   Exception and nothing in the package subclasses them. *)
Inductive priority := PError | PCritical | PWarning.
Definition priority_eqb (a b : priority) : bool :=
  match a, b with
  | PError, PError | PCritical, PCritical | PWarning, PWarning => true
  | _, _ => false
  end.

(* exception classes: the two report exceptions, the two of deferred.py, what the asserts /
   list.pop / dict lookup of the translated code can raise, and "anything else" with a tag *)
Inductive exn := ERecoverable | EUnrecoverable | ENotReady | EDeferredCycle | EAssertion | EIndex | EKey | EOther (tag : N).
Definition exn_eqb (a b : exn) : bool :=
  match a, b with
  | ERecoverable, ERecoverable | EUnrecoverable, EUnrecoverable | ENotReady, ENotReady
  | EDeferredCycle, EDeferredCycle | EAssertion, EAssertion | EIndex, EIndex | EKey, EKey => true
  | EOther x, EOther y => N.eqb x y
  | _, _ => false
  end.
(* `exc_type is C` / `exc_type is None` *)
Definition exc_is (exc : option exn) (c : exn) : bool := match exc with Some e => exn_eqb e c | None => false end.
Definition exc_is_none (exc : option exn) : bool := match exc with None => true | Some _ => false end.

Definition str_mem (x : string) (l : list string) : bool := existsb (String.eqb x) l.

(* dict[str, bool] with Python semantics: d[k] = v replaces or appends, d[k] of an absent key is KeyError (None) *)
Definition dict := list (string * bool).
Fixpoint dict_get (k : string) (d : dict) : option bool :=
  match d with
  | [] => None
  | (k', v) :: r => if String.eqb k' k then Some v else dict_get k r
  end.
Definition dict_mem (k : string) (d : dict) : bool := match dict_get k d with Some _ => true | None => false end.
Fixpoint dict_set (k : string) (v : bool) (d : dict) : dict :=
  match d with
  | [] => [(k, v)]
  | (k', v') :: r => if String.eqb k' k then (k', v) :: r else (k', v') :: dict_set k v r
  end.
"""


def check_enumerations(tree):
    for name in PRIORITIES:
        v = find_assign(tree, name)
        need(isinstance(v, ast.Call) and is_name(v.func, "Report"), f"{name} is not a Report(...) object")
    others = [n.targets[0].id for n in tree.body if isinstance(n, ast.Assign) and len(n.targets) == 1 and isinstance(n.targets[0], ast.Name)
              and isinstance(n.value, ast.Call) and is_name(n.value.func, "Report") and n.targets[0].id not in PRIORITIES]
    need(not others, f"further Report objects exist: {others}")
    rep = find_class(tree, "Report")
    meths = [n.name for n in rep.body if isinstance(n, ast.FunctionDef)]
    need(sorted(meths) == ["__call__", "__init__"], f"class Report has unexpected methods {meths}")
    dump_eq(find_def(rep, "__call__"), "def __call__(self, *args, **kwargs):\n    emit_report(self, *args, **kwargs)", "Report.__call__")
    for cname in ("RecoverableError", "UnrecoverableError"):
        dump_eq(find_class(tree, cname), f"class {cname}(Exception):\n    pass", cname)
    # nothing in the package derives from the report exceptions or rebinds the three priorities
    for path in sorted(glob.glob(os.path.join(REPO, "pdpy11", "*.py"))):
        with open(path, encoding="utf-8") as f:
            t = ast.parse(f.read())
        for n in ast.walk(t):
            if isinstance(n, ast.ClassDef):
                for b in n.bases:
                    bn = b.attr if isinstance(b, ast.Attribute) else (b.id if isinstance(b, ast.Name) else "")
                    need(bn not in ("RecoverableError", "UnrecoverableError", "Report", "handle_reports", "FilterHandler"),
                         f"{os.path.basename(path)}: class {n.name} derives from {bn}")
            if isinstance(n, (ast.Assign, ast.AugAssign)):
                for tg in (n.targets if isinstance(n, ast.Assign) else [n.target]):
                    if isinstance(tg, ast.Attribute) and is_name(tg.value, "reports") and tg.attr in (*PRIORITIES, "emit_report", "handle_reports", "WARNING_CLASSES"):
                        need(False, f"{os.path.basename(path)}:{n.lineno}: reports.{tg.attr} is rebound")


def gen_reports():
    tree, _ = parse("pdpy11/reports.py")
    check_enumerations(tree)
    out = HEADER.format(src="pdpy11/reports.py, pdpy11/_cli.py") + PRELUDE_REPORTS

    # ---- WARNING_CLASSES
    wc = find_assign(tree, "WARNING_CLASSES")
    need(isinstance(wc, ast.Dict), "WARNING_CLASSES is not a dict literal")
    classes = {}
    for k, v in zip(wc.keys, wc.values):
        name = const_str(k, "WARNING_CLASSES key")
        need(name not in classes, f"duplicate class {name}")
        need(isinstance(v, ast.List), f"WARNING_CLASSES[{name}] is not a list literal")
        classes[name] = [const_str(e, f"WARNING_CLASSES[{name}] element") for e in v.elts]
    need("default" in classes and "all" in classes, "WARNING_CLASSES lacks 'all' or 'default'")
    rows = ["(%s, [%s])" % (coq_string(k), "; ".join(coq_string(x) for x in v)) for k, v in classes.items()]
    out += "\n(* WARNING_CLASSES in source order *)\nDefinition warning_classes : list (string * list string) :=\n  [ " + "\n  ; ".join(rows) + " ].\n"
    out += ("Fixpoint class_lookup_in (name : string) (cs : list (string * list string)) : option (list string) :=\n"
            "  match cs with [] => None | (k, v) :: r => if String.eqb k name then Some v else class_lookup_in name r end.\n"
            "Definition class_lookup (name : string) : option (list string) := class_lookup_in name warning_classes.\n"
            "Definition warning_class (name : string) : list string := match class_lookup name with Some l => l | None => [] end.\n")

    # ---- emit_report
    er = find_def(tree, "emit_report")
    need([a.arg for a in er.args.args] == ["priority", "identifier"] and er.args.vararg is not None and er.args.vararg.arg == "reports"
         and not er.args.kwonlyargs and er.args.kwarg is None, "emit_report signature changed")
    body = [s for s in er.body if not (isinstance(s, ast.Expr) and isinstance(s.value, ast.Constant))]
    need(len(body) == 5, f"emit_report has {len(body)} statements, expected 5")
    need(isinstance(body[0], ast.If) and src(body[0].test) == "not handle_reports.handlers_stack" and len(body[0].body) == 1
         and isinstance(body[0].body[0], ast.Raise) and not body[0].orelse, "emit_report: the empty-stack guard changed")
    dump_eq(body[1], "handler = handle_reports.handlers_stack[-1]", "emit_report: handler selection")
    dump_eq(body[2], "handler(priority, identifier, *reports)", "emit_report: handler call")
    env = Env(prio={"priority": "p"})
    need(isinstance(body[3], ast.If) and not body[3].orelse and len(body[3].body) == 1, "emit_report: latch statement changed")
    dump_eq(body[3].body[0], "handler.is_error_condition = True", "emit_report: latch assignment")
    latch_t = tr_test(body[3].test, env, [])
    need(isinstance(body[4], ast.If) and not body[4].orelse and len(body[4].body) == 1 and isinstance(body[4].body[0], ast.Raise),
         "emit_report: raise statement changed")
    raise_t = tr_test(body[4].test, env, [])
    rexc = body[4].body[0].exc
    need(isinstance(rexc, ast.Call) and isinstance(rexc.func, ast.Name) and rexc.func.id in EXN and not rexc.args, "emit_report raises something unknown")
    out += ("\n(* emit_report: in this order -- the top handler is called; then the latch of *that* handler is set\n"
            "   if [emit_sets_latch]; then [emit_raises] *)\n"
            f"Definition emit_sets_latch (p : priority) : bool := {latch_t}.\n"
            f"Definition emit_raises (p : priority) : option exn := if {raise_t} then Some {EXN[rexc.func.id]} else None.\n")

    # ---- handle_reports
    hr = find_class(tree, "handle_reports")
    dump_eq(find_def(hr, "__init__"), "def __init__(self, fn):\n    self.fn = fn\n    self.obj = None\n    self.is_error_condition = False", "handle_reports.__init__")
    dump_eq(find_def(hr, "__call__"), "def __call__(self, priority, identifier, *reports):\n    self.obj(priority, identifier, *reports)", "handle_reports.__call__")
    ex = find_def(hr, "__exit__")
    need([a.arg for a in ex.args.args] == ["self", "exc_type", "exc_value", "exc_tb"], "handle_reports.__exit__ signature changed")
    need(len(ex.body) == 4, f"handle_reports.__exit__ has {len(ex.body)} statements, expected 4")
    dump_eq(ex.body[0], "assert self.handlers_stack.pop() is self", "handle_reports.__exit__: pop")
    dump_eq(ex.body[1], "if hasattr(self.obj, '__exit__'):\n    swallow = self.obj.__exit__(exc_type, exc_value, exc_tb)\nelse:\n    swallow = False",
            "handle_reports.__exit__: nested __exit__")
    env = Env(exc={"exc_type": "exc"}, bools={"self.is_error_condition": "latch", "swallow": "swallow"})

    def leaf_exit(st, rest):
        if isinstance(st, ast.Raise):
            e = st.exc
            need(isinstance(e, ast.Call) and isinstance(e.func, ast.Name) and e.func.id in EXN and not e.args, f"raises something unknown: {src(st)}")
            return f"XRaise {EXN[e.func.id]}"
        if isinstance(st, ast.Return):
            need(is_name(st.value, "swallow"), f"returns something unknown: {src(st)}")
            return "XReturn swallow"
        return None
    need(isinstance(ex.body[3], ast.Return), "handle_reports.__exit__ does not end with a return")
    term = tr_block(ex.body[2:], env, leaf_exit, "XReturn false")
    out += ("\n(* handle_reports.__exit__ after the pop and after the nested handler's __exit__ gave [swallow]\n"
            "   (False when it has none): raise, or return a value (truthy = swallow the exception) *)\n"
            "Inductive exit_action := XRaise (e : exn) | XReturn (swallow : bool).\n"
            f"Definition hr_exit_decision (latch swallow : bool) (exc : option exn) : exit_action :=\n  {term}.\n")

    # ---- FilterHandler
    fh = find_class(tree, "FilterHandler")
    dump_eq(find_def(fh, "__init__"), "def __init__(self, nested_handler, warning_control):\n    self.nested_handler = nested_handler\n    self.warning_control = warning_control",
            "FilterHandler.__init__")
    dump_eq(find_def(fh, "__enter__"), "def __enter__(self):\n    if hasattr(self.nested_handler, '__enter__'):\n        self.nested_handler = self.nested_handler.__enter__()\n    return self",
            "FilterHandler.__enter__")
    dump_eq(find_def(fh, "__exit__"), "def __exit__(self, exc_type, exc_value, exc_tb):\n    if hasattr(self.nested_handler, '__exit__'):\n        return self.nested_handler.__exit__()\n    else:\n        return False",
            "FilterHandler.__exit__")
    call = find_def(fh, "__call__")
    need([a.arg for a in call.args.args] == ["self", "priority", "identifier"] and call.args.vararg is not None, "FilterHandler.__call__ signature changed")
    env = Env(prio={"priority": "p"}, dict_expr=("self.warning_control", "wc"), key=("identifier", "identifier"), classes=classes)

    def leaf_filter(st, rest):
        if isinstance(st, ast.Return) and st.value is None:
            return "FDrop"
        if isinstance(st, ast.Expr) and src(st.value) == "self.nested_handler(priority, identifier, *reports)":
            need(not rest, "statements follow the nested handler call")
            return "FDeliver"
        return None
    term = tr_block(call.body, env, leaf_filter, "FDrop", on_missing="FKeyError")
    out += ("\n(* FilterHandler.__call__: is the report passed to the nested handler? *)\n"
            "Inductive filter_action := FDeliver | FDrop | FKeyError.\n"
            f"Definition filter_decision (wc : dict) (p : priority) (identifier : string) : filter_action :=\n  {term}.\n")
    # the two concrete handlers have no __enter__/__exit__ (so swallow is False in main_cli) and never raise by themselves
    for hname in ("BareHandler", "GraphicalHandler"):
        h = find_class(tree, hname)
        meths = [n.name for n in h.body if isinstance(n, ast.FunctionDef)]
        need(meths == ["__call__"], f"{hname} has methods {meths}")

    # ---- main_cli
    out += gen_cli_part(classes)
    return {"GenReports.v": out}


def gen_cli_part(classes):
    tree, _ = parse("pdpy11/_cli.py")
    main = find_def(tree, "main_cli")
    # locate the -W loop: `warnings = args.warnings or []`, `warning_control = {}`, for ...
    idx = [i for i, s in enumerate(main.body) if isinstance(s, ast.Assign) and src(s) == "warning_control = {}"]
    need(len(idx) == 1, "main_cli: `warning_control = {}` not found exactly once")
    i = idx[0]
    dump_eq(main.body[i - 1], "warnings = args.warnings or []", "main_cli: warnings list")
    loop = main.body[i + 1]
    need(isinstance(loop, ast.For), "main_cli: no loop after warning_control = {}")
    # the prefix literal and the slice are parameters, everything else is a fixed shape
    try:
        pref = const_str(loop.body[0].test.args[0], "startswith literal")
        cut = const_int(loop.body[0].body[0].value.slice.lower, "slice start")
    except (AttributeError, IndexError):
        need(False, "main_cli: the -W loop changed shape")
    need(cut == len(pref) and pref, f"main_cli: prefix {pref!r} but slice [{cut}:]")
    expected = f"""
for warning_name in warnings:
    if warning_name.startswith({pref!r}):
        warning_name = warning_name[{cut}:]
        value = False
    else:
        value = True
    if warning_name in reports.WARNING_CLASSES:
        warning_names = reports.WARNING_CLASSES[warning_name]
    else:
        warning_names = [warning_name]
    for new_warning_name in warning_names:
        warning_control[new_warning_name] = value
"""
    dump_eq(loop, expected, "main_cli: the -W loop")
    for s in main.body[i + 2:]:
        for n in ast.walk(s):
            if isinstance(n, (ast.Assign, ast.AugAssign, ast.Delete)):
                tgs = n.targets if not isinstance(n, ast.AugAssign) else [n.target]
                for tg in tgs:
                    need("warning_control" not in src(tg), f"main_cli: warning_control is modified after the loop (line {n.lineno})")
    dump_eq(main.body[i + 2], "report_handler = reports.FilterHandler({'graphical': reports.GraphicalHandler, 'bare': reports.BareHandler}[args.report_format](), warning_control)",
            "main_cli: report handler construction")
    out = ("\n(* main_cli: the loop over the -W arguments (argparse gives `-Wfoo` as \"foo\") *)\n"
           f"Definition w_no_prefix : string := {coq_string(pref)}.\n"
           "Definition w_decode (arg : string) : string * bool :=\n"
           "  if String.prefix w_no_prefix arg\n"
           "  then (String.substring (String.length w_no_prefix) (String.length arg - String.length w_no_prefix) arg, false)\n"
           "  else (arg, true).\n"
           "Definition w_names (name : string) : list string := match class_lookup name with Some l => l | None => [name] end.\n"
           "Definition w_step (wc : dict) (arg : string) : dict :=\n"
           "  let (name, value) := w_decode arg in fold_left (fun d n => dict_set n value d) (w_names name) wc.\n"
           "Definition warning_control_of (args : list string) : dict := fold_left w_step args [].\n")

    # structure of the part that assembles and writes
    tries = [s for s in main.body if isinstance(s, ast.Try)]
    need(len(tries) >= 1, "main_cli: no try block")
    tr = tries[-1]
    need(main.body[-1] is tr, "main_cli: statements follow the final try block")
    need(len(tr.body) >= 2 and all(isinstance(s, ast.With) for s in tr.body[:2]), "main_cli: the try block does not start with two `with` blocks")
    for w in tr.body[:2]:
        need(len(w.items) == 1 and src(w.items[0].context_expr) == "reports.handle_reports(report_handler)" and w.items[0].optional_vars is None,
             "main_cli: a with item is not reports.handle_reports(report_handler)")
    block1 = """
with reports.handle_reports(report_handler):
    parsed_files = []
    for path, source in files_to_parse:
        parsed_files.append(parser.parse(path, source))

    comp = Compiler(output_charset=args.charset)
    base, code = comp.compile_and_link_files(parsed_files)
"""
    dump_eq(tr.body[0], block1, "main_cli: the first handle_reports block")
    dump_eq(tr.body[1], "with reports.handle_reports(report_handler):\n    was_emitted, emitted_file = comp.emit_files(base, code)",
            "main_cli: the second handle_reports block")

    def writes(node):
        hits = []
        for n in ast.walk(node):
            if isinstance(n, ast.Call):
                f = src(n.func)
                if f in ("open_device", "sys.stdout.buffer.write", "sys.stdout.write") or f.endswith(".emit_files") or f.endswith(".generate_listing"):
                    hits.append((n.lineno, f))
                if f == "open":
                    mode = [a for a in n.args[1:2]] + [k.value for k in n.keywords if k.arg == "mode"]
                    if mode:
                        hits.append((n.lineno, "open with a mode"))
        return hits
    before = [s for s in main.body if s is not tr]
    for s in before:
        need(not writes(s), f"main_cli: something is written before the assembly (line {s.lineno}): {writes(s)}")
    need(not writes(tr.body[0]), f"main_cli: something is written inside the first handle_reports block: {writes(tr.body[0])}")
    w1 = writes(tr.body[1])
    need([f for _, f in w1] == ["comp.emit_files"], f"main_cli: unexpected writes in the second block: {w1}")
    for h in tr.handlers:
        need(not writes(h), "main_cli: an exception handler writes files")
    need(len(tr.handlers) == 2 and src(tr.handlers[0].type) == "reports.UnrecoverableError" and src(tr.handlers[1].type) == "Exception",
         "main_cli: exception handlers changed")
    dump_eq(tr.handlers[0].body[0], "sys.exit(1)", "main_cli: exit status on UnrecoverableError")
    dump_eq(tr.handlers[1].body[-1], "sys.exit(1)", "main_cli: exit status on an internal error")
    need(not tr.orelse and not tr.finalbody, "main_cli: try has else/finally")
    # emit_files itself reports only through reports.error (so the second block's latch covers it)
    ctree, _ = parse("pdpy11/compiler.py")
    ef = find_def(find_class(ctree, "Compiler"), "emit_files")
    for n in ast.walk(ef):
        need(not isinstance(n, ast.Raise), "Compiler.emit_files raises directly")
    # the exits that do NOT go through a report: before the blocks (unknown charset, unreadable source) and after them
    # (IOError while writing the -o file / the listing); each must be `sys.exit(1)`
    pre_exits = [n for st in before for n in ast.walk(st) if isinstance(n, ast.Call) and src(n.func) == "sys.exit"]
    need(len(pre_exits) == 2 and all(src(n) == "sys.exit(1)" for n in pre_exits), f"main_cli: exits before the assembly changed: {[src(n) for n in pre_exits]}")
    post = tr.body[2:]
    io_handlers = [h for st in post for n in ast.walk(st) if isinstance(n, ast.Try) for h in n.handlers]
    need(sorted(src(h.type) for h in io_handlers) == ["IOError", "IOError", "struct.error"] and all(src(h.body[-1]) == "sys.exit(1)" for h in io_handlers),
         "main_cli: the handlers of the -o / listing writes (struct.error, IOError, IOError -> exit 1) changed")
    post_exits = [n for st in post for n in ast.walk(st) if isinstance(n, ast.Call) and src(n.func) == "sys.exit"]
    need(len(post_exits) == 3, "main_cli: further exits after the two blocks")
    # emit_files: one write per make_* file inside the second block, IOError -> reports.error('io-error'), loop continues
    loop = [x for x in ef.body if isinstance(x, ast.For)]
    need(len(loop) == 1, "Compiler.emit_files: loop shape changed")
    need(src(loop[0].iter) == "self.emitted_files", "Compiler.emit_files no longer walks the list self.emitted_files in source order: " + src(loop[0].iter))
    ef_ids = []
    for n in ast.walk(loop[0]):
        if isinstance(n, ast.ExceptHandler):
            need(isinstance(n.body[0], ast.Expr) and isinstance(n.body[0].value, ast.Call) and src(n.body[0].value.func) == "reports.error"
                 and all(isinstance(x, ast.Continue) for x in n.body[1:]),
                 "Compiler.emit_files: an exception handler does something else than reports.error(...) [; continue]")
            ef_ids.append(const_str(n.body[0].value.args[0], "emit_files report identifier"))
    need("io-error" in ef_ids, "Compiler.emit_files no longer reports io-error for a failed write")
    out += ("\n(* main_cli, checked structure: [unknown charset -> exit 1] [unreadable source -> exit 1]\n"
            "   try: with handle_reports(h): parse+compile;\n"
            "        with handle_reports(h): emit_files  -- writes every make_* file HERE, a failed write -> reports.error and goes on to the next file;\n"
            "        then the -o / --implicit-bin file and the listing are written, struct.error / IOError -> exit 1 without a report;\n"
            "   except UnrecoverableError: exit 1; except Exception: exit 1 *)\n"
            "Definition cli_blocks_before_output : nat := 2.\n"
            "Definition cli_exit_on_unrecoverable : Z := 1%Z.\nDefinition cli_exit_on_internal_error : Z := 1%Z.\n"
            "Definition cli_exit_on_write_error : Z := 1%Z.\nDefinition cli_exit_before_assembly : Z := 1%Z.\n"
            "Definition emit_files_error_ids : list string := [" + "; ".join(coq_string(x) for x in ef_ids) + "].\n")
    return out


# --------------------------------------------------------------------------------------------
# GenGState.v
PRELUDE_GSTATE = """From Verif Require Import Gen.GenReports.
Open Scope Z_scope.

(* The module-level state of the package that survives between assemblies:
   try_compute.depth, try_compute.not_ready_yet (the identities it holds: [nry]),
   Awaiting.awaiting_stack, handle_reports.handlers_stack (top of stack = head)
   Awaiting.known_cycles / Awaiting.found_cycles_stack (a memo of values found to run into what is being computed),
   and the is_awaiting flag of every deferred object (identified by a number).
   not_ready_yet maps id(obj) to obj itself: the entry keeps the object alive, so an id cannot be
   reused by another object while it is in the dict (checked shape: `[id(self)] = self`). *)
Record gstate := mk_gstate { depth : Z; awaiting : list N; flags : N -> bool; handlers : list N; nry : list N;
                             kc : list N;            (* Awaiting.known_cycles: the identities it holds *)
                             fcs : list (list N) }.  (* Awaiting.found_cycles_stack, top = head; each list in append order *)

Inductive step_result := SOk (s : gstate) | SRaise (e : exn) (s : gstate).
Definition sbind (r : step_result) (f : gstate -> step_result) : step_result :=
  match r with SOk s => f s | SRaise e s => SRaise e s end.

(* primitive effects, one per recognised python statement *)
Definition add_depth (k : Z) (s : gstate) : step_result :=
  SOk (mk_gstate (depth s + k) (awaiting s) (flags s) (handlers s) (nry s) (kc s) (fcs s)).
(* if self.depth == 0: self.not_ready_yet = {} *)
Definition reset_nry_at_depth0 (s : gstate) : step_result :=
  SOk (mk_gstate (depth s) (awaiting s) (flags s) (handlers s) (if depth s =? 0 then [] else nry s) (kc s) (fcs s)).
Definition set_flag (d : N) (b : bool) (s : gstate) : step_result :=
  SOk (mk_gstate (depth s) (awaiting s) (fun x => if N.eqb x d then b else flags s x) (handlers s) (nry s) (kc s) (fcs s)).
(* if self.deferred.is_awaiting or id(self.deferred) in Awaiting.known_cycles: raise DeferredCycle() *)
Definition kc_mem (d : N) (s : gstate) : bool := existsb (N.eqb d) (kc s).
Definition guard_not_awaiting (d : N) (s : gstate) : step_result :=
  if flags s d || kc_mem d s then SRaise EDeferredCycle s else SOk s.
(* Awaiting.found_cycles_stack.append([]) *)
Definition push_cycles_frame (s : gstate) : step_result :=
  SOk (mk_gstate (depth s) (awaiting s) (flags s) (handlers s) (nry s) (kc s) ([] :: fcs s)).
(* found = Awaiting.found_cycles_stack.pop()
   if exc_type is DeferredCycle and Awaiting.found_cycles_stack: Awaiting.found_cycles_stack[-1].extend(found)
   else: for key in found: Awaiting.known_cycles.pop(key, None) *)
Definition pop_cycles_frame (exc : option exn) (s : gstate) : step_result :=
  match fcs s with
  | [] => SRaise EIndex s
  | l :: r =>
      match (if exc_is exc EDeferredCycle then r else []) with
      | parent :: r' => SOk (mk_gstate (depth s) (awaiting s) (flags s) (handlers s) (nry s) (kc s) ((parent ++ l)%list :: r'))
      | [] => SOk (mk_gstate (depth s) (awaiting s) (flags s) (handlers s) (nry s)
                             (filter (fun k => negb (existsb (N.eqb k) l)) (kc s)) r)
      end
  end.
(* remember_cycle(d): if found_cycles_stack and id(d) not in known_cycles: known_cycles[id(d)] = d; found_cycles_stack[-1].append(id(d)) *)
Definition remember_cycle (d : N) (s : gstate) : gstate :=
  match fcs s with
  | [] => s
  | l :: r => if kc_mem d s then s
              else mk_gstate (depth s) (awaiting s) (flags s) (handlers s) (nry s) (d :: kc s) ((l ++ [d])%list :: r)
  end.
Definition push_awaiting (d : N) (s : gstate) : step_result :=
  SOk (mk_gstate (depth s) (d :: awaiting s) (flags s) (handlers s) (nry s) (kc s) (fcs s)).
(* assert Awaiting.awaiting_stack.pop() is self.deferred : the pop happens, then the comparison *)
Definition pop_assert_awaiting (d : N) (s : gstate) : step_result :=
  match awaiting s with
  | [] => SRaise EIndex s
  | top :: rest => let s' := mk_gstate (depth s) rest (flags s) (handlers s) (nry s) (kc s) (fcs s) in
                   if N.eqb top d then SOk s' else SRaise EAssertion s'
  end.
Definition push_handler (h : N) (s : gstate) : step_result :=
  SOk (mk_gstate (depth s) (awaiting s) (flags s) (h :: handlers s) (nry s) (kc s) (fcs s)).
Definition pop_assert_handler (h : N) (s : gstate) : step_result :=
  match handlers s with
  | [] => SRaise EIndex s
  | top :: rest => let s' := mk_gstate (depth s) (awaiting s) (flags s) rest (nry s) (kc s) (fcs s) in
                   if N.eqb top h then SOk s' else SRaise EAssertion s'
  end.
(* reads *)
Definition not_ready_raises (s : gstate) : bool := depth s >? 0.          (* deferred.not_ready *)
Definition top_handler (s : gstate) : option N := hd_error (handlers s).  (* emit_report: handlers_stack[-1] *)
Definition nry_mem (d : N) (s : gstate) : bool := existsb (N.eqb d) (nry s).
(* BaseDeferred.wait, before entering Awaiting:  if try_compute.depth > 0 and id(self) in try_compute.not_ready_yet: raise NotReadyError() *)
Definition wait_blocked (d : N) (s : gstate) : bool := (depth s >? 0) && nry_mem d s.
(* BaseDeferred.wait, `except NotReadyError:` inside the with:  if try_compute.depth > 0: try_compute.not_ready_yet[id(self)] = self *)
Definition wait_record (d : N) (s : gstate) : gstate :=
  if depth s >? 0 then mk_gstate (depth s) (awaiting s) (flags s) (handlers s) (if nry_mem d s then nry s else d :: nry s) (kc s) (fcs s) else s.
"""


def effects_of(stmts, table, what):
    """Each statement must be one of the recognised effects; returns their Coq terms in source order."""
    out = []
    for st in stmts:
        s = src(st)
        hit = None
        for pat, term in table:
            if callable(pat):
                hit = pat(st)
            elif s == pat:
                hit = term
            if hit is not None:
                break
        need(hit is not None, f"{what}: unrecognised statement: {s[:120]}")
        if hit != "":
            out.append(hit)
    return out


def compose(effs):
    term = "SOk s"
    for e in reversed(effs):
        term = f"sbind ({e} s) (fun s => {term})"
    return term


def gen_gstate():
    dtree, _ = parse("pdpy11/deferred.py")
    rtree, _ = parse("pdpy11/reports.py")
    out = HEADER.format(src="pdpy11/deferred.py, pdpy11/reports.py (+ usage scan over pdpy11/*.py)") + PRELUDE_GSTATE

    # ---- TryCompute
    tc = find_class(dtree, "TryCompute")
    need([src(s) for s in tc.body if not isinstance(s, ast.FunctionDef)] == ["depth = 0", "not_ready_yet = {}"], "TryCompute: class-level attributes changed")
    need(sorted(n.name for n in tc.body if isinstance(n, ast.FunctionDef)) == ["__enter__", "__exit__"], "TryCompute: methods changed")

    def depth_eff(st):
        if isinstance(st, ast.AugAssign) and src(st.target) == "self.depth" and isinstance(st.op, (ast.Add, ast.Sub)):
            k = const_int(st.value, "depth increment")
            return f"add_depth ({k if isinstance(st.op, ast.Add) else -k})"
        return None
    en = find_def(tc, "__enter__")
    need([a.arg for a in en.args.args] == ["self"], "TryCompute.__enter__ signature")
    effs = effects_of(en.body, [(depth_eff, None), ("if self.depth == 0:\n    self.not_ready_yet = {}", "reset_nry_at_depth0"), ("return self", "")],
                      "TryCompute.__enter__")
    out += f"\n(* TryCompute.__enter__ *)\nDefinition try_enter (s : gstate) : step_result :=\n  {compose(effs)}.\n"
    ex = find_def(tc, "__exit__")
    need([a.arg for a in ex.args.args] == ["self", "exc_type", "exc_value", "exc_tb"], "TryCompute.__exit__ signature")
    need(ex.body and isinstance(ex.body[-1], ast.Return) and ex.body[-1].value is not None, "TryCompute.__exit__ does not end with `return <test>`")
    effs = effects_of(ex.body[:-1], [(depth_eff, None)], "TryCompute.__exit__")
    sw = tr_test(ex.body[-1].value, Env(exc={"exc_type": "exc"}), [])
    out += f"\n(* TryCompute.__exit__: state effect, and the returned value (truthy = swallow) *)\nDefinition try_exit (s : gstate) : step_result :=\n  {compose(effs)}.\n"
    out += f"Definition try_exit_swallows (exc : option exn) : bool := {sw}.\n"
    dump_eq(find_assign(dtree, "try_compute"), "TryCompute()", "try_compute")
    dump_eq(find_def(dtree, "not_ready"), "def not_ready():\n    if try_compute.depth > 0:\n        raise NotReadyError()", "not_ready")
    for cname in ("NotReadyError", "DeferredCycle"):
        dump_eq(find_class(dtree, cname), f"class {cname}(Exception):\n    pass", cname)

    # ---- Awaiting
    aw = find_class(dtree, "Awaiting")
    need([src(s) for s in aw.body if not isinstance(s, ast.FunctionDef)] == ["awaiting_stack = []", "known_cycles = {}", "found_cycles_stack = []"],
         "Awaiting: class-level attributes changed")
    need(sorted(n.name for n in aw.body if isinstance(n, ast.FunctionDef)) == ["__enter__", "__exit__", "__init__"], "Awaiting: methods changed")
    dump_eq(find_def(aw, "__init__"), "def __init__(self, deferred):\n    self.deferred = deferred", "Awaiting.__init__")
    table = [("if self.deferred.is_awaiting or id(self.deferred) in Awaiting.known_cycles:\n    raise DeferredCycle()", "guard_not_awaiting d"),
             ("Awaiting.found_cycles_stack.append([])", "push_cycles_frame"),
             ("found = Awaiting.found_cycles_stack.pop()", ""),
             ("if exc_type is DeferredCycle and Awaiting.found_cycles_stack:\n    Awaiting.found_cycles_stack[-1].extend(found)\nelse:\n    for key in found:\n        Awaiting.known_cycles.pop(key, None)",
              "pop_cycles_frame exc"),
             ("self.deferred.is_awaiting = True", "set_flag d true"),
             ("self.deferred.is_awaiting = False", "set_flag d false"),
             ("Awaiting.awaiting_stack.append(self.deferred)", "push_awaiting d"),
             ("assert Awaiting.awaiting_stack.pop() is self.deferred", "pop_assert_awaiting d"),
             ("return self", "")]
    en = find_def(aw, "__enter__")
    need(src(en.body[-1]) == "return self", "Awaiting.__enter__ does not end with return self")
    effs = effects_of(en.body, table, "Awaiting.__enter__")
    out += f"\n(* Awaiting.__enter__ ([d] identifies self.deferred) *)\nDefinition await_enter (d : N) (s : gstate) : step_result :=\n  {compose(effs)}.\n"
    ex = find_def(aw, "__exit__")
    need(not any(isinstance(n, ast.Return) for n in ast.walk(ex)), "Awaiting.__exit__ returns a value (it must return None = never swallow)")
    effs = effects_of(ex.body, table[:8], "Awaiting.__exit__")
    xs = [src(x) for x in ex.body]
    need("found = Awaiting.found_cycles_stack.pop()" in xs and xs.index("found = Awaiting.found_cycles_stack.pop()") == len(xs) - 2,
         "Awaiting.__exit__: the frame pop is not immediately followed by the transfer/forget statement at the end")
    need([a.arg for a in ex.args.args] == ["self", "exc_type", "exc_value", "exc_tb"], "Awaiting.__exit__ signature")
    out += f"\n(* Awaiting.__exit__: returns None, i.e. never swallows *)\nDefinition await_exit (d : N) (exc : option exn) (s : gstate) : step_result :=\n  {compose(effs)}.\n"
    dump_eq(find_def(dtree, "remember_cycle"), """
def remember_cycle(deferred):
    if Awaiting.found_cycles_stack and isinstance(deferred, BaseDeferred) and id(deferred) not in Awaiting.known_cycles:
        Awaiting.known_cycles[id(deferred)] = deferred
        Awaiting.found_cycles_stack[-1].append(id(deferred))
""", "remember_cycle (prelude: remember_cycle)")
    # the flag starts False on every deferred object, BaseDeferred.wait is the only user
    bd = find_class(dtree, "BaseDeferred")
    init = find_def(bd, "__init__")
    need("self.is_awaiting = False" in [src(s) for s in init.body], "BaseDeferred.__init__ does not clear is_awaiting")
    dump_eq(find_def(bd, "wait"), """
def wait(self):
    if try_compute.depth > 0 and id(self) in try_compute.not_ready_yet:
        raise NotReadyError()
    try:
        with Awaiting(self):
            try:
                return self._wait()
            except NotReadyError:
                if try_compute.depth > 0:
                    try_compute.not_ready_yet[id(self)] = self
                raise
    except DeferredCycle:
        remember_cycle(self)
        raise
""", "BaseDeferred.wait (prelude: wait_blocked / wait_record)")

    # ---- handle_reports (stack part)
    hr = find_class(rtree, "handle_reports")
    need([src(s) for s in hr.body if not isinstance(s, ast.FunctionDef)] == ["handlers_stack = []"], "handle_reports: class-level attributes changed")
    need(sorted(n.name for n in hr.body if isinstance(n, ast.FunctionDef)) == ["__call__", "__enter__", "__exit__", "__init__"], "handle_reports: methods changed")
    obj_enter = "if hasattr(self.fn, '__enter__'):\n    self.obj = self.fn.__enter__()\nelse:\n    self.obj = self.fn"
    table = [(obj_enter, ""), ("self.handlers_stack.append(self)", "push_handler h"),
             ("assert self.handlers_stack.pop() is self", "pop_assert_handler h"), ("return self", "")]
    en = find_def(hr, "__enter__")
    need(src(en.body[-1]) == "return self", "handle_reports.__enter__ does not end with return self")
    # the nested handler's own __enter__ (if any) runs before the push; if it raises nothing was pushed
    need(src(en.body[0]) == obj_enter, "handle_reports.__enter__: nested __enter__ is not the first statement")
    effs = effects_of(en.body, table, "handle_reports.__enter__")
    out += f"\n(* handle_reports.__enter__ ([h] identifies the instance) *)\nDefinition hr_enter (h : N) (s : gstate) : step_result :=\n  {compose(effs)}.\n"
    ex = find_def(hr, "__exit__")
    # state effects = the statements before the nested handler's __exit__ is consulted
    k = [i for i, s in enumerate(ex.body) if "swallow" in src(s)]
    need(k, "handle_reports.__exit__: no swallow computation")
    effs = effects_of(ex.body[:k[0]], table[1:3], "handle_reports.__exit__ (before the nested __exit__)")
    for s in ex.body[k[0]:]:
        need("handlers_stack" not in src(s), "handle_reports.__exit__ touches handlers_stack after the nested __exit__ was called")
    out += ("\n(* handle_reports.__exit__, part before the nested handler's __exit__ is called; what follows is\n"
            "   GenReports.hr_exit_decision and touches no module-level state *)\n"
            f"Definition hr_exit_pop (h : N) (s : gstate) : step_result :=\n  {compose(effs)}.\n")

    scan = usage_scan()
    out += "\n(* usage scan over pdpy11/*.py (aborts the translation when a rule is broken):\n"
    for line in scan:
        out += "   " + line + "\n"
    out += "*)\nDefinition usage_scan_passed : bool := true.\n"
    return {"GenGState.v": out}


# --------------------------------------------------------------------------------------------
# usage scan
MUTATORS = {"append", "extend", "insert", "pop", "remove", "clear", "update", "setdefault", "add", "discard", "sort", "reverse",
            "popitem", "__setitem__", "__delitem__", "appendleft", "popleft"}
STATE_ATTRS = {"depth", "not_ready_yet", "known_cycles", "found_cycles_stack", "awaiting_stack", "handlers_stack", "is_awaiting", "is_error_condition"}
CM_CLASSES = {"TryCompute": "deferred", "Awaiting": "deferred", "handle_reports": "reports"}

# writers of module-level objects that run at import time only (checked: every reference to them is at module level)
IMPORT_TIME_WRITERS = {
    ("devices", "register_device.decorator", "DEVICES[name[1:]][mode] = (input_formats, fn)"),
    ("formats", "file_format", "file_formats[name] = fn"),
    ("insns", "init", "instructions[insn_name] = Instruction(insn_name, opcode_pattern, operands)"),
    ("metacommand_impl", "_metacommand_impl", "metacommands[command_name] = cmd"),
    ("operators", "operator", "operators[kind][char] = Class"),
}
IMPORT_TIME_FUNCS = {("devices", "register_device"), ("formats", "file_format"), ("insns", "init"),
                     ("metacommand_impl", "_metacommand_impl"), ("metacommand_impl", "metacommand"), ("operators", "operator")}
# the state this property is about, and its only writers
STATE_WRITERS = {
    ("deferred", "TryCompute.__enter__", "self.depth += 1"),
    ("deferred", "TryCompute.__exit__", "self.depth -= 1"),
    ("deferred", "TryCompute.__enter__", "self.not_ready_yet = {}"),
    ("deferred", "BaseDeferred.wait", "try_compute.not_ready_yet[id(self)] = self"),
    ("deferred", "Awaiting.__enter__", "Awaiting.awaiting_stack.append(self.deferred)"),
    ("deferred", "Awaiting.__exit__", "Awaiting.awaiting_stack.pop()"),
    ("deferred", "Awaiting.__enter__", "Awaiting.found_cycles_stack.append([])"),
    ("deferred", "Awaiting.__exit__", "Awaiting.found_cycles_stack.pop()"),
    ("deferred", "Awaiting.__exit__", "Awaiting.known_cycles.pop(key, None)"),
    ("deferred", "Awaiting.__exit__", "Awaiting.found_cycles_stack[-1].extend(found)"),
    ("deferred", "remember_cycle", "Awaiting.known_cycles[id(deferred)] = deferred"),
    ("deferred", "remember_cycle", "Awaiting.found_cycles_stack[-1].append(id(deferred))"),
    ("reports", "handle_reports.__enter__", "self.handlers_stack.append(self)"),
    ("reports", "handle_reports.__exit__", "self.handlers_stack.pop()"),
    ("deferred", "Deferred.__init__", "Deferred.next_instance_id += 1"),
}


class Scope(ast.NodeVisitor):
    """Walk a module keeping the qualified name of the enclosing function and its local names."""

    def __init__(self, modname, tree, visit_fn):
        self.modname, self.visit_fn = modname, visit_fn
        self.stack = []       # [(kind, name, locals)]
        self.parents = {}
        for p in ast.walk(tree):
            for c in ast.iter_child_nodes(p):
                self.parents[c] = p
        self.visit(tree)

    def qual(self):
        return ".".join(n for _, n, _ in self.stack)

    def in_function(self):
        return any(k == "f" for k, _, _ in self.stack)

    def local_names(self):
        names = set()
        for k, _, loc in self.stack:
            if k == "f":
                names |= loc
        return names

    @staticmethod
    def _locals(fn):
        loc = set()
        a = fn.args
        for x in a.posonlyargs + a.args + a.kwonlyargs + ([a.vararg] if a.vararg else []) + ([a.kwarg] if a.kwarg else []):
            loc.add(x.arg)
        body = fn.body if isinstance(fn.body, list) else [fn.body]
        for st in body:
            for n in ast.walk(st):
                if isinstance(n, ast.Name) and isinstance(n.ctx, (ast.Store, ast.Del)):
                    loc.add(n.id)
                if isinstance(n, (ast.FunctionDef, ast.ClassDef)):
                    loc.add(n.name)
                if isinstance(n, (ast.Import, ast.ImportFrom)):
                    for al in n.names:
                        loc.add((al.asname or al.name).split(".")[0])
        for st in body:
            for n in ast.walk(st):
                if isinstance(n, (ast.Global, ast.Nonlocal)):
                    loc -= set(n.names)
        return loc

    def generic_visit(self, node):
        if isinstance(node, (ast.FunctionDef, ast.AsyncFunctionDef, ast.Lambda)):
            for d in getattr(node, "decorator_list", []):
                self.visit(d)
            # default values are evaluated in the enclosing scope
            for d in node.args.defaults + [x for x in node.args.kw_defaults if x is not None]:
                self.visit(d)
            self.stack.append(("f", getattr(node, "name", "<lambda>"), self._locals(node)))
            for st in (node.body if isinstance(node.body, list) else [node.body]):
                self.visit(st)
            self.stack.pop()
            return
        if isinstance(node, ast.ClassDef):
            for d in node.decorator_list + node.bases:
                self.visit(d)
            self.stack.append(("c", node.name, set()))
            for st in node.body:
                self.visit(st)
            self.stack.pop()
            return
        self.visit_fn(self, node)
        super().generic_visit(node)


def root_of(e):
    path = []
    while isinstance(e, (ast.Attribute, ast.Subscript)):
        path.append(e.attr if isinstance(e, ast.Attribute) else "[]")
        e = e.value
    return (e.id if isinstance(e, ast.Name) else None), path[::-1]


def usage_scan():
    mods = {}
    for path in sorted(glob.glob(os.path.join(REPO, "pdpy11", "*.py"))):
        with open(path, encoding="utf-8") as f:
            mods[os.path.basename(path)[:-3]] = ast.parse(f.read())
    # module-level objects per module: assigned names, classes, functions, imported names / module aliases
    top = {}
    imported_from = {}     # (module, local name) -> (source module, original name)
    class_attrs = {}       # attribute name -> [(module, class)]
    for m, t in mods.items():
        names = set()
        for n in t.body:
            for x in ast.walk(n) if isinstance(n, (ast.If, ast.Try, ast.For, ast.With)) else [n]:
                if isinstance(x, ast.Assign):
                    for tg in x.targets:
                        for y in ast.walk(tg):
                            if isinstance(y, ast.Name):
                                names.add(y.id)
                elif isinstance(x, (ast.AnnAssign, ast.AugAssign)) and isinstance(x.target, ast.Name):
                    names.add(x.target.id)
                elif isinstance(x, (ast.FunctionDef, ast.ClassDef)):
                    names.add(x.name)
                elif isinstance(x, ast.Import):
                    for al in x.names:
                        names.add((al.asname or al.name).split(".")[0])
                elif isinstance(x, ast.ImportFrom):
                    for al in x.names:
                        names.add(al.asname or al.name)
                        src_mod = (x.module or al.name) if x.level else None
                        if x.level:
                            imported_from[(m, al.asname or al.name)] = ((x.module or al.name), al.name if x.module else None)
            if isinstance(n, ast.ClassDef):
                for c in n.body:
                    if isinstance(c, ast.Assign):
                        for tg in c.targets:
                            if isinstance(tg, ast.Name):
                                class_attrs.setdefault(tg.id, []).append((m, n.name))
        top[m] = names
    findings = {"writes": [], "state": [], "cm": []}

    def visit(sc, node):
        m = sc.modname
        infn = sc.in_function()
        loc = sc.local_names() if infn else set()

        def is_module_root(r):
            return r is not None and r not in loc and r in top[m]

        # ---- writes to module-level objects from code that runs after import
        if infn:
            targets = []
            if isinstance(node, ast.Assign):
                targets = node.targets
            elif isinstance(node, (ast.AugAssign, ast.AnnAssign)):
                targets = [node.target]
            elif isinstance(node, ast.Delete):
                targets = node.targets
            elif isinstance(node, (ast.For, ast.comprehension)):
                targets = [node.target]
            elif isinstance(node, ast.Global):
                findings["writes"].append((m, sc.qual(), f"global {', '.join(node.names)}", node.lineno))
            elif isinstance(node, ast.Call):
                f = node.func
                if isinstance(f, ast.Attribute) and f.attr in MUTATORS:
                    r, pa = root_of(f.value)
                    if is_module_root(r) or (r == "self" and pa and pa[0] in class_attrs and len(pa) == 1):
                        findings["writes"].append((m, sc.qual(), src(node), node.lineno))
                if isinstance(f, ast.Name) and f.id in ("setattr", "delattr", "globals", "vars", "exec", "eval") and f.id not in loc:
                    findings["writes"].append((m, sc.qual(), src(node)[:80], node.lineno))
            flat = []
            for tg in targets:
                flat += [y for y in ast.walk(tg) if isinstance(y, (ast.Attribute, ast.Subscript)) and isinstance(y.ctx, (ast.Store, ast.Del))] \
                    if isinstance(tg, (ast.Tuple, ast.List, ast.Starred)) else [tg]
            for tg in flat:
                if isinstance(tg, (ast.Attribute, ast.Subscript)):
                    r, pa = root_of(tg)
                    if is_module_root(r):
                        findings["writes"].append((m, sc.qual(), src(node) if not isinstance(node, (ast.For, ast.comprehension)) else src(tg), node.lineno))
                    elif r == "self" and len(pa) == 1 and pa[0] in class_attrs and (isinstance(node, ast.AugAssign) or sc.stack[0][1] in {c for _, c in class_attrs[pa[0]]}):
                        # `self.x += k` / `self.x = v` on a class-level attribute: the value lives on (and persists with) a shared instance
                        findings["writes"].append((m, sc.qual(), src(node), node.lineno))
        # ---- accesses to the state attributes
        if isinstance(node, ast.Attribute) and node.attr in STATE_ATTRS:
            findings["state"].append((m, sc.qual(), src(node), type(node.ctx).__name__, node.lineno, sc.parents.get(node)))
        # ---- uses of the three context-manager classes and of the instance try_compute
        if isinstance(node, (ast.Name, ast.Attribute)):
            nm = node.id if isinstance(node, ast.Name) else node.attr
            if nm in CM_CLASSES or nm == "try_compute":
                if isinstance(node, ast.Name) and nm in loc:
                    return
                findings["cm"].append((m, sc.qual(), nm, node, sc.parents.get(node), sc.parents))

    for m, t in mods.items():
        Scope(m, t, visit)

    # 1. writes
    allowed = STATE_WRITERS | IMPORT_TIME_WRITERS
    for (m, q, text, line) in findings["writes"]:
        need((m, q, text) in allowed, f"usage scan: {m}.py:{line}: module-level state is written at run time in {q}: {text}")
    seen = {(m, q, t) for m, q, t, _ in findings["writes"]}
    for a in STATE_WRITERS:
        need(a in seen, f"usage scan: expected writer {a} not found")
    # import-time-only functions: every reference is a module-level decorator / call, or inside another such function
    it_names = {}
    for (m, f) in IMPORT_TIME_FUNCS:
        it_names.setdefault(f, set()).add(m)
    refs_ok = []

    def visit_refs(sc, node):
        nm = None
        if isinstance(node, ast.Name) and isinstance(node.ctx, ast.Load):
            nm = node.id
            if sc.in_function() and nm in sc.local_names():
                return
            owner = sc.modname if nm in top[sc.modname] and (sc.modname, nm) not in imported_from else imported_from.get((sc.modname, nm), (None, None))[0]
        elif isinstance(node, ast.Attribute) and isinstance(node.value, ast.Name):
            nm = node.attr
            base = node.value.id
            owner = imported_from.get((sc.modname, base), (base if base in mods else None, None))[0] if base in top[sc.modname] else None
        if nm in it_names and owner in it_names[nm]:
            if sc.in_function():
                outer = sc.stack[0][1]
                need((sc.modname, outer) in IMPORT_TIME_FUNCS,
                     f"usage scan: {sc.modname}.py:{node.lineno}: import-time registrar {nm} is referenced from run-time code ({sc.qual()})")
            refs_ok.append((sc.modname, nm))
    for m, t in mods.items():
        Scope(m, t, visit_refs)
    # 2. state attribute accesses
    allowed_state = {
        ("deferred", "TryCompute.__enter__", "self.depth"), ("deferred", "TryCompute.__exit__", "self.depth"),
        ("deferred", "not_ready", "try_compute.depth"),
        ("deferred", "TryCompute.__enter__", "self.not_ready_yet"),
        ("deferred", "BaseDeferred.wait", "try_compute.depth"), ("deferred", "BaseDeferred.wait", "try_compute.not_ready_yet"),
        ("deferred", "Awaiting.__enter__", "Awaiting.awaiting_stack"), ("deferred", "Awaiting.__exit__", "Awaiting.awaiting_stack"),
        ("deferred", "Awaiting.__enter__", "Awaiting.known_cycles"), ("deferred", "Awaiting.__exit__", "Awaiting.known_cycles"),
        ("deferred", "Awaiting.__enter__", "Awaiting.found_cycles_stack"), ("deferred", "Awaiting.__exit__", "Awaiting.found_cycles_stack"),
        ("deferred", "remember_cycle", "Awaiting.known_cycles"), ("deferred", "remember_cycle", "Awaiting.found_cycles_stack"),
        ("deferred", "Awaiting.__enter__", "self.deferred.is_awaiting"), ("deferred", "Awaiting.__exit__", "self.deferred.is_awaiting"),
        ("deferred", "BaseDeferred.__init__", "self.is_awaiting"),
        ("reports", "handle_reports.__enter__", "self.handlers_stack"), ("reports", "handle_reports.__exit__", "self.handlers_stack"),
        ("reports", "emit_report", "handle_reports.handlers_stack"),
        ("reports", "handle_reports.__init__", "self.is_error_condition"), ("reports", "handle_reports.__exit__", "self.is_error_condition"),
        ("reports", "emit_report", "handler.is_error_condition"),
    }
    flag_reads = []
    for (m, q, text, ctx, line, parent) in findings["state"]:
        if text.endswith(".is_awaiting") and ctx == "Load" and m == "deferred" and q and (m, q, text) not in allowed_state:
            # the flag may be *read* by the evaluation code of deferred.py (modelled as PIfAwaiting); writes stay confined
            flag_reads.append(f"{q}:{line}")
            continue
        need((m, q, text) in allowed_state, f"usage scan: {m}.py:{line}: {text} is accessed in {q or 'module level'}")
        if q in ("not_ready", "emit_report") and "is_error_condition" not in text:
            need(ctx == "Load", f"usage scan: {m}.py:{line}: {text} is written in {q}")
    # 3. every instance of the three classes is a `with` item; try_compute is only entered or read in not_ready
    n_with = {"TryCompute": 0, "Awaiting": 0, "handle_reports": 0}
    for (m, q, nm, node, parent, parents) in findings["cm"]:
        where = f"{m}.py:{node.lineno}"
        if isinstance(parent, ast.ClassDef) or isinstance(parent, (ast.ImportFrom, ast.alias)):
            continue
        if nm == "try_compute":
            if isinstance(parent, ast.withitem) and parent.context_expr is node:
                n_with["TryCompute"] += 1
                continue
            if isinstance(parent, ast.Assign) and node in parent.targets and not q:
                continue
            need(isinstance(parent, ast.Attribute) and ((parent.attr == "depth" and q in ("not_ready", "BaseDeferred.wait"))
                                                         or (parent.attr == "not_ready_yet" and q == "BaseDeferred.wait")),
                 f"usage scan: {where}: try_compute is used other than as a with item ({q})")
            continue
        if nm == "TryCompute":
            need(isinstance(parent, ast.Call) and parent.func is node and not q and isinstance(parents.get(parent), ast.Assign),
                 f"usage scan: {where}: TryCompute is used other than in `try_compute = TryCompute()`")
            continue
        # Awaiting / handle_reports
        if isinstance(node, ast.Attribute) and not (isinstance(node.value, ast.Name) and node.value.id == CM_CLASSES[nm]):
            need(False, f"usage scan: {where}: unexpected attribute path {src(node)}")
        holder = node
        if isinstance(parent, ast.Attribute) and parent.value is node and isinstance(node, ast.Name):
            # Awaiting.awaiting_stack / handle_reports.handlers_stack : covered by rule 2
            need(parent.attr in STATE_ATTRS, f"usage scan: {where}: {src(parent)}")
            continue
        if isinstance(parent, ast.Attribute) and parent.value is node:
            need(parent.attr in STATE_ATTRS, f"usage scan: {where}: {src(parent)}")
            continue
        call = parents.get(holder) if not isinstance(parent, ast.Call) else parent
        need(isinstance(parent, ast.Call) and parent.func is node, f"usage scan: {where}: {nm} is referenced without being called ({src(parent)[:60]})")
        item = parents.get(parent)
        need(isinstance(item, ast.withitem) and item.context_expr is parent and item.optional_vars is None,
             f"usage scan: {where}: an instance of {nm} is created outside a `with` item")
        n_with[nm] += 1
    need(all(v > 0 for v in n_with.values()), f"usage scan: with-item counts {n_with}")
    # 4. Deferred.next_instance_id only feeds the default *name* of a deferred object, and inside deferred.py a
    #    name is only read by __repr__ (names reach message texts, which no comparison looks at)
    dt = mods["deferred"]
    dcls = [n for n in dt.body if isinstance(n, ast.ClassDef) and n.name == "Deferred"]
    need(len(dcls) == 1, "usage scan: class Deferred not found")
    dinit = [n for n in dcls[0].body if isinstance(n, ast.FunctionDef) and n.name == "__init__"]
    need(len(dinit) == 1, "usage scan: Deferred.__init__ not found")
    need("self.name = name or f'd{Deferred.next_instance_id}'" in [src(x) for x in dinit[0].body],
         "usage scan: Deferred.__init__ no longer uses next_instance_id only for the default name")
    n_reads = 0
    for m, t in mods.items():
        for n in ast.walk(t):
            if isinstance(n, ast.Attribute) and n.attr == "next_instance_id":
                need(m == "deferred" and src(n) == "Deferred.next_instance_id", f"usage scan: {m}.py:{n.lineno}: next_instance_id accessed as {src(n)}")
                n_reads += 1
    need(n_reads == 3, f"usage scan: next_instance_id is accessed {n_reads} times (expected: default name, increment, initialisation)")
    for cls in [n for n in dt.body if isinstance(n, ast.ClassDef)]:
        for fn in [n for n in cls.body if isinstance(n, ast.FunctionDef)]:
            for n in ast.walk(fn):
                if isinstance(n, ast.Attribute) and n.attr == "name" and is_name(n.value, "self") and isinstance(n.ctx, ast.Load):
                    need(fn.name == "__repr__", f"usage scan: deferred.py:{n.lineno}: the name of a deferred object is read in {cls.name}.{fn.name}")
    # 5. inventory of per-Compiler state: instance attributes set in Compiler.__init__ (a new Compiler is made per assembly);
    #    the class itself has no class-level data attribute
    ccls = [n for n in mods["compiler"].body if isinstance(n, ast.ClassDef) and n.name == "Compiler"]
    need(len(ccls) == 1, "usage scan: class Compiler not found")
    need(not [x for x in ccls[0].body if isinstance(x, (ast.Assign, ast.AnnAssign, ast.AugAssign))], "usage scan: class Compiler has class-level data attributes (shared between assemblies)")
    cinit = [n for n in ccls[0].body if isinstance(n, ast.FunctionDef) and n.name == "__init__"][0]
    per_compiler = [src(t)[5:] for st in cinit.body if isinstance(st, ast.Assign) for t in st.targets if src(t).startswith("self.")]
    for m, t in mods.items():
        for n in ast.walk(t):
            if isinstance(n, ast.Call) and (src(n.func) in ("Compiler", "compiler.Compiler")):
                par = None
                need(m == "_cli", f"usage scan: {m}.py:{n.lineno}: a Compiler is constructed outside main_cli")
    return [f"run-time writers of module-level objects: exactly {len(STATE_WRITERS)} (the three context managers, BaseDeferred.wait's not_ready_yet entry, remember_cycle, Deferred.__init__'s name counter);",
            f"per-Compiler state (instance attributes set in Compiler.__init__, one Compiler per run of main_cli, no class-level data): {', '.join(per_compiler)};",
            "Deferred.next_instance_id feeds only the default name of a deferred object; deferred.py reads names only in __repr__;",
            f"import-time registrars {sorted(f for _, f in IMPORT_TIME_FUNCS)} referenced {len(refs_ok)} times, always at module level;",
            f"state attributes {sorted(STATE_ATTRS)} accessed at {len(findings['state'])} places, all inside the owning classes, not_ready, emit_report"
            + (f", plus read-only uses of is_awaiting in deferred.py at {', '.join(flag_reads)};" if flag_reads else ";"),
            f"with items: try_compute x{n_with['TryCompute']}, Awaiting(...) x{n_with['Awaiting']}, handle_reports(...) x{n_with['handle_reports']}; no other use of the classes."]


gen_reports.outputs = ["GenReports.v"]
gen_gstate.outputs = ["GenGState.v"]
GENERATORS = [gen_reports, gen_gstate]
