"""Translator plug-in for C10: the small tables that implement spelling insensitivity.

GenSpelling.v:
  reg_names_insns   insns.REGISTER_NAMES (dict literal name -> index), in source order
  reg_names_parser  parser.REGISTER_NAMES (tuple of names)
  reg_names_types   the tuple inside types.Symbol._resolve's register check
  caret_prefixes    the (prefix, digit class, base) rows of the for-loop in parser.number()
  c_bases           the BASES dict in parser.number()  (0x / 0o / 0b)
  acc_lo, acc_hi    bounds of try_accumulator_from_symbol ("ac0" <= name <= "ac5")
The functions that consult the tables (try_as_register, try_accumulator_from_symbol, the
register checks in parser.label / assignment / instruction and types.Symbol._resolve) are
pinned to their recognised shape: each must go through `.lower()`.
"""
import ast

from translate import parse, need, find_assign, find_def, find_class, const_str, const_int, dump_eq, coq_string, HEADER, TranslateAbort  # noqa


def _str_tuple(node, what):
    need(isinstance(node, ast.Tuple), f"{what}: expected a tuple literal")
    return [const_str(e, what) for e in node.elts]


def gen_spelling():
    out = HEADER.format(src="pdpy11/insns.py, pdpy11/parser.py, pdpy11/types.py")
    out += "Open Scope N_scope.\n"
    # ---- insns.py
    tree, _ = parse("pdpy11/insns.py")
    val = find_assign(tree, "REGISTER_NAMES")
    need(isinstance(val, ast.Dict), "insns.REGISTER_NAMES is not a dict literal")
    rows, seen = [], set()
    for k, v in zip(val.keys, val.values):
        name = const_str(k, "REGISTER_NAMES key")
        need(name not in seen, f"duplicate register name {name}")
        seen.add(name)
        idx = const_int(v, f"REGISTER_NAMES[{name}]")
        need(0 <= idx, "negative register index")
        rows.append(f"({coq_string(name)}, {idx})")
    out += "Definition reg_names_insns : list (string * N) :=\n  [ " + "; ".join(rows) + " ].\n"
    f = find_def(tree, "try_as_register")
    need(len(f.body) == 1 and isinstance(f.body[0], ast.If), "try_as_register: expected a single if/elif/else")
    dump_eq(f.body[0].test,
            "isinstance(operand, Symbol) and not operand.is_necessarily_label and operand.name.lower() in REGISTER_NAMES",
            "try_as_register: symbol branch test")
    need(len(f.body[0].body) == 1, "try_as_register: symbol branch body")
    dump_eq(f.body[0].body[0], "return REGISTER_NAMES[operand.name.lower()]", "try_as_register: symbol branch")
    elif_ = f.body[0].orelse
    need(len(elif_) == 1 and isinstance(elif_[0], ast.If), "try_as_register: expected elif")
    dump_eq(elif_[0].test, "isinstance(operand, operators.register)", "try_as_register: %n branch test")
    dump_eq(elif_[0].body[0],
            'return Deferred[int](lambda: get_as_int(state, "register index", operand, operand.operand, bitness=3, unsigned=True))',
            "try_as_register: %n branch")
    need(len(elif_[0].orelse) == 1, "try_as_register: else")
    dump_eq(elif_[0].orelse[0], "return None", "try_as_register: else branch")
    f = find_def(tree, "try_accumulator_from_symbol")
    dump_eq(f.body[0], """
if isinstance(operand, Symbol):
    name = operand.name.lower()
    if len(name) == 3 and "ac0" <= name <= "ac5":
        return int(name[2])
""", "try_accumulator_from_symbol")
    need(len(f.body) == 2, "try_accumulator_from_symbol: body")
    dump_eq(f.body[1], "return None", "try_accumulator_from_symbol: fallthrough")
    out += "Definition acc_lo : string := \"ac0\".\nDefinition acc_hi : string := \"ac5\".\n"
    # ---- parser.py
    tree, _ = parse("pdpy11/parser.py")
    names = _str_tuple(find_assign(tree, "REGISTER_NAMES"), "parser.REGISTER_NAMES")
    out += "Definition reg_names_parser : list string := [" + "; ".join(coq_string(n) for n in names) + "].\n"
    # every use of parser.REGISTER_NAMES is '<expr>.lower() in REGISTER_NAMES'
    uses = 0
    for node in ast.walk(tree):
        if isinstance(node, ast.Name) and node.id == "REGISTER_NAMES" and isinstance(node.ctx, ast.Load):
            uses += 1
    cmps = 0
    for node in ast.walk(tree):
        if isinstance(node, ast.Compare) and len(node.ops) == 1 and isinstance(node.ops[0], ast.In) \
                and isinstance(node.comparators[0], ast.Name) and node.comparators[0].id == "REGISTER_NAMES":
            l = node.left
            need(isinstance(l, ast.Call) and isinstance(l.func, ast.Attribute) and l.func.attr == "lower" and not l.args,
                 "parser: a REGISTER_NAMES membership test does not go through .lower(): " + ast.unparse(node))
            cmps += 1
    need(uses == cmps and cmps >= 3, f"parser: REGISTER_NAMES used {uses} times, {cmps} of them as '.lower() in REGISTER_NAMES'")
    # number(): the caret prefixes and the C-style bases
    fn = [n for n in tree.body if isinstance(n, ast.FunctionDef) and n.name == "number"]
    need(len(fn) == 1, "parser.number not found")
    loops = [n for n in fn[0].body if isinstance(n, ast.For)]
    need(len(loops) == 1, "parser.number: expected one for loop (the caret prefixes)")
    lp = loops[0]
    need(isinstance(lp.target, ast.Tuple) and [getattr(e, "id", None) for e in lp.target.elts] == ["prefix", "adjective", "digit_regex", "base"],
         "number(): loop target")
    need(isinstance(lp.iter, ast.Tuple), "number(): loop over a tuple literal")
    rows = []
    for e in lp.iter.elts:
        need(isinstance(e, ast.Tuple) and len(e.elts) == 4, "number(): prefix row")
        pre = const_str(e.elts[0], "prefix")
        cls = const_str(e.elts[2], "digit regex")
        b = const_int(e.elts[3], "base")
        need(cls in (r"[0-9a-f]", r"[0-7]", r"[01]", r"[0-9]"), f"number(): unknown digit class {cls!r}")
        kind = {r"[0-9a-f]": "hex", r"[0-7]": "oct", r"[01]": "bin", r"[0-9]": "dec"}[cls]
        rows.append(f"({coq_string(pre)}, {coq_string(kind)}, {b})")
    out += "Definition caret_prefixes : list (string * string * N) :=\n  [ " + "; ".join(rows) + " ].\n"
    need(len(lp.body) == 1 and isinstance(lp.body[0], ast.If), "number(): loop body")
    dump_eq(lp.body[0].test, "Parser.literal(prefix)(ctx, maybe=True)", "number(): prefix match")
    inner = lp.body[0].body
    need(len(inner) == 2, "number(): prefix branch body")
    need(isinstance(inner[0], ast.Assign), "number(): digits match")
    dump_eq(inner[0].value.func, 'Parser.regex(rf"{digit_regex}+(?![$_.])\\b", skip_whitespace_before=False)', "number(): digits regex")
    dump_eq(inner[1], "return types.Number(ctx_start, ctx, sign_str + prefix + num, int(num, base) * sign, is_valid_label=False)", "number(): caret result")
    bases = None
    for node in ast.walk(fn[0]):
        if isinstance(node, ast.Assign) and isinstance(node.targets[0], ast.Name) and node.targets[0].id == "BASES":
            bases = node.value
    need(isinstance(bases, ast.Dict), "number(): BASES dict literal not found")
    rows = [f"({coq_string(const_str(k, 'BASES key'))}, {const_int(v, 'BASES value')})" for k, v in zip(bases.keys, bases.values)]
    out += "Definition c_bases : list (string * N) := [" + "; ".join(rows) + "].\n"
    # Parser.regex / Parser.literal: case-insensitive unless asked otherwise
    cls = find_class(tree, "Parser")
    rx = find_def(cls, "regex")
    # re.ASCII: [a-z] under re.I matches the 52 ASCII letters only; \\d \\s \\b \\w are ASCII-only (Model/Spelling.v relies on it)
    dump_eq(rx.body[0], "regex = re.compile(regex, flags=0 if case_sensitive else re.I | re.ASCII)", "Parser.regex: flags")
    need([d.value if isinstance(d, ast.Constant) else None for d in rx.args.defaults] == [True, False], "Parser.regex: defaults")
    lit = find_def(cls, "literal")
    need([d.value if isinstance(d, ast.Constant) else None for d in lit.args.defaults] == [True, False], "Parser.literal: defaults")
    dump_eq(lit.body[0], "if not case_sensitive:\n    literal = literal.lower()", "Parser.literal: lower-casing of the literal")
    inner = find_def(lit, "fn")
    dump_eq(inner, """
def fn(ctx):
    if skip_whitespace_before:
        ctx.skip_whitespace()
    found = ctx.code[ctx.pos:ctx.pos + len(literal)]
    check_found = found if case_sensitive else found.lower()
    if check_found == literal:
        ctx.pos += len(literal)
        return literal
    else:
        raise reports.RecoverableError(f"Failed to match literal at position {ctx.pos}")
""", "Parser.literal: matcher")
    # ---- types.py
    tree, _ = parse("pdpy11/types.py")
    sym = find_class(tree, "Symbol")
    res = find_def(sym, "_resolve")
    first = res.body[0]
    need(isinstance(first, ast.If) and isinstance(first.test, ast.BoolOp) and isinstance(first.test.op, ast.And) and len(first.test.values) == 2,
         "Symbol._resolve: register check shape")
    cmp_ = first.test.values[0]
    need(isinstance(cmp_, ast.Compare) and isinstance(cmp_.ops[0], ast.In), "Symbol._resolve: 'in' test")
    dump_eq(cmp_.left, "self.name.lower()", "Symbol._resolve: lower-cased name")
    dump_eq(first.test.values[1], "not self.is_necessarily_label", "Symbol._resolve: label exemption")
    names = _str_tuple(cmp_.comparators[0], "Symbol._resolve register tuple")
    out += "Definition reg_names_types : list string := [" + "; ".join(coq_string(n) for n in names) + "].\n"
    return {"GenSpelling.v": out}


gen_spelling.outputs = ["GenSpelling.v"]
GENERATORS = [gen_spelling]
