"""Translator plug-in: loop-carrying functions of pdpy11 -> coq/Gen/GenPure2.v (constant prelude) and
coq/Gen/GenPure2Insns.v (`get_opcode` of Instruction.compile_insn and the loop that builds `indexes_of_char`).

Extends the straight-line sub-language of gen_pure.py by *state passing*: every Definition / Fixpoint of
GenPure2Insns.v is produced from the `ast` of the current source; Props/T_insns2.v proves the result equal (up to
which Python exception is raised) to the hand model Model/Insns.v get_opcode.  Fail closed: unknown shape -> need(False).

Sub-language (anything else -> TranslateAbort):
  statements   x = e | L[e] = e | D[k] = [] | D[k].append(e) | assert c | return e (last statement only) |
               if c: <stmts without return> (no else) | for x in L: / for a, b in L: / for i, x in enumerate(L[, k]):
  expressions  int literals, locals, the target's atoms, stub.pattern_char / stub.bit_indexes, + - & | ^ << >>,
               wait(e), str(e & c) with a literal 0 <= c <= 9 (one character), list(<str>), "".join(<list of chars>),
               s.isdigit(), int(s, 2) for a local s that was asserted isdigit(), struct.pack("<H", e), L[e], D[k],
               k in D / k not in D, {} / [] (only as the whole right-hand side)
  A `for` loop becomes a top-level structural Fixpoint over the list iterated (lambda-lifted: the locals its body
  uses are parameters); the variables the body assigns that exist before the loop are its state and result; the
  enumerate counter is a Z parameter increased by 1.  The loop targets and the locals first assigned in the body are
  not visible after the loop (a later use aborts).

Reading of Python used here (trusted; cross-checked by tools/t_check2.py against the real functions):
  * lists / dicts are values: sound because a list- or dict-typed name is only ever bound to a fresh object
    (`list(...)`, `[]`, `{}` -- enforced) and the iterable of a loop is never a state variable of that loop (enforced);
  * L[i] / L[i] = x: a negative i counts from the end, IndexError outside -len..len-1; D[k]: KeyError if absent;
    D[k] = v keeps the insertion order; `a[i] = v` evaluates v, then a, then i;
  * str(z) for 0 <= z <= 9 is the one character chr(48 + z); z & c with a literal c >= 0 lies in 0..c;
  * a str is the list of its characters (ascii: the opcode patterns are ASCII); "".join of one-character strings is
    that list; s.isdigit() is `non-empty and all in 0..9` (on ASCII); int(s, 2) of a string of ASCII digits is the
    binary value, ValueError if a digit is not 0/1;
  * wait(e) of an int is that int; ints are unbounded Z; >> / << raise ValueError on a negative count;
  * the closure variables of get_opcode (indexes_of_char, replacements) are not rebound between its definition and
    its call (pinned: `def get_opcode` is followed by the final return of compile_insn only).
"""
import ast
import importlib.util
import os
import re

from translate import parse, need, coq_string, HEADER

_spec = importlib.util.spec_from_file_location("gens_gen_pure_for_pure2", os.path.join(os.path.dirname(os.path.abspath(__file__)), "gen_pure.py"))
GP = importlib.util.module_from_spec(_spec)
_spec.loader.exec_module(GP)
locate, match_hole, P, plain_params, zlit = GP.locate, GP.match_hole, GP.P, GP.plain_params, GP.zlit

# ------------------------------------------------------------------------------------------------
PRELUDE = r'''From Verif Require Import Base.Res Base.Bytes.
Open Scope list_scope.
Open Scope Z_scope.

(* ---- constant text: the meaning of the Python list / dict / str operations the translated loops use.
   Reading of Python (trusted; cross-checked by tools/t_check2.py against the real functions):
   * lists and dicts are values (the translator only admits names bound to fresh objects);
   * L[i], L[i] = x: negative i counts from the end, IndexError outside; D[k]: KeyError if absent; D[k] = v keeps
     the insertion order of the keys;
   * str(z) for 0 <= z <= 9 is one character; a str is the list of its (ASCII) characters;
   * s.isdigit(): non-empty and every character in 0..9; int(s, 2) on such a string: the binary value, ValueError
     if some digit is not 0 / 1. *)
Record stub2 : Type := mkStub2 { s_pattern_char : ascii; s_bit_indexes : list Z }.

Definition py_pos (len i : Z) : option nat :=
  if i <? 0 then (if i + len <? 0 then None else Some (Z.to_nat (i + len)))
  else if i <? len then Some (Z.to_nat i) else None.
Definition py_getitem {A} (l : list A) (i : Z) (site : string) : res A :=
  match py_pos (Z.of_nat (length l)) i with
  | Some n => match nth_error l n with Some x => Ok x | None => Crash site end
  | None => Crash site
  end.
Fixpoint list_set {A} (n : nat) (x : A) (l : list A) : option (list A) :=
  match n, l with
  | O, _ :: t => Some (x :: t)
  | S n', h :: t => match list_set n' x t with Some t' => Some (h :: t') | None => None end
  | _, [] => None
  end.
Definition py_setitem {A} (l : list A) (i : Z) (x : A) (site : string) : res (list A) :=
  match py_pos (Z.of_nat (length l)) i with
  | Some n => match list_set n x l with Some l' => Ok l' | None => Crash site end
  | None => Crash site
  end.
(* dict with one-character keys, in insertion order *)
Fixpoint py_dict_find {V} (d : list (ascii * V)) (k : ascii) : option V :=
  match d with
  | [] => None
  | (k', v) :: t => if Ascii.eqb k' k then Some v else py_dict_find t k
  end.
Definition py_dict_mem {V} (d : list (ascii * V)) (k : ascii) : bool :=
  match py_dict_find d k with Some _ => true | None => false end.
Definition py_dict_get {V} (d : list (ascii * V)) (k : ascii) (site : string) : res V :=
  match py_dict_find d k with Some v => Ok v | None => Crash site end.
Fixpoint py_dict_set {V} (d : list (ascii * V)) (k : ascii) (v : V) : list (ascii * V) :=
  match d with
  | [] => [(k, v)]
  | (k', v') :: t => if Ascii.eqb k' k then (k', v) :: t else (k', v') :: py_dict_set t k v
  end.
(* str(z) for 0 <= z <= 9 *)
Definition py_str_small (z : Z) : ascii := ascii_of_nat (48 + Z.to_nat z).
Definition py_is_digit_char (c : ascii) : bool := let n := nat_of_ascii c in Nat.leb 48 n && Nat.leb n 57.
Definition py_isdigit (s : list ascii) : bool := match s with [] => false | _ => forallb py_is_digit_char s end.
(* int(s, 2) for a string of ASCII digits *)
Fixpoint int2_from (s : list ascii) (acc : Z) : res Z :=
  match s with
  | [] => Ok acc
  | c :: s' =>
      if Ascii.eqb c "0"%char then int2_from s' (2 * acc)
      else if Ascii.eqb c "1"%char then int2_from s' (2 * acc + 1)
      else Crash "ValueError: int(s, 2)"
  end.
Definition py_int2_digits (s : list ascii) : res Z :=
  match s with [] => Crash "ValueError: int('', 2)" | _ => int2_from s 0 end.
Definition py_rshift2 (a b : Z) : res Z := if Z.ltb b 0 then Crash "ValueError:negative shift count" else Ok (Z.shiftr a b).
Definition py_lshift2 (a b : Z) : res Z := if Z.ltb b 0 then Crash "ValueError:negative shift count" else Ok (Z.shiftl a b).
Definition py_assert2 {A} (c : bool) (site : string) (k : res A) : res A := if c then k else Crash site.
'''

INT, BOOL, CHAR, STR, LCHAR, LINT, DICT, STUB, LREPL, BYTES = "int", "bool", "char", "str", "list[char]", "list[int]", "dict[char,list[int]]", "stub", "list[(stub,int)]", "bytes"
COQTY = {INT: "Z", BOOL: "bool", CHAR: "ascii", STR: "list ascii", LCHAR: "list ascii", LINT: "list Z", DICT: "list (ascii * list Z)",
         STUB: "stub2", LREPL: "list (stub2 * Z)", BYTES: "list Z"}
ELEM = {LCHAR: CHAR, LINT: INT, STR: CHAR, LREPL: (STUB, INT)}
MUTABLE = (LCHAR, LINT, DICT, LREPL)
STUB_ATTR = {"pattern_char": ("s_pattern_char", CHAR), "bit_indexes": ("s_bit_indexes", LINT)}
ARITH = {ast.Add: "Z.add", ast.Sub: "Z.sub", ast.BitAnd: "Z.land", ast.BitOr: "Z.lor", ast.BitXor: "Z.lxor"}
SHIFT = {ast.RShift: "py_rshift2", ast.LShift: "py_lshift2"}


class Cx:
    def __init__(self, fname, atoms):
        self.fname = fname
        self.atoms = atoms          # ast.dump -> (coq term, type)
        self.vars = {}              # python name -> type (coq name v_<name>), insertion ordered
        self.params = []            # [(coq name, type)] of the generated function: always in scope
        self.digits = set()         # locals asserted .isdigit()
        self.loops = []             # texts of the lifted Fixpoints, inner first
        self.nloops = 0
        self.n = 0
        self.ret = None

    def fresh(self):
        self.n += 1
        return f"t{self.n}"

    def err(self, msg):
        need(False, f"{self.fname}: {msg}")


def wrap(binds, body):
    for v, t in reversed(binds):
        body = f"(do {v} <- {t}; {body})"
    return body


def tr_e(cx, node):
    """-> (bindings [(var, res-term)], pure term, type)"""
    d = ast.dump(node)
    src = ast.unparse(node)[:80]
    if d in cx.atoms:
        return [], cx.atoms[d][0], cx.atoms[d][1]
    if isinstance(node, ast.Name):
        need(node.id in cx.vars, f"{cx.fname}: unknown name {node.id} (not a local in scope here)")
        return [], "v_" + node.id, cx.vars[node.id]
    if isinstance(node, ast.Constant):
        v = node.value
        need(isinstance(v, int) and not isinstance(v, bool), f"{cx.fname}: constant {v!r}")
        return [], zlit(v), INT
    if isinstance(node, ast.Attribute):
        b, t, ty = tr_e(cx, node.value)
        need(ty == STUB and node.attr in STUB_ATTR, f"{cx.fname}: attribute {src}")
        return b, f"({STUB_ATTR[node.attr][0]} {t})", STUB_ATTR[node.attr][1]
    if isinstance(node, ast.BinOp):
        b1, t1, ty1 = tr_e(cx, node.left)
        b2, t2, ty2 = tr_e(cx, node.right)
        need(ty1 == INT and ty2 == INT, f"{cx.fname}: arithmetic on {ty1} / {ty2}: {src}")
        if type(node.op) in ARITH:
            return b1 + b2, f"({ARITH[type(node.op)]} {t1} {t2})", INT
        if type(node.op) in SHIFT:
            v = cx.fresh()
            return b1 + b2 + [(v, f"{SHIFT[type(node.op)]} {t1} {t2}")], v, INT
        cx.err(f"binary operator {type(node.op).__name__} in {src}")
    if isinstance(node, ast.Compare):
        need(len(node.ops) == 1 and isinstance(node.ops[0], (ast.In, ast.NotIn)), f"{cx.fname}: comparison {src}")
        b1, t1, ty1 = tr_e(cx, node.left)
        b2, t2, ty2 = tr_e(cx, node.comparators[0])
        need(ty1 == CHAR and ty2 == DICT, f"{cx.fname}: `in` on {ty1} / {ty2}: {src}")
        t = f"(py_dict_mem {t2} {t1})"
        return b1 + b2, t if isinstance(node.ops[0], ast.In) else f"(negb {t})", BOOL
    if isinstance(node, ast.Subscript):
        need(not isinstance(node.slice, ast.Slice), f"{cx.fname}: slice {src}")
        b1, t1, ty1 = tr_e(cx, node.value)
        b2, t2, ty2 = tr_e(cx, node.slice)
        v = cx.fresh()
        if ty1 == DICT:
            need(ty2 == CHAR, f"{cx.fname}: dict key of type {ty2}: {src}")
            return b1 + b2 + [(v, f"py_dict_get {t1} {t2} {coq_string('KeyError: ' + ast.unparse(node.value)[:40])}")], v, LINT
        need(ty1 in (LCHAR, LINT, STR) and ty2 == INT, f"{cx.fname}: subscript of {ty1} by {ty2}: {src}")
        return b1 + b2 + [(v, f"py_getitem {t1} {t2} {coq_string('IndexError: ' + ast.unparse(node.value)[:40])}")], v, ELEM[ty1]
    if isinstance(node, ast.Call):
        need(not node.keywords, f"{cx.fname}: keyword arguments in {src}")
        f, a = node.func, node.args
        if isinstance(f, ast.Name):
            if f.id == "wait" and len(a) == 1:
                b, t, ty = tr_e(cx, a[0])
                need(ty == INT, f"{cx.fname}: wait() of a {ty}")
                return b, t, INT
            if f.id == "str" and len(a) == 1:
                e = a[0]
                need(isinstance(e, ast.BinOp) and isinstance(e.op, ast.BitAnd) and isinstance(e.right, ast.Constant)
                     and isinstance(e.right.value, int) and not isinstance(e.right.value, bool) and 0 <= e.right.value <= 9,
                     f"{cx.fname}: str(e) is only recognised for e = <int> & <literal 0..9> (one character): {src}")
                b, t, ty = tr_e(cx, e)
                return b, f"(py_str_small {t})", CHAR
            if f.id == "list" and len(a) == 1:
                b, t, ty = tr_e(cx, a[0])
                need(ty == STR, f"{cx.fname}: list() of a {ty}: {src}")
                return b, t, LCHAR
            if f.id == "int" and len(a) == 2:
                need(isinstance(a[1], ast.Constant) and a[1].value == 2 and not isinstance(a[1].value, bool), f"{cx.fname}: only int(s, 2): {src}")
                need(isinstance(a[0], ast.Name) and cx.vars.get(a[0].id) == STR and a[0].id in cx.digits,
                     f"{cx.fname}: int(s, 2) is only recognised for a local str s below `assert s.isdigit()`: {src}")
                v = cx.fresh()
                return [(v, f"py_int2_digits v_{a[0].id}")], v, INT
            cx.err(f"call of {f.id}: {src}")
        if isinstance(f, ast.Attribute):
            if ast.dump(f) == ast.dump(ast.parse("struct.pack", mode="eval").body):
                need(len(a) == 2 and isinstance(a[0], ast.Constant) and a[0].value == "<H", f"{cx.fname}: only struct.pack(\"<H\", e): {src}")
                b, t, ty = tr_e(cx, a[1])
                need(ty == INT, f"{cx.fname}: struct.pack of a {ty}")
                v = cx.fresh()
                return b + [(v, f"pack_H {t}")], v, BYTES
            if f.attr == "join" and isinstance(f.value, ast.Constant) and f.value.value == "" and len(a) == 1:
                b, t, ty = tr_e(cx, a[0])
                need(ty == LCHAR, f"{cx.fname}: \"\".join of a {ty}: {src}")
                return b, t, STR
            if f.attr == "isdigit" and not a:
                b, t, ty = tr_e(cx, f.value)
                need(ty == STR, f"{cx.fname}: isdigit of a {ty}: {src}")
                return b, f"(py_isdigit {t})", BOOL
        cx.err(f"call {src}")
    cx.err(f"expression shape {src}")


def assigned_names(stmts):
    """names a statement list (re)binds or mutates"""
    out = []
    for s in stmts:
        for n in ast.walk(s):
            tgts = []
            if isinstance(n, ast.Assign):
                tgts = n.targets
            elif isinstance(n, (ast.AugAssign, ast.AnnAssign)):
                tgts = [n.target]
            elif isinstance(n, ast.For):
                tgts = [n.target]
            elif isinstance(n, ast.Call) and isinstance(n.func, ast.Attribute) and n.func.attr in ("append", "extend", "insert", "pop", "remove", "clear", "sort", "reverse", "update", "setdefault"):
                tgts = [n.func.value]
            for t in tgts:
                for nm in base_names(t):
                    if nm not in out:
                        out.append(nm)
    return out


def base_names(t):
    if isinstance(t, ast.Name):
        return [t.id]
    if isinstance(t, (ast.Subscript, ast.Attribute, ast.Starred)):
        return base_names(t.value)
    if isinstance(t, (ast.Tuple, ast.List)):
        return [n for e in t.elts for n in base_names(e)]
    return ["<?>"]      # an unrecognised target: never in scope, the statement translator will refuse it


def mentions(node, names):
    return any(isinstance(n, ast.Name) and n.id in names for n in ast.walk(node))


def used(term, name):
    return re.search(r"(?<![A-Za-z0-9_'.])" + re.escape(name) + r"(?![A-Za-z0-9_'])", term) is not None


def tr_block(cx, stmts, tail, toplevel):
    """statements still to run -> Coq term of type res <result>; `tail` is the term that ends the path when the
    statements run out (the recursive call of a loop), None at the function's top level (a return is required)."""
    if not stmts:
        need(tail is not None, f"{cx.fname}: a path falls off the end (returns None)")
        return tail
    s, rest = stmts[0], stmts[1:]
    src = ast.unparse(s)[:80]
    if isinstance(s, ast.Return):
        need(toplevel and not rest and s.value is not None, f"{cx.fname}: `return` is only recognised as the last statement of the function: {src}")
        b, t, ty = tr_e(cx, s.value)
        cx.ret = ty
        return wrap(b, f"Ok {t}")
    if isinstance(s, ast.Pass) or (isinstance(s, ast.Expr) and isinstance(s.value, ast.Constant) and isinstance(s.value.value, str)):
        return tr_block(cx, rest, tail, toplevel)
    if isinstance(s, ast.Assert):
        b, t, ty = tr_e(cx, s.test)
        need(ty == BOOL, f"{cx.fname}: assert of a non-bool: {src}")
        c = s.test
        if isinstance(c, ast.Call) and isinstance(c.func, ast.Attribute) and c.func.attr == "isdigit" and isinstance(c.func.value, ast.Name):
            cx.digits.add(c.func.value.id)
        body = tr_block(cx, rest, tail, toplevel)
        return wrap(b, f"py_assert2 {t} {coq_string('AssertionError: ' + ast.unparse(s.test)[:50])} ({body})")
    if isinstance(s, ast.Assign):
        need(len(s.targets) == 1, f"{cx.fname}: chained assignment: {src}")
        tgt = s.targets[0]
        if isinstance(tgt, ast.Name):
            v = s.value
            if isinstance(v, ast.Dict) and not v.keys:
                b, t, ty = [], "(@nil (ascii * list Z))", DICT
            else:
                b, t, ty = tr_e(cx, v)
                if ty in MUTABLE:
                    need(isinstance(v, ast.Call) and isinstance(v.func, ast.Name) and v.func.id == "list",
                         f"{cx.fname}: a list-typed name may only be bound to a fresh object (list(...), {{}}): {src}")
            cx.vars[tgt.id] = ty
            cx.digits.discard(tgt.id)
            body = tr_block(cx, rest, tail, toplevel)
            return wrap(b, f"let v_{tgt.id} := {t} in {body}")
        if isinstance(tgt, ast.Subscript):
            need(isinstance(tgt.value, ast.Name) and tgt.value.id in cx.vars and not isinstance(tgt.slice, ast.Slice), f"{cx.fname}: assignment target {src}")
            name, cty = tgt.value.id, cx.vars[tgt.value.id]
            if cty == DICT:
                need(isinstance(s.value, ast.List) and not s.value.elts, f"{cx.fname}: only D[k] = [] is recognised: {src}")
                bk, tk, tyk = tr_e(cx, tgt.slice)
                need(tyk == CHAR, f"{cx.fname}: dict key of type {tyk}: {src}")
                body = tr_block(cx, rest, tail, toplevel)
                return wrap(bk, f"let v_{name} := py_dict_set v_{name} {tk} (@nil Z) in {body}")
            need(cty in (LCHAR, LINT), f"{cx.fname}: item assignment into a {cty}: {src}")
            bv, tv, tyv = tr_e(cx, s.value)            # value first, then the container, then the index
            need(tyv == ELEM[cty], f"{cx.fname}: item of type {tyv} stored into a {cty}: {src}")
            bi, ti, tyi = tr_e(cx, tgt.slice)
            need(tyi == INT, f"{cx.fname}: list index of type {tyi}: {src}")
            body = tr_block(cx, rest, tail, toplevel)
            return wrap(bv + bi, f"(do v_{name} <- py_setitem v_{name} {ti} {tv} {coq_string('IndexError: ' + name + '[...] = ...')}; {body})")
        cx.err(f"assignment target {src}")
    if isinstance(s, ast.Expr) and isinstance(s.value, ast.Call) and isinstance(s.value.func, ast.Attribute) and s.value.func.attr == "append":
        c = s.value
        recv = c.func.value
        need(len(c.args) == 1 and not c.keywords and isinstance(recv, ast.Subscript) and isinstance(recv.value, ast.Name)
             and cx.vars.get(recv.value.id) == DICT and not isinstance(recv.slice, ast.Slice), f"{cx.fname}: only D[k].append(e) is recognised: {src}")
        name = recv.value.id
        bk, tk, tyk = tr_e(cx, recv.slice)
        need(tyk == CHAR, f"{cx.fname}: dict key of type {tyk}: {src}")
        be, te, tye = tr_e(cx, c.args[0])
        need(tye == INT, f"{cx.fname}: append of a {tye}: {src}")
        l = cx.fresh()
        body = tr_block(cx, rest, tail, toplevel)
        return wrap(bk + [(l, f"py_dict_get v_{name} {tk} {coq_string('KeyError: ' + name)}")] + be,
                    f"let v_{name} := py_dict_set v_{name} {tk} ({l} ++ [{te}]) in {body}")
    if isinstance(s, ast.If):
        need(not s.orelse, f"{cx.fname}: if/else: {src}")
        need(not any(isinstance(n, (ast.Return, ast.For, ast.While, ast.Break, ast.Continue)) for x in s.body for n in ast.walk(x)),
             f"{cx.fname}: return / loop inside an `if`: {src}")
        b, t, ty = tr_e(cx, s.test)
        need(ty == BOOL, f"{cx.fname}: `if` on a {ty}: {src}")
        new = [n for n in assigned_names(s.body) if n not in cx.vars]
        need(not new, f"{cx.fname}: an `if` body introduces the names {new}")
        saved, sd = dict(cx.vars), set(cx.digits)
        a_ = tr_block(cx, list(s.body) + rest, tail, toplevel)
        after = dict(cx.vars)
        cx.vars, cx.digits = dict(saved), set(sd)
        b_ = tr_block(cx, rest, tail, toplevel)
        need(after == cx.vars, f"{cx.fname}: the branches of an `if` leave different locals: {src}")
        return wrap(b, f"(if {t} then {a_} else {b_})")
    if isinstance(s, ast.For):
        return tr_for(cx, s, rest, tail, toplevel)
    cx.err(f"statement shape {src}")


def tr_for(cx, s, rest, tail, toplevel):
    src = ast.unparse(s).split("\n")[0][:80]
    need(not s.orelse, f"{cx.fname}: for/else: {src}")
    need(not any(isinstance(n, (ast.Return, ast.Break, ast.Continue, ast.While)) for x in s.body for n in ast.walk(x)), f"{cx.fname}: return/break/continue inside a loop: {src}")
    cx.nloops += 1
    lname = f"{cx.fname}_for{cx.nloops}"
    it, counter, start = s.iter, None, 0
    if isinstance(it, ast.Call) and isinstance(it.func, ast.Name) and it.func.id == "enumerate":
        need(not it.keywords and len(it.args) in (1, 2), f"{cx.fname}: enumerate arguments: {src}")
        if len(it.args) == 2:
            need(isinstance(it.args[1], ast.Constant) and isinstance(it.args[1].value, int) and not isinstance(it.args[1].value, bool), f"{cx.fname}: enumerate start must be an int literal: {src}")
            start = it.args[1].value
        need(isinstance(s.target, ast.Tuple) and len(s.target.elts) == 2 and isinstance(s.target.elts[0], ast.Name), f"{cx.fname}: `for i, x in enumerate(...)` expected: {src}")
        counter, target, it = s.target.elts[0].id, s.target.elts[1], it.args[0]
    else:
        target = s.target
    state = [n for n in assigned_names(s.body) if n in cx.vars]
    need(state, f"{cx.fname}: a loop that changes no earlier local: {src}")
    need(not mentions(it, state), f"{cx.fname}: the iterable of a loop is changed by its body: {src}")
    bi, ti, tyi = tr_e(cx, it)
    need(tyi in ELEM, f"{cx.fname}: iteration over a {tyi}: {src}")
    ety = ELEM[tyi]
    if isinstance(ety, tuple):
        need(isinstance(target, ast.Tuple) and len(target.elts) == len(ety) and all(isinstance(e, ast.Name) for e in target.elts), f"{cx.fname}: `for a, b in <list of pairs>` expected: {src}")
        tnames, ttys = [e.id for e in target.elts], list(ety)
    else:
        need(isinstance(target, ast.Name), f"{cx.fname}: loop target: {src}")
        tnames, ttys = [target.id], [ety]
    bound = tnames + ([counter] if counter else [])
    need(len(set(bound)) == len(bound) and not any(n in assigned_names(s.body) for n in bound), f"{cx.fname}: a loop target is rebound: {src}")
    need(not any(n in cx.vars for n in bound), f"{cx.fname}: a loop target shadows a local: {src}")
    outer_vars, outer_digits = dict(cx.vars), set(cx.digits)
    for n, t in zip(tnames, ttys):
        cx.vars[n] = t
    if counter:
        cx.vars[counter] = INT
    cx.digits -= set(state)
    st_tuple = "v_" + state[0] if len(state) == 1 else "(" + ", ".join("v_" + n for n in state) + ")"
    REC = "@@REC@@"
    body = tr_block(cx, list(s.body), REC, False)
    for n in state:
        need(cx.vars.get(n) == outer_vars[n], f"{cx.fname}: the loop changes the type of {n}: {src}")
    # parameters: the locals / function parameters the body uses, then the state, the counter, the list
    cands = [(p, t) for p, t in cx.params] + [("v_" + n, COQTY[t]) for n, t in outer_vars.items() if n not in state]
    free = [(p, t) for p, t in cands if used(body, p)]
    cx.vars, cx.digits = outer_vars, outer_digits - set(state)
    args = [p for p, _ in free] + ["v_" + n for n in state]
    rec = f"{lname} " + " ".join(args + ([f"(Z.add v_{counter} 1)"] if counter else []) + ["rest"])
    body = body.replace(REC, rec)
    binder = " ".join(f"({p} : {t})" for p, t in free) + " " + " ".join(f"(v_{n} : {COQTY[outer_vars[n]]})" for n in state)
    if counter:
        binder += f" (v_{counter} : Z)"
    ecoq = COQTY[ety] if not isinstance(ety, tuple) else "(" + " * ".join(COQTY[t] for t in ety) + ")"
    pat = "v_" + tnames[0] if len(tnames) == 1 else "(" + ", ".join("v_" + n for n in tnames) + ")"
    rty = COQTY[outer_vars[state[0]]] if len(state) == 1 else "(" + " * ".join(COQTY[outer_vars[n]] for n in state) + ")"
    shown = src.replace("(*", "( *").replace("*)", "* )")
    cx.loops.append(f"(* {shown} *)\nFixpoint {lname} {binder} (l : list {ecoq}) {{struct l}} : res ({rty}) :=\n  match l with\n  | [] => Ok {st_tuple}\n"
                    f"  | {pat} :: rest =>\n      {body}\n  end.\n")
    call = f"{lname} " + " ".join(args + ([zlit(start)] if counter else []) + [ti])
    after = tr_block(cx, rest, tail, toplevel)
    if len(state) == 1:
        return wrap(bi, f"(do v_{state[0]} <- {call}; {after})")
    r = cx.fresh()
    return wrap(bi, f"(do {r} <- {call}; let '{st_tuple} := {r} in {after})")


def gen_loop_function(coq_name, src_desc, stmts, params, atoms, closure=(), ret_var=None):
    """params: [(coq name, type)]; atoms: {python source: coq parameter}; closure: [(python name, type)] free
    variables of the function that become parameters v_<name>; ret_var: for a fragment, the local returned."""
    ptys = dict(params)
    cx = Cx(coq_name, {ast.dump(ast.parse(src, mode="eval").body): (p, ptys[p]) for src, p in atoms.items()})
    cx.params = [(p, COQTY[t]) for p, t in params]
    allp = list(cx.params)
    for n, t in closure:
        cx.vars[n] = t
        allp.append(("v_" + n, COQTY[t]))
    stmts = list(stmts)
    if ret_var is not None:
        need(not any(isinstance(n, ast.Return) for s in stmts for n in ast.walk(s)), f"{coq_name}: return inside the fragment")
        stmts.append(ast.parse(f"return {ret_var}").body[0])
    need(not any(isinstance(n, (ast.FunctionDef, ast.Lambda, ast.While, ast.Try, ast.With, ast.Global, ast.Nonlocal, ast.Delete)) for s in stmts for n in ast.walk(s)),
         f"{coq_name}: nested def / while / try / with / del")
    body = tr_block(cx, stmts, None, True)
    binder = " ".join(f"({p} : {t})" for p, t in allp)
    text = "".join(t + "\n" for t in cx.loops) + f"(* {src_desc} *)\nDefinition {coq_name} {binder} : res ({COQTY[cx.ret]}) :=\n  {body}.\n"
    return text


# ------------------------------------------------------------------------------------------------
def units_insns2():
    tree, _ = parse("pdpy11/insns.py")
    ci = locate(tree, ["Instruction", "compile_insn"], "insns.py")
    go = locate(tree, ["Instruction", "compile_insn", "get_opcode"], "insns.py")
    need(plain_params(go, "get_opcode") == [], "get_opcode takes parameters")
    k = ci.body.index(go)
    # the closure variables are not rebound after the def: only the final return follows
    need(k == len(ci.body) - 2, "Instruction.compile_insn: `def get_opcode` is expected to be followed by the final return only")
    match_hole(ci.body[-1], P("return SizedDeferred[bytes](2, __HOLE__) + operands_encoding"), "Instruction.compile_insn final return")
    need(isinstance(ci.body[-1].value.left.args[1], ast.Name) and ci.body[-1].value.left.args[1].id == "get_opcode", "Instruction.compile_insn: get_opcode is not what is deferred")
    # indexes_of_char = {} ; for i, char in enumerate(self.opcode_pattern): ...   directly before the def
    need(k >= 2 and isinstance(ci.body[k - 1], ast.For) and isinstance(ci.body[k - 2], ast.Assign), "Instruction.compile_insn: `indexes_of_char = {}` + loop expected before def get_opcode")
    frag = ci.body[k - 2:k]
    need(len(frag[0].targets) == 1 and isinstance(frag[0].targets[0], ast.Name) and frag[0].targets[0].id == "indexes_of_char",
         "Instruction.compile_insn: the statement before the loop is expected to bind indexes_of_char")
    # nothing between the operand loop (which builds `replacements`, pinned by gen_pure 1d) and this fragment rebinds them
    for s in ci.body[:k - 2]:
        need("indexes_of_char" not in assigned_names([s]), "Instruction.compile_insn: indexes_of_char is bound earlier")
    out = [gen_loop_function("g_indexes_of_char", "pdpy11/insns.py Instruction.compile_insn: indexes_of_char = {} and the loop filling it; then its value",
                             frag, [("pattern", STR)], {"self.opcode_pattern": "pattern"}, ret_var="indexes_of_char")]
    out.append(gen_loop_function("g_get_opcode", "pdpy11/insns.py Instruction.compile_insn: def get_opcode()", go.body,
                                 [("pattern", STR)], {"self.opcode_pattern": "pattern"},
                                 closure=[("replacements", LREPL), ("indexes_of_char", DICT)]))
    return out


GROUP_HEAD = """From Verif Require Import Base.Res Base.Bytes Gen.GenPure2.
Open Scope list_scope.
Open Scope Z_scope.
Open Scope bool_scope.

(* translated from the source: every Definition / Fixpoint below is regenerated on each run *)
"""


def gen_pure2():
    """the constant prelude (no source is read)"""
    return {"GenPure2.v": HEADER.format(src="(constant text) by tools/gens/gen_pure2.py") + PRELUDE}


def gen_pure2_insns():
    return {"GenPure2Insns.v": HEADER.format(src="pdpy11/insns.py by tools/gens/gen_pure2.py") + GROUP_HEAD + "\n".join(units_insns2())}


gen_pure2.outputs = ["GenPure2.v"]
gen_pure2_insns.outputs = ["GenPure2Insns.v"]
GENERATORS = [gen_pure2, gen_pure2_insns]
