"""Translator plug-in for pdpy11/insns.py (C01, C04).

Emits Gen/GenInsnConst.v (REGISTER_NAMES) and *pins the source shape* of the pieces of insns.py that
Model/Insns.v mirrors by hand: the inner fn of OffsetOperandStub.encode, the inner fn of
ImmediateOperandStub.encode, the two relative-mode returns of RegisterModeOperandStub.encode,
with_mode, and compile_insn's operand loop / indexes_of_char loop / get_opcode.  Message texts are
not pinned (report calls are reduced to their identifier); everything else is compared as an AST.
An edit there aborts the translator: the properties that import GenInsnConst then report a broken
obligation and run their search on the real code."""
import ast

from translate import (parse, need, find_assign, find_def, find_class, const_str, const_int,
                       dump_eq, coq_string, HEADER)


class _StripReports(ast.NodeTransformer):
    """reports.error("id", <spans...>) -> reports.error("id")"""

    def visit_Call(self, node):
        self.generic_visit(node)
        f = node.func
        if (isinstance(f, ast.Attribute) and isinstance(f.value, ast.Name) and f.value.id == "reports"
                and f.attr in ("error", "warning", "critical") and node.args):
            return ast.Call(func=f, args=[node.args[0]], keywords=[])
        return node


def _norm(node):
    return ast.fix_missing_locations(_StripReports().visit(ast.parse(ast.unparse(node)).body[0]))


def _pin(node, expected_src, what):
    got = _norm(node)
    exp = _norm(ast.parse(expected_src).body[0])
    need(ast.dump(got) == ast.dump(exp),
         f"{what}: source shape changed.\n  expected: {ast.unparse(exp)[:600]}\n  found   : {ast.unparse(got)[:600]}")


OFFSET_FN = '''
def fn():
    offset = wait(operand.resolve(state) - state['rel_address'])
    error = False
    if self.unsigned and offset > 0:
        if isinstance(operand, Symbol) and isinstance(operand.locate_definition(state), Label):
            definition = operand.locate_definition(state)
            reports.error('branch-out-of-bounds')
        else:
            reports.error('branch-out-of-bounds')
        error = True
    else:
        bitness = len(self.bit_indexes)
        min_offset = -2 ** (bitness + self.unsigned) + 2 * self.unsigned
        max_offset = 0 if self.unsigned else 2 ** bitness - 2
        if not min_offset <= offset <= max_offset:
            reports.error('branch-out-of-bounds')
            error = True
    if offset % 2 == 1:
        reports.error('odd-branch')
        error = True
    if error:
        return 0
    if self.unsigned:
        return -offset // 2
    else:
        return offset // 2
'''

IMM_FN = '''
def fn():
    bitness = len(self.bit_indexes)
    value = wait(operand.resolve(state))
    if self.unsigned and value < 0:
        reports.error('value-out-of-bounds')
        return 0
    else:
        min_value = 0 if self.unsigned else -2 ** bitness + 1
        max_value = 2 ** bitness - 1
        if not min_value <= value <= max_value:
            reports.error('value-out-of-bounds')
            return 0
    return value % 2 ** bitness
'''

REL_RETURN = "return (55, SizedDeferred[bytes](2, lambda: struct.pack('<H', wait(operand.resolve(state) - state['rel_address'] - 2) % 2 ** 16)))"
RELDEF_IF = '''
if isinstance(operand, operators.deferred):
    return (63, SizedDeferred[bytes](2, lambda: struct.pack('<H', wait(operand.operand.resolve(state) - state['rel_address'] - 2) % 2 ** 16)))
'''
WITH_MODE = '''
def with_mode(mode, register):
    if isinstance(register, BaseDeferred):
        return Deferred[int](lambda: mode | wait(register))
    return mode | register
'''
OPERAND_LOOP = '''
for stub, operand_expr in zip(self.operands, insn.operands):
    opcode_inline_value, operand_encoding = stub.encode(operand_expr, {**state, 'rel_address': state['emit_address'] + 2 + len(operands_encoding)})
    replacements.append((stub, opcode_inline_value))
    operands_encoding += operand_encoding
'''
INDEXES_LOOP = '''
for i, char in enumerate(self.opcode_pattern):
    if char not in indexes_of_char:
        indexes_of_char[char] = []
    indexes_of_char[char].append(i)
'''
GET_OPCODE = '''
def get_opcode():
    opcode_pattern = list(self.opcode_pattern)
    for stub, opcode_inline_value in replacements:
        value = wait(opcode_inline_value)
        for i, index in enumerate(stub.bit_indexes):
            opcode_pattern[indexes_of_char[stub.pattern_char][index]] = str(value >> i & 1)
    str_opcode_pattern = ''.join(opcode_pattern)
    assert str_opcode_pattern.isdigit()
    return struct.pack('<H', int(str_opcode_pattern, 2))
'''


def gen_insn_const():
    tree, _ = parse("pdpy11/insns.py")
    # REGISTER_NAMES
    val = find_assign(tree, "REGISTER_NAMES")
    need(isinstance(val, ast.Dict), "REGISTER_NAMES is not a dict literal")
    rows, seen = [], set()
    for k, v in zip(val.keys, val.values):
        name = const_str(k, "REGISTER_NAMES key")
        num = const_int(v, f"REGISTER_NAMES[{name}]")
        need(name not in seen, f"duplicate register name {name}")
        seen.add(name)
        rows.append(f"({coq_string(name)}, {num})")
    # pinned shapes
    off = find_def(find_def(find_class(tree, "OffsetOperandStub"), "encode"), "fn")
    _pin(off, OFFSET_FN, "OffsetOperandStub.encode.fn")
    imm = find_def(find_def(find_class(tree, "ImmediateOperandStub"), "encode"), "fn")
    _pin(imm, IMM_FN, "ImmediateOperandStub.encode.fn")
    enc = find_def(find_class(tree, "RegisterModeOperandStub"), "encode")
    need(len(enc.body) >= 2, "RegisterModeOperandStub.encode: body too short")
    _pin(enc.body[-1], REL_RETURN, "RegisterModeOperandStub.encode: relative mode (last statement)")
    _pin(enc.body[-2], RELDEF_IF, "RegisterModeOperandStub.encode: relative deferred mode (last but one statement)")
    _pin(find_def(tree, "with_mode"), WITH_MODE, "with_mode")
    ci = find_def(find_class(tree, "Instruction"), "compile_insn")
    loops = [n for n in ci.body if isinstance(n, ast.For)]
    need(len(loops) == 2, f"Instruction.compile_insn: expected 2 for-loops, found {len(loops)}")
    _pin(loops[0], OPERAND_LOOP, "Instruction.compile_insn: operand loop (rel_address)")
    _pin(loops[1], INDEXES_LOOP, "Instruction.compile_insn: indexes_of_char loop")
    _pin(find_def(ci, "get_opcode"), GET_OPCODE, "Instruction.compile_insn.get_opcode")
    out = HEADER.format(src="pdpy11/insns.py")
    out += "Open Scope Z_scope.\n(* REGISTER_NAMES in source order *)\n"
    out += "Definition register_names : list (string * Z) :=\n  [ " + "\n  ; ".join(rows) + " ].\n"
    out += "(* pinned (checked by the translator, modelled by hand in Model/Insns.v): OffsetOperandStub.encode.fn,\n"
    out += "   ImmediateOperandStub.encode.fn, relative / relative-deferred returns, with_mode,\n"
    out += "   compile_insn operand loop, indexes_of_char loop, get_opcode *)\n"
    return {"GenInsnConst.v": out}


gen_insn_const.outputs = ["GenInsnConst.v"]
GENERATORS = [gen_insn_const]
