"""Translator plug-in: the WHOLE body of the `.rad50` directive (pdpy11/metacommands.py def rad50) ->
coq/Gen/GenPure4.v (constant prelude) and coq/Gen/GenPure4Rad50.v (the chunk loop, the character loop with its
try/except, the padding `while`, the grouping loop and the final return).  Props/T_rad50_2.v proves the result EQUAL
to the hand model Model/Rad50.v rad50 (the function the C15 theorems are about).  Fail closed.

Sub-language (anything else -> TranslateAbort); state passing as in gen_pure2.py (a `for` becomes a structural Fixpoint):
  statements   L = [] | x = b"" | x = <int expr> | L.append(<int expr>) | reports.error/warning("id", ...) |
               if <cmp>: <simple statements> (no else) | for chunk in chunks: if isinstance(chunk, types.AngleBracketedChar): A else: B |
               val = get_as_int(state, "..", chunk, chunk.expr, bitness=.., unsigned=.., default=..) (Gen/GenGetAsInt.v get_as_int_raw) |
               string = get_as_str(state, "..", state["insn"], chunk); for char in string: |
               try: if not c.isascii(): raise ValueError(c); val = radix50.TABLE.index(c.upper())  except ValueError: <simple statements> |
               while len(L) % K != 0: L.append(V) | for i in range(0, len(L), K): a, b, .. = L[i:i + K]; x += struct.pack("<H", e) |
               return x (last)
  int expr     literals, locals, + - *;  cmp: >= > <= < == != on int exprs
Reading of Python (trusted; cross-checked by tools/t_check4.py against the real function driven directly):
  * `chunks` (the pinned first statement: string.chunks of a StringConcatenation, else [string]) is a list of chunks; an
    AngleBracketedChar is the integer its expression evaluates to (get_as_int on it is Gen/GenGetAsInt.v get_as_int_raw,
    itself translated from the source); for any other chunk get_as_str returned a str, the list of its code points;
  * reports.error / reports.warning record (kind, identifier) and continue; RecoverableError and every other exception are Crash;
  * in the `try` only ValueError can be raised (the explicit raise, TABLE.index) and `except ValueError` catches it;
  * c.upper() below the guard `if not c.isascii(): raise` is the ASCII upper-casing of one character;
  * `for i in range(0, len(L), K)` with `.. = L[i:i + K]` (i not used otherwise, K >= 1 a literal) visits the consecutive
    groups of K items of L, the last one possibly shorter; unpacking a group of another length is a ValueError;
  * `while len(L) % K != 0: L.append(V)` with a literal K >= 1 ends within K - 1 rounds (fuel K; OutOfFuel otherwise).
"""
import ast

from translate import parse, need, coq_string, HEADER

PRELUDE = r'''From Verif Require Import Base.Res Base.Bytes Gen.GenPure.
Open Scope list_scope.
Open Scope Z_scope.

(* ---- constant text: the meaning of the Python operations the translated body of rad50 uses (see the reading of
   Python in tools/gens/gen_pure4.py; cross-checked by tools/t_check4.py against the real function). *)
(* an operand chunk: <expr> with the integer the expression evaluates to, or a chunk get_as_str gives a str for *)
Inductive chunk4 := Angle4 (n : Z) | Quoted4 (s : list N).
Definition py4_isascii (c : N) : bool := (c <? 128)%N.
(* c.upper() of one ASCII character *)
Definition py4_upper_ascii (c : N) : N := if ((97 <=? c) && (c <=? 122))%N then (c - 32)%N else c.
(* try: <value> except ValueError: every failure of the recognised try body is a ValueError *)
Definition py4_try {A} (r : res A) : option A := match r with Ok v => Some v | _ => None end.
(* while len(L) % k != 0: L.append(v) *)
Fixpoint py4_pad_fuel (fuel : nat) (l : list Z) (k v : Z) : res (list Z) :=
  match fuel with
  | O => OutOfFuel
  | S f => if negb (Z.eqb (Z.modulo (Z.of_nat (length l)) k) 0) then py4_pad_fuel f (l ++ [v]) k v else Ok l
  end.
Definition py4_while_pad (l : list Z) (k v : Z) : res (list Z) := py4_pad_fuel (Z.to_nat k) l k v.
(* the slices L[i:i + k] for i in range(0, len(L), k): consecutive groups of k items, the last possibly shorter *)
Fixpoint py4_groups_acc {A} (k : nat) (cur : list A) (l : list A) : list (list A) :=
  match l with
  | [] => match cur with [] => [] | _ => [cur] end
  | x :: r => let cur' := cur ++ [x] in
              if Nat.eqb (length cur') k then cur' :: py4_groups_acc k [] r else py4_groups_acc k cur' r
  end.
Definition py4_groups {A} (k : Z) (l : list A) : list (list A) := py4_groups_acc (Z.to_nat k) [] l.
'''

ARITH = {ast.Add: "Z.add", ast.Sub: "Z.sub", ast.Mult: "Z.mul"}
CMP = {ast.GtE: "Z.geb", ast.Gt: "Z.gtb", ast.LtE: "Z.leb", ast.Lt: "Z.ltb", ast.Eq: "Z.eqb"}
W = "metacommands.py rad50"


def D(src):
    return ast.dump(ast.parse(src, mode="eval").body)


def DS(src):
    return ast.dump(ast.parse(src).body[0])


def zlit(v):
    return str(v) if v >= 0 else f"({v})"


def int_const(node, what, lo=None):
    need(isinstance(node, ast.Constant) and isinstance(node.value, int) and not isinstance(node.value, bool) and (lo is None or node.value >= lo),
         f"{W}: {what}: an int literal{'' if lo is None else ' >= ' + str(lo)} is expected: {ast.unparse(node)[:50]}")
    return node.value


def ze(node, ints):
    """int expression -> Coq term of type Z"""
    if isinstance(node, ast.Constant):
        return zlit(int_const(node, "constant"))
    if isinstance(node, ast.Name):
        need(node.id in ints, f"{W}: {node.id} is not an int local in scope")
        return "v_" + node.id
    if isinstance(node, ast.BinOp) and type(node.op) in ARITH:
        return f"({ARITH[type(node.op)]} {ze(node.left, ints)} {ze(node.right, ints)})"
    need(False, f"{W}: int expression {ast.unparse(node)[:60]}")


def be(node, ints):
    need(isinstance(node, ast.Compare) and len(node.ops) == 1, f"{W}: condition {ast.unparse(node)[:60]}")
    a, b = ze(node.left, ints), ze(node.comparators[0], ints)
    if isinstance(node.ops[0], ast.NotEq):
        return f"(negb (Z.eqb {a} {b}))"
    need(type(node.ops[0]) in CMP, f"{W}: comparison operator in {ast.unparse(node)[:60]}")
    return f"({CMP[type(node.ops[0])]} {a} {b})"


def report_call(s):
    if not (isinstance(s, ast.Expr) and isinstance(s.value, ast.Call) and isinstance(s.value.func, ast.Attribute) and ast.dump(s.value.func.value) == D("reports")
            and s.value.func.attr in ("error", "warning")):
        return None
    c = s.value
    need(len(c.args) >= 2 and not c.keywords and isinstance(c.args[0], ast.Constant) and isinstance(c.args[0].value, str), f"{W}: reports.{c.func.attr}(\"id\", ...) expected: {ast.unparse(s)[:60]}")
    return c.func.attr, c.args[0].value


def simple(stmts, ints, lst):
    """report calls, x = <int expr>, L.append(<int expr>), if <cmp>: <simple> -> list of `let ... in` lines; `ints` is updated"""
    out = []
    for s in stmts:
        src = ast.unparse(s)[:70]
        rc = report_call(s)
        if rc is not None:
            out.append(f"let v_reports := v_reports ++ [({coq_string(rc[0])}, {coq_string(rc[1])})] in")
        elif isinstance(s, ast.Assign) and len(s.targets) == 1 and isinstance(s.targets[0], ast.Name):
            n = s.targets[0].id
            need(n != lst and n != "reports", f"{W}: {n} is rebound: {src}")
            t = ze(s.value, ints)
            ints.add(n)
            out.append(f"let v_{n} := {t} in")
        elif isinstance(s, ast.Expr) and isinstance(s.value, ast.Call) and isinstance(s.value.func, ast.Attribute) and s.value.func.attr == "append":
            c = s.value
            need(isinstance(c.func.value, ast.Name) and c.func.value.id == lst and len(c.args) == 1 and not c.keywords, f"{W}: only {lst}.append(e): {src}")
            out.append(f"let v_{lst} := v_{lst} ++ [{ze(c.args[0], ints)}] in")
        elif isinstance(s, ast.If):
            need(not s.orelse, f"{W}: if/else: {src}")
            c = be(s.test, ints)
            inner = set(ints)
            body = simple(s.body, inner, lst)
            need(inner == ints, f"{W}: an `if` body introduces the names {sorted(inner - ints)}")
            tup = "(" + ", ".join(["v_reports", "v_" + lst] + ["v_" + n for n in sorted(ints)]) + ")"
            out.append(f"let '{tup} := if {c} then ({' '.join(body)} {tup}) else {tup} in")
        else:
            need(False, f"{W}: statement shape {src}")
    return out


def kw_const(call, name):
    k = [x for x in call.keywords if x.arg == name]
    need(len(k) == 1 and isinstance(k[0].value, ast.Constant), f"{W}: get_as_int keyword {name} must be a literal")
    return k[0].value.value


def units_rad50():
    tree, _ = parse("pdpy11/metacommands.py")
    fns = [n for n in tree.body if isinstance(n, ast.FunctionDef) and n.name == "rad50"]
    need(len(fns) == 1, f"{W}: exactly one top-level def rad50 expected")
    fn = fns[0]
    a = fn.args
    need([x.arg for x in a.args] == ["state", "string"] and not a.vararg and not a.kwarg and not a.kwonlyargs and not a.defaults and not a.posonlyargs, f"{W}: (state, string) expected")
    need(not any(isinstance(n, (ast.FunctionDef, ast.Lambda, ast.With, ast.Global, ast.Nonlocal, ast.Delete, ast.Break, ast.Continue, ast.Yield, ast.Await)) for n in ast.walk(fn) if n is not fn),
         f"{W}: nested def / lambda / with / break / continue")
    body = list(fn.body)
    need(len(body) == 7, f"{W}: 7 top-level statements expected, found {len(body)}")
    # 0: the operand as a list of chunks
    need(ast.dump(body[0]) == DS("if isinstance(string, types.StringConcatenation):\n    chunks = string.chunks\nelse:\n    chunks = [string]"), f"{W}: the first statement is expected to bind `chunks`")
    # 1: L = []
    s = body[1]
    need(isinstance(s, ast.Assign) and len(s.targets) == 1 and isinstance(s.targets[0], ast.Name) and isinstance(s.value, ast.List) and not s.value.elts, f"{W}: `characters = []` expected")
    L = s.targets[0].id
    # 2: the chunk loop
    lp = body[2]
    need(isinstance(lp, ast.For) and not lp.orelse and isinstance(lp.target, ast.Name) and ast.dump(lp.iter) == D("chunks") and len(lp.body) == 1 and isinstance(lp.body[0], ast.If), f"{W}: `for chunk in chunks: if ...: else:` expected")
    ch = lp.target.id
    br = lp.body[0]
    need(ast.dump(br.test) == D(f"isinstance({ch}, types.AngleBracketedChar)") and br.orelse, f"{W}: `if isinstance({ch}, types.AngleBracketedChar):` with an else expected")
    # 2A: the <n> branch
    A = list(br.body)
    need(A and isinstance(A[0], ast.Assign) and len(A[0].targets) == 1 and isinstance(A[0].targets[0], ast.Name) and isinstance(A[0].value, ast.Call), f"{W}: `val = get_as_int(...)` expected first in the <n> branch")
    val, call = A[0].targets[0].id, A[0].value
    need(ast.dump(call.func) == D("get_as_int") and len(call.args) == 4 and ast.dump(call.args[0]) == D("state") and isinstance(call.args[1], ast.Constant) and isinstance(call.args[1].value, str)
         and ast.dump(call.args[2]) == D(ch) and ast.dump(call.args[3]) == D(f"{ch}.expr") and sorted(k.arg for k in call.keywords) == ["bitness", "default", "unsigned"],
         f"{W}: get_as_int(state, \"..\", {ch}, {ch}.expr, bitness=, unsigned=, default=) expected")
    bit, uns, dft = kw_const(call, "bitness"), kw_const(call, "unsigned"), kw_const(call, "default")
    need((bit is None or (type(bit) is int and bit >= 0)) and type(uns) is bool and (dft is None or type(dft) is int), f"{W}: get_as_int keyword values")
    opt = lambda v: "None" if v is None else f"(Some {zlit(v)})"
    ints = {val}
    a_lines = [f"do p <- match GenGetAsInt.get_as_int_raw {opt(bit)} {'true' if uns else 'false'} {opt(dft)} v_n with",
               "        | GenGetAsInt.GaiRet v => Ok (v_reports, v)",
               "        | GenGetAsInt.GaiErrRet id v => Ok (v_reports ++ [(\"error\"%string, id)], v)",
               "        | GenGetAsInt.GaiErrRaise id => Crash \"RecoverableError\"",
               "        | GenGetAsInt.GaiCrash s => Crash s",
               f"        end; let '(v_reports, v_{val}) := p in"]
    a_lines += simple(A[1:], ints, L)
    need(ints == {val}, f"{W}: the <n> branch binds the names {sorted(ints)}")
    # 2B: the string branch
    B = list(br.orelse)
    need(len(B) == 2 and isinstance(B[0], ast.Assign) and len(B[0].targets) == 1 and isinstance(B[0].targets[0], ast.Name) and isinstance(B[0].value, ast.Call), f"{W}: `string = get_as_str(...)`; `for char in string:` expected in the else branch")
    sv, gc = B[0].targets[0].id, B[0].value
    need(ast.dump(gc.func) == D("get_as_str") and not gc.keywords and len(gc.args) == 4 and ast.dump(gc.args[0]) == D("state") and isinstance(gc.args[1], ast.Constant) and isinstance(gc.args[1].value, str)
         and ast.dump(gc.args[2]) == D('state["insn"]') and ast.dump(gc.args[3]) == D(ch), f"{W}: get_as_str(state, \"..\", state[\"insn\"], {ch}) expected")
    cl = B[1]
    need(isinstance(cl, ast.For) and not cl.orelse and isinstance(cl.target, ast.Name) and ast.dump(cl.iter) == D(sv) and len(cl.body) >= 1 and isinstance(cl.body[0], ast.Try), f"{W}: `for char in {sv}: try: ...` expected")
    c = cl.target.id
    need(c not in (L, val, ch, "reports"), f"{W}: loop target {c} shadows a local")
    tr = cl.body[0]
    need(not tr.orelse and not tr.finalbody and len(tr.handlers) == 1 and tr.handlers[0].name is None and tr.handlers[0].type is not None and ast.dump(tr.handlers[0].type) == D("ValueError"), f"{W}: try / except ValueError (one handler, no else / finally) expected")
    need(len(tr.body) == 2 and ast.dump(tr.body[0]) == DS(f"if not {c}.isascii():\n    raise ValueError({c})"), f"{W}: the try body is expected to begin with `if not {c}.isascii(): raise ValueError({c})`")
    asg = tr.body[1]
    need(isinstance(asg, ast.Assign) and len(asg.targets) == 1 and isinstance(asg.targets[0], ast.Name) and ast.dump(asg.value) == D(f"radix50.TABLE.index({c}.upper())"), f"{W}: `val = radix50.TABLE.index({c}.upper())` expected in the try body")
    cval = asg.targets[0].id
    need(cval not in (L, c, ch, "reports"), f"{W}: {cval} rebinds a local")
    hints = set()
    handler = simple(tr.handlers[0].body, hints, L)
    need(hints == {cval}, f"{W}: the except handler is expected to bind exactly {cval}, it binds {sorted(hints)}")
    need(not any("v_" + L + " :=" in h for h in handler), f"{W}: the except handler changes {L}")
    cints = {cval}
    c_tail = simple(cl.body[1:], cints, L)
    need(cints == {cval}, f"{W}: the character loop binds the names {sorted(cints)}")
    char_loop = (f"(* for {c} in {sv}: try / except ValueError *)\n"
                 f"Fixpoint g_rad50_for_char (v_reports : list (string * string)) (v_{L} : list Z) (l : list N) {{struct l}} : res (list (string * string) * list Z) :=\n"
                 f"  match l with\n  | [] => Ok (v_reports, v_{L})\n  | v_{c} :: rest =>\n"
                 f"      let '(v_reports, v_{cval}) :=\n"
                 f"        match py4_try (if negb (py4_isascii v_{c}) then Crash \"ValueError\" else py_index1 GenPureRad50.TABLE (py4_upper_ascii v_{c}) \"ValueError: TABLE.index\") with\n"
                 f"        | Some v_{cval} => (v_reports, v_{cval})\n"
                 f"        | None => {' '.join(handler)} (v_reports, v_{cval})\n"
                 f"        end in\n"
                 f"      {' '.join(c_tail)}\n      g_rad50_for_char v_reports v_{L} rest\n  end.\n")
    chunk_loop = (f"(* for {ch} in chunks *)\n"
                  f"Fixpoint g_rad50_for_chunk (v_reports : list (string * string)) (v_{L} : list Z) (l : list chunk4) {{struct l}} : res (list (string * string) * list Z) :=\n"
                  f"  match l with\n  | [] => Ok (v_reports, v_{L})\n"
                  f"  | Angle4 v_n :: rest =>\n      " + "\n      ".join(a_lines) + f"\n      g_rad50_for_chunk v_reports v_{L} rest\n"
                  f"  | Quoted4 v_{sv} :: rest =>\n      do p <- g_rad50_for_char v_reports v_{L} v_{sv};\n      let '(v_reports, v_{L}) := p in\n      g_rad50_for_chunk v_reports v_{L} rest\n  end.\n")
    # 3: the padding loop
    w = body[3]
    need(isinstance(w, ast.While) and not w.orelse and len(w.body) == 1 and isinstance(w.test, ast.Compare) and len(w.test.ops) == 1 and isinstance(w.test.ops[0], ast.NotEq)
         and isinstance(w.test.left, ast.BinOp) and isinstance(w.test.left.op, ast.Mod) and ast.dump(w.test.left.left) == D(f"len({L})") and int_const(w.test.comparators[0], "while test") == 0,
         f"{W}: `while len({L}) % K != 0:` expected")
    K = int_const(w.test.left.right, "while modulus", 1)
    ap = w.body[0]
    need(isinstance(ap, ast.Expr) and isinstance(ap.value, ast.Call) and ast.dump(ap.value.func) == D(f"{L}.append") and len(ap.value.args) == 1 and not ap.value.keywords, f"{W}: `{L}.append(V)` expected in the while body")
    V = int_const(ap.value.args[0], "padding value")
    # 4: result = b""
    s = body[4]
    need(isinstance(s, ast.Assign) and len(s.targets) == 1 and isinstance(s.targets[0], ast.Name) and isinstance(s.value, ast.Constant) and s.value.value == b"", f"{W}: `result = b\"\"` expected")
    R = s.targets[0].id
    need(R not in (L, "reports"), f"{W}: {R} rebinds a local")
    # 5: the grouping loop
    g = body[5]
    need(isinstance(g, ast.For) and not g.orelse and isinstance(g.target, ast.Name) and len(g.body) == 2 and isinstance(g.iter, ast.Call) and ast.dump(g.iter.func) == D("range") and len(g.iter.args) == 3 and not g.iter.keywords
         and int_const(g.iter.args[0], "range start") == 0 and ast.dump(g.iter.args[1]) == D(f"len({L})"), f"{W}: `for i in range(0, len({L}), K):` with two statements expected")
    i, K2 = g.target.id, int_const(g.iter.args[2], "range step", 1)
    un = g.body[0]
    need(isinstance(un, ast.Assign) and len(un.targets) == 1 and isinstance(un.targets[0], ast.Tuple) and all(isinstance(e, ast.Name) for e in un.targets[0].elts)
         and ast.dump(un.value) == D(f"{L}[{i}:{i} + {K2}]"), f"{W}: `a, b, .. = {L}[{i}:{i} + {K2}]` expected")
    names = [e.id for e in un.targets[0].elts]
    need(len(set(names)) == len(names) and not set(names) & {L, R, i, "reports"}, f"{W}: unpack targets {names}")
    need(sum(1 for n in ast.walk(g) if isinstance(n, ast.Name) and n.id == i) == 3, f"{W}: the loop counter {i} is used other than in the slice")
    au = g.body[1]
    need(isinstance(au, ast.AugAssign) and isinstance(au.op, ast.Add) and ast.dump(au.target) == ast.dump(ast.Name(id=R, ctx=ast.Store())) and isinstance(au.value, ast.Call) and ast.dump(au.value.func) == D("struct.pack")
         and len(au.value.args) == 2 and not au.value.keywords and isinstance(au.value.args[0], ast.Constant) and au.value.args[0].value == "<H", f"{W}: `{R} += struct.pack(\"<H\", e)` expected")
    word = ze(au.value.args[1], set(names))
    pat = "[" + "; ".join("v_" + n for n in names) + "]"
    group_loop = (f"(* for {i} in range(0, len({L}), {K2}): {', '.join(names)} = {L}[{i}:{i} + {K2}] *)\n"
                  f"Fixpoint g_rad50_for_group (v_{R} : list Z) (l : list (list Z)) {{struct l}} : res (list Z) :=\n"
                  f"  match l with\n  | [] => Ok v_{R}\n  | {pat} :: rest =>\n      do t <- pack_H {word};\n      let v_{R} := v_{R} ++ t in\n      g_rad50_for_group v_{R} rest\n"
                  f"  | _ :: rest => Crash \"ValueError: unpack\"\n  end.\n")
    # 6: return result
    need(ast.dump(body[6]) == DS(f"return {R}"), f"{W}: `return {R}` expected last")
    # state / string only as pinned above
    need(sum(1 for n in ast.walk(fn) if isinstance(n, ast.Name) and n.id == "state") == 3, f"{W}: state is used other than as pinned")
    main = (f"(* pdpy11/metacommands.py def rad50(state, string): the whole body; reports in order as (kind, identifier) and the bytes *)\n"
            f"Definition g_rad50_body (chunks : list chunk4) : res (list (string * string) * list Z) :=\n"
            f"  let v_reports := (@nil (string * string)) in\n  let v_{L} := (@nil Z) in\n"
            f"  do p <- g_rad50_for_chunk v_reports v_{L} chunks;\n  let '(v_reports, v_{L}) := p in\n"
            f"  do v_{L} <- py4_while_pad v_{L} {zlit(K)} {zlit(V)};\n  let v_{R} := (@nil Z) in\n"
            f"  do v_{R} <- g_rad50_for_group v_{R} (py4_groups {zlit(K2)} v_{L});\n  Ok (v_reports, v_{R}).\n")
    return [char_loop, chunk_loop, group_loop, main]


HEAD = """From Verif Require Import Base.Res Base.Bytes Gen.GenPure Gen.GenPureRad50 Gen.GenPure4.
From Verif Require Gen.GenGetAsInt.
Open Scope list_scope.
Open Scope Z_scope.
Open Scope bool_scope.

(* translated from the source: every Definition / Fixpoint below is regenerated on each run *)
"""


def gen_pure4():
    """the constant prelude (no source is read)"""
    return {"GenPure4.v": HEADER.format(src="(constant text) by tools/gens/gen_pure4.py") + PRELUDE}


def gen_pure4_rad50():
    return {"GenPure4Rad50.v": HEADER.format(src="pdpy11/metacommands.py (rad50) by tools/gens/gen_pure4.py") + HEAD + "\n".join(units_rad50())}


gen_pure4.outputs = ["GenPure4.v"]
gen_pure4_rad50.outputs = ["GenPure4Rad50.v"]
GENERATORS = [gen_pure4, gen_pure4_rad50]
