"""Translator plug-in for C13: pdpy11/bk_wav.py + pdpy11/formats.py -> coq/Gen/GenBkWav.v

Fail closed: every function of the two modules is either translated from its `ast` or pinned to
the one shape the hand model (Model/BkWav.v, Model/Formats.v) mirrors; anything else aborts.

What is *translated* (changes in the source flow into the Coq text):
  * the level dictionary of translate_audio_levels;
  * every attribute of Env / TurboEnv, as a run-length expression [(pulse-string, repeat)] --
    `translate_audio_levels("..")`, `E * n`, `E + E`, reference to an earlier attribute -- never expanded;
  * the sample rates;
  * the body of checksum(): `result = <init>` / `while <cond>: result = <step>` / `return result`
    over an integer-expression sub-language;
  * the segment order of encode_as_wav (env attribute / turbo-only attribute / encode_data_bits of a
    struct.pack / encode_data_bits of the code) with the struct format strings and argument lists;
  * the struct format string and the 13 arguments of make_wav_file;
  * the bit selector of encode_data_bits (`[env.A, env.B][<index expr>]`, bit count);
  * the struct format string of formats.bin_.
What is *pinned* (shape compared, abort on any difference): translate_audio_levels' comprehension,
the generator structure of encode_data_bits, raw / bk_wav / bk_turbo_wav / file_format in formats.py.
"""
import ast

from translate import parse, need, find_def, find_class, const_str, const_int, dump_eq, coq_string, HEADER


def zlit(v):
    return f"({v})%Z" if v < 0 else f"{v}%Z"


# ---------------------------------------------------------------------------------------------
# integer expressions (Python int semantics: unbounded; // and % floor, divisor must be a non-zero literal)
def zexpr(node, names):
    if isinstance(node, ast.Constant) and isinstance(node.value, int) and not isinstance(node.value, bool):
        return zlit(node.value)
    if isinstance(node, ast.Name):
        need(node.id in names, f"integer expression: unknown name {node.id}")
        return names[node.id]
    if isinstance(node, ast.UnaryOp) and isinstance(node.op, ast.USub):
        return f"(- {zexpr(node.operand, names)})%Z"
    if isinstance(node, ast.BinOp):
        a, b = zexpr(node.left, names), zexpr(node.right, names)
        op = type(node.op)
        if op is ast.Add:
            return f"({a} + {b})%Z"
        if op is ast.Sub:
            return f"({a} - {b})%Z"
        if op is ast.Mult:
            return f"({a} * {b})%Z"
        if op is ast.BitAnd:
            return f"(Z.land {a} {b})"
        if op is ast.BitOr:
            return f"(Z.lor {a} {b})"
        if op is ast.BitXor:
            return f"(Z.lxor {a} {b})"
        if op in (ast.RShift, ast.LShift):
            # Python raises ValueError on a negative count: only non-negative literals are accepted
            n = const_value(node.right)
            if isinstance(node.right, ast.Name) and node.right.id in NONNEG_NAMES:
                cnt = names[node.right.id]      # a loop variable of range(n): never negative
            else:
                need(n is not None and n >= 0, "shift count must be a non-negative literal expression or a range() variable")
                cnt = zlit(n)
            return f"(Z.shiftr {a} {cnt})" if op is ast.RShift else f"(Z.shiftl {a} {cnt})"
        if op is ast.Pow:
            n = const_value(node.right)
            need(n is not None and n >= 0, "exponent must be a non-negative literal expression")
            return f"({a} ^ {zlit(n)})%Z"
        if op in (ast.Mod, ast.FloorDiv):
            n = const_value(node.right)
            need(n is not None and n != 0, "divisor must be a non-zero literal expression")
            # Coq's Z.modulo / Z.div are the floor operations (sign of the divisor), as in Python
            return f"({a} mod {b})%Z" if op is ast.Mod else f"({a} / {b})%Z"
    need(False, f"integer expression outside the translated sub-language: {ast.unparse(node)[:120]}")


NONNEG_NAMES = {"i"}   # `for i in range(<n>)` in encode_data_bits (checked there)


def const_value(node):
    """value of a literal-only int expression, or None"""
    try:
        if isinstance(node, ast.Constant) and isinstance(node.value, int) and not isinstance(node.value, bool):
            return node.value
        if isinstance(node, ast.UnaryOp) and isinstance(node.op, ast.USub):
            v = const_value(node.operand)
            return None if v is None else -v
        if isinstance(node, ast.BinOp):
            a, b = const_value(node.left), const_value(node.right)
            if a is None or b is None:
                return None
            op = type(node.op)
            if op is ast.Add:
                return a + b
            if op is ast.Sub:
                return a - b
            if op is ast.Mult:
                return a * b
            if op is ast.Pow and 0 <= b <= 64:
                return a ** b
    except Exception:
        return None
    return None


def zcond(node, names):
    need(isinstance(node, ast.Compare) and len(node.ops) == 1, f"condition outside the sub-language: {ast.unparse(node)[:120]}")
    a, b = zexpr(node.left, names), zexpr(node.comparators[0], names)
    op = type(node.ops[0])
    table = {ast.GtE: ">=?", ast.Gt: ">?", ast.LtE: "<=?", ast.Lt: "<?", ast.Eq: "=?"}
    if op in table:
        return f"({a} {table[op]} {b})%Z"
    if op is ast.NotEq:
        return f"(negb ({a} =? {b})%Z)"
    need(False, f"comparison outside the sub-language: {ast.unparse(node)[:120]}")


# ---------------------------------------------------------------------------------------------
# Env / TurboEnv
def rl_expr(node, attrs, what):
    """-> list of (pulse string, repeat)"""
    if isinstance(node, ast.Call):
        need(isinstance(node.func, ast.Name) and node.func.id == "translate_audio_levels" and len(node.args) == 1
             and not node.keywords, f"{what}: only translate_audio_levels(<literal>) calls are translated")
        return [(const_str(node.args[0], what), 1)]
    if isinstance(node, ast.Name):
        need(node.id in attrs, f"{what}: reference to unknown attribute {node.id}")
        return list(attrs[node.id])
    if isinstance(node, ast.BinOp) and isinstance(node.op, ast.Add):
        return rl_expr(node.left, attrs, what) + rl_expr(node.right, attrs, what)
    if isinstance(node, ast.BinOp) and isinstance(node.op, ast.Mult):
        if isinstance(node.right, ast.Constant):
            e, n = rl_expr(node.left, attrs, what), const_int(node.right, what)
        else:
            e, n = rl_expr(node.right, attrs, what), const_int(node.left, what)
        need(len(e) == 1, f"{what}: repetition of a multi-segment expression is not translated")
        # bytes * n with n <= 0 is b""
        return [(e[0][0], e[0][1] * max(n, 0))]
    need(False, f"{what}: expression outside the run-length sub-language: {ast.unparse(node)[:120]}")


def env_class(tree, name):
    cls = find_class(tree, name)
    need(not cls.bases and not cls.keywords and not cls.decorator_list, f"class {name}: bases/decorators are not translated")
    attrs, rate = {}, None
    order = []
    for st in cls.body:
        need(isinstance(st, ast.Assign) and len(st.targets) == 1 and isinstance(st.targets[0], ast.Name),
             f"class {name}: only simple attribute assignments are translated, found {ast.unparse(st)[:80]}")
        an = st.targets[0].id
        need(an not in attrs and not (an == "sample_rate" and rate is not None), f"class {name}: attribute {an} assigned twice")
        if an == "sample_rate":
            rate = const_int(st.value, f"{name}.sample_rate")
        else:
            attrs[an] = rl_expr(st.value, attrs, f"{name}.{an}")
            order.append(an)
    need(rate is not None, f"class {name}: no sample_rate")
    return [(a, attrs[a]) for a in order], rate


def coq_rl(e):
    return "[" + "; ".join(f"({coq_string(s)}, {n}%N)" for s, n in e) + "]"


# ---------------------------------------------------------------------------------------------
# struct.pack arguments
def pack_call(node, what):
    """struct.pack(<fmt literal>, args...) -> (fmt, [arg nodes])"""
    need(isinstance(node, ast.Call) and isinstance(node.func, ast.Attribute) and node.func.attr == "pack"
         and isinstance(node.func.value, ast.Name) and node.func.value.id == "struct" and not node.keywords and node.args,
         f"{what}: expected struct.pack(...), found {ast.unparse(node)[:100]}")
    return const_str(node.args[0], what + " format"), node.args[1:]


def parg(node, what, allowed):
    src = ast.unparse(node)
    if isinstance(node, ast.Constant) and isinstance(node.value, bytes):
        need(all(32 <= b < 127 for b in node.value), f"{what}: non-printable bytes literal")
        return f"ABytes {coq_string(node.value.decode('ascii'))}"
    if isinstance(node, ast.Constant) and isinstance(node.value, int) and not isinstance(node.value, bool):
        return f"AConst {zlit(node.value)}"
    fixed = {"base": "ABase", "len(code)": "ALenCode", "bk_filename": "AName", "checksum(code)": "AChecksum",
             "sample_rate": "ARate", "len(data)": "ALenDataPlus 0%Z"}
    if src in fixed and fixed[src].split()[0] in allowed:
        return fixed[src]
    if isinstance(node, ast.BinOp) and isinstance(node.op, ast.Add) and "ALenDataPlus" in allowed:
        l, r = node.left, node.right
        if ast.unparse(r) == "len(data)" and const_value(l) is not None:
            return f"ALenDataPlus {zlit(const_value(l))}"
        if ast.unparse(l) == "len(data)" and const_value(r) is not None:
            return f"ALenDataPlus {zlit(const_value(r))}"
    need(False, f"{what}: struct.pack argument outside the translated forms: {src[:100]}")


def flatten_add(node):
    if isinstance(node, ast.BinOp) and isinstance(node.op, ast.Add):
        return flatten_add(node.left) + flatten_add(node.right)
    return [node]


def gen_bkwav():
    tree, _ = parse("pdpy11/bk_wav.py")
    # the module consists of exactly these top-level items
    kinds = [(type(n).__name__, getattr(n, "name", None)) for n in tree.body]
    need(kinds == [("Import", None), ("FunctionDef", "translate_audio_levels"), ("ClassDef", "Env"), ("ClassDef", "TurboEnv"),
                   ("FunctionDef", "checksum"), ("FunctionDef", "encode_as_wav"), ("FunctionDef", "encode_data_bits"),
                   ("FunctionDef", "make_wav_file")],
         f"bk_wav.py: unexpected top-level structure {kinds}")
    dump_eq(tree.body[0], "import struct", "bk_wav.py import")

    # ---- translate_audio_levels
    f = find_def(tree, "translate_audio_levels")
    need(len(f.body) == 1 and isinstance(f.body[0], ast.Return), "translate_audio_levels: expected a single return")
    call = f.body[0].value
    need(isinstance(call, ast.Call) and isinstance(call.func, ast.Name) and call.func.id == "bytes" and len(call.args) == 1
         and isinstance(call.args[0], ast.GeneratorExp), "translate_audio_levels: expected bytes(<generator>)")
    gen = call.args[0]
    need(isinstance(gen.elt, ast.Subscript) and isinstance(gen.elt.value, ast.Dict), "translate_audio_levels: expected {..}[char]")
    d = gen.elt.value
    pinned = ast.parse("def translate_audio_levels(string):\n    return bytes(D[char] for char in string)").body[0]
    pinned.body[0].value.args[0].elt.value = d
    need(ast.dump(pinned) == ast.dump(f), "translate_audio_levels: source shape changed: " + ast.unparse(f)[:200])
    levels = []
    for k, v in zip(d.keys, d.values):
        ks = const_str(k, "level key")
        need(len(ks) == 1, "level key must be one character")
        vi = const_int(v, "level value")
        need(0 <= vi < 256, "level value outside 0..255 (bytes() would raise)")
        need(ks not in [x for x, _ in levels], "duplicate level key")
        levels.append((ks, vi))

    # ---- Env, TurboEnv
    env_attrs, env_rate = env_class(tree, "Env")
    turbo_attrs, turbo_rate = env_class(tree, "TurboEnv")

    # ---- checksum
    f = find_def(tree, "checksum")
    need([a.arg for a in f.args.args] == ["code"] and not f.args.defaults and not f.args.vararg and not f.args.kwarg and not f.decorator_list,
         "checksum: signature changed")
    body = [s for s in f.body if not (isinstance(s, ast.Expr) and isinstance(s.value, ast.Constant))]
    need(len(body) == 3, "checksum: expected `result = ..` / `while ..` / `return result`")
    s0, s1, s2 = body
    need(isinstance(s0, ast.Assign) and len(s0.targets) == 1 and isinstance(s0.targets[0], ast.Name), "checksum: first statement")
    var = s0.targets[0].id
    need(ast.unparse(s0.value) == "sum(code)", "checksum: initial value must be sum(code)")
    need(isinstance(s1, ast.While) and not s1.orelse and len(s1.body) == 1 and isinstance(s1.body[0], ast.Assign)
         and len(s1.body[0].targets) == 1 and isinstance(s1.body[0].targets[0], ast.Name) and s1.body[0].targets[0].id == var,
         "checksum: expected `while <cond>: result = <expr>`")
    need(isinstance(s2, ast.Return) and isinstance(s2.value, ast.Name) and s2.value.id == var, "checksum: expected `return result`")
    cond = zcond(s1.test, {var: "result"})
    step = zexpr(s1.body[0].value, {var: "result"})

    # ---- encode_as_wav
    f = find_def(tree, "encode_as_wav")
    need(ast.unparse(f.args) == "base, code, bk_filename, turbo=False" and not f.decorator_list, "encode_as_wav: signature changed")
    need(len(f.body) == 2, "encode_as_wav: expected two statements")
    dump_eq(f.body[0], "env = TurboEnv if turbo else Env", "encode_as_wav: environment selection")
    ret = f.body[1]
    need(isinstance(ret, ast.Return) and isinstance(ret.value, ast.Call) and ast.unparse(ret.value.func) == "make_wav_file"
         and len(ret.value.args) == 2 and not ret.value.keywords, "encode_as_wav: expected return make_wav_file(<data>, <rate>)")
    need(ast.unparse(ret.value.args[1]) == "env.sample_rate", "encode_as_wav: second argument must be env.sample_rate")
    segs = []
    all_attrs = lambda a: a in dict(env_attrs) and a in dict(turbo_attrs)
    for term in flatten_add(ret.value.args[0]):
        src = ast.unparse(term)
        if isinstance(term, ast.Attribute) and isinstance(term.value, ast.Name) and term.value.id == "env":
            need(all_attrs(term.attr), f"encode_as_wav: env.{term.attr} is not an attribute of both Env and TurboEnv")
            segs.append(f"SEnv {coq_string(term.attr)}")
        elif isinstance(term, ast.IfExp):
            need(ast.unparse(term.test) == "turbo" and isinstance(term.orelse, ast.Constant) and term.orelse.value == b""
                 and isinstance(term.body, ast.Attribute) and ast.unparse(term.body.value) == "env",
                 f"encode_as_wav: conditional segment outside the translated form: {src[:100]}")
            need(all_attrs(term.body.attr), f"encode_as_wav: env.{term.body.attr} unknown")
            segs.append(f"STurboOnly {coq_string(term.body.attr)}")
        elif isinstance(term, ast.Call) and ast.unparse(term.func) == "encode_data_bits":
            need(len(term.args) == 2 and not term.keywords and ast.unparse(term.args[1]) == "env", "encode_as_wav: encode_data_bits(<data>, env)")
            if ast.unparse(term.args[0]) == "code":
                segs.append("SBitsCode")
            else:
                fmt, args = pack_call(term.args[0], "encode_as_wav")
                pa = [parg(a, "encode_as_wav", {"ABase", "ALenCode", "AName", "AChecksum"}) for a in args]
                segs.append(f"SBitsPack {coq_string(fmt)} [{'; '.join(pa)}]")
        else:
            need(False, f"encode_as_wav: segment outside the translated forms: {src[:100]}")

    # ---- encode_data_bits
    f = find_def(tree, "encode_data_bits")
    need(ast.unparse(f.args) == "data, env" and len(f.body) == 1 and isinstance(f.body[0], ast.Return), "encode_data_bits: shape")
    call = f.body[0].value
    need(isinstance(call, ast.Call) and ast.unparse(call.func) == "b''.join" and len(call.args) == 1 and isinstance(call.args[0], ast.GeneratorExp),
         "encode_data_bits: expected b''.join(<generator>)")
    gen = call.args[0]
    need(len(gen.generators) == 2 and all(not g.ifs and not g.is_async for g in gen.generators)
         and ast.unparse(gen.generators[0].target) == "byte" and ast.unparse(gen.generators[0].iter) == "data"
         and ast.unparse(gen.generators[1].target) == "i" and isinstance(gen.generators[1].iter, ast.Call)
         and ast.unparse(gen.generators[1].iter.func) == "range" and len(gen.generators[1].iter.args) == 1,
         "encode_data_bits: expected `for byte in data for i in range(<n>)`")
    nbits = const_int(gen.generators[1].iter.args[0], "encode_data_bits bit count")
    need(nbits >= 0, "negative bit count")
    elt = gen.elt
    need(isinstance(elt, ast.Subscript) and isinstance(elt.value, ast.List)
         and all(isinstance(e, ast.Attribute) and ast.unparse(e.value) == "env" for e in elt.value.elts),
         "encode_data_bits: expected [env.A, env.B][<index>]")
    units = [e.attr for e in elt.value.elts]
    need(all(all_attrs(u) for u in units), "encode_data_bits: unknown unit attribute")
    bit_index = zexpr(elt.slice, {"byte": "byte", "i": "i"})

    # ---- make_wav_file
    f = find_def(tree, "make_wav_file")
    need(ast.unparse(f.args) == "data, sample_rate" and len(f.body) == 1 and isinstance(f.body[0], ast.Return), "make_wav_file: shape")
    e = f.body[0].value
    need(isinstance(e, ast.BinOp) and isinstance(e.op, ast.Add) and ast.unparse(e.right) == "data", "make_wav_file: expected struct.pack(...) + data")
    wfmt, wargs = pack_call(e.left, "make_wav_file")
    wpa = [parg(a, "make_wav_file", {"ARate", "ALenDataPlus"}) for a in wargs]

    # ---- formats.py
    ftree, _ = parse("pdpy11/formats.py")
    kinds = [(type(n).__name__, getattr(n, "name", None)) for n in ftree.body]
    need(kinds == [("Import", None), ("ImportFrom", None), ("Assign", None), ("FunctionDef", "file_format"), ("FunctionDef", "bin_"),
                   ("FunctionDef", "raw"), ("FunctionDef", "bk_wav"), ("FunctionDef", "bk_turbo_wav")],
         f"formats.py: unexpected top-level structure {kinds}")
    dump_eq(ftree.body[0], "import struct", "formats.py import")
    dump_eq(ftree.body[1], "from .bk_wav import encode_as_wav", "formats.py import")
    dump_eq(ftree.body[2], "file_formats = {}", "formats.py registry")
    dump_eq(ftree.body[3], 'def file_format(fn):\n    name = fn.__name__.rstrip("_")\n    file_formats[name] = fn', "formats.file_format")
    dump_eq(ftree.body[5], "@file_format\ndef raw(_base, code):\n    return code", "formats.raw")
    dump_eq(ftree.body[6], "@file_format\ndef bk_wav(base, code, bk_filename):\n    return encode_as_wav(base, code, bk_filename)", "formats.bk_wav")
    dump_eq(ftree.body[7], "@file_format\ndef bk_turbo_wav(base, code, bk_filename):\n    return encode_as_wav(base, code, bk_filename, turbo=True)", "formats.bk_turbo_wav")
    b = ftree.body[4]
    need(ast.unparse(b.args) == "base, code" and [ast.unparse(d) for d in b.decorator_list] == ["file_format"]
         and len(b.body) == 1 and isinstance(b.body[0], ast.Return), "formats.bin_: shape")
    e = b.body[0].value
    need(isinstance(e, ast.BinOp) and isinstance(e.op, ast.Add) and ast.unparse(e.right) == "code", "formats.bin_: expected struct.pack(...) + code")
    bfmt, bargs = pack_call(e.left, "formats.bin_")
    bpa = [parg(a, "formats.bin_", {"ABase", "ALenCode"}) for a in bargs]

    # ---- output
    out = HEADER.format(src="pdpy11/bk_wav.py, pdpy11/formats.py")
    out += "Open Scope Z_scope.\n\n"
    out += "(* translate_audio_levels: the level dictionary; a character outside it is a KeyError *)\n"
    out += "Definition level_map : list (ascii * Z) :=\n  [" + "; ".join(f'({coq_string(k)}%char, {zlit(v)})' for k, v in levels) + "].\n\n"
    out += "(* run-length expression: the concatenation of translate_audio_levels(s) * n *)\nDefinition rlexpr := list (string * N).\n\n"
    for nm, attrs, rate in (("env", env_attrs, env_rate), ("turbo", turbo_attrs, turbo_rate)):
        out += f"Definition {nm}_attrs : list (string * rlexpr) :=\n  [ " + "\n  ; ".join(f"({coq_string(a)}, {coq_rl(e)})" for a, e in attrs) + " ].\n"
        out += f"Definition {nm}_sample_rate : Z := {zlit(rate)}.\n\n"
    out += "(* checksum(code): result = sum(code); while cond result: result = step result; return result *)\n"
    out += "Definition checksum_init (code : list Z) : Z := fold_left Z.add code 0%Z.\n"
    out += f"Definition checksum_cond (result : Z) : bool := {cond}.\n"
    out += f"Definition checksum_step (result : Z) : Z := {step}.\n\n"
    out += "(* struct.pack arguments *)\n"
    out += ("Inductive parg := ABase | ALenCode | AName | AChecksum | ARate\n"
            "  | AConst (z : Z) | ABytes (s : string) | ALenDataPlus (k : Z).\n\n")
    out += ("(* the terms of the sum inside encode_as_wav, in source order *)\n"
            "Inductive wseg := SEnv (attr : string) | STurboOnly (attr : string)\n"
            "  | SBitsPack (fmt : string) (args : list parg) | SBitsCode.\n")
    out += "Definition wav_segments : list wseg :=\n  [ " + "\n  ; ".join(segs) + " ].\n\n"
    out += "(* encode_data_bits: for byte in data, for i in range(bits_per_byte): [env.<bit_units>][bit_index byte i] *)\n"
    out += "Definition bit_units : list string := [" + "; ".join(coq_string(u) for u in units) + "].\n"
    out += f"Definition bits_per_byte : nat := {nbits}%nat.\n"
    out += f"Definition bit_index (byte i : Z) : Z := {bit_index}.\n\n"
    out += "(* make_wav_file: struct.pack(wav_header_fmt, *wav_header_args) + data *)\n"
    out += f"Definition wav_header_fmt : string := {coq_string(wfmt)}.\n"
    out += "Definition wav_header_args : list parg :=\n  [" + "; ".join(wpa) + "].\n\n"
    out += "(* formats.bin_: struct.pack(bin_fmt, *bin_args) + code *)\n"
    out += f"Definition bin_fmt : string := {coq_string(bfmt)}.\n"
    out += "Definition bin_args : list parg := [" + "; ".join(bpa) + "].\n"
    return {"GenBkWav.v": out}


gen_bkwav.outputs = ["GenBkWav.v"]
GENERATORS = [gen_bkwav]
