"""Translator plug-in for C06 (reused by C02): pdpy11/metacommand_impl.py + pdpy11/metacommands.py
   -> coq/Gen/GenGetAsInt.v, coq/Gen/GenMeta.v

Fail closed: every construct is either translated from its `ast` or pinned to the one shape the hand
model (Model/Directives.v) mirrors; anything else aborts (TranslateAbort = broken obligation).

Translated (a change in the source flows into the Coq text):
  * get_as_int: the whole if-chain after the isinstance test (conditions over value/bitness/unsigned,
    `X is None` tests as a match on the option, reports.error + raise / return default, the final
    `return value % (2 ** bitness)`), as `get_as_int_raw` and its projection `get_as_int`;
  * every call site of get_as_int in pdpy11/*.py with its constant bitness/unsigned/default keywords
    (the ones the model uses are emitted as named triples; a negative constant bitness aborts);
  * per @metacommand of interest: name (fn.__name__.rstrip("_") with the dot), aliases, raw flag,
    parameter names with their annotation names, varargs, min/max operand counts, the size= lambda
    as a function of the operand count;
  * the type names -> (bitness, unsigned) map, computed with the very string operations pinned in
    Metacommand.compile_insn;
  * the bodies of blkb / blkw / even / odd / align from a small bytes-expression sub-language.
Pinned (shape compared, abort on any difference): Metacommand.__init__, Metacommand.compile_insn,
_metacommand_impl, metacommand, the typing.NewType definitions, the import line of metacommands.py.
Hand-modelled and tied by correspondence only: bodies of byte / word / dword / ascii_impl / ascii_ /
asciz and Compiler.compile_word_list.
"""
import ast
import glob
import os

from translate import parse, need, find_def, find_class, find_assign, const_str, const_int, dump_eq, coq_string, HEADER, REPO

PIN_INIT = r'''
def __init__(self, fn, name, size=None, literal_string_operand=False, raw=False):
    self.fn = fn
    self.size = size
    self.literal_string_operand = literal_string_operand
    self.name = name
    self.raw = raw

    hints = typing.get_type_hints(fn)
    sig = inspect.signature(fn)
    assert list(sig.parameters.keys())[:1] == ["state"]

    self.min_operands = 0
    self.max_operands = 0
    self.takes_code_block = False
    self.operand_info = []

    for param in list(sig.parameters.values())[1:]:
        hint = hints[param.name]
        if typing_get_origin(hint) is typing.Union:
            hint, = [case for case in typing_get_args(hint) if case is not type(None)]
        self.operand_info.append({
            "type": hint.__supertype__ if hasattr(hint, "__supertype__") else hint,
            "hint": hint,
            "name": param.name
        })

        if hint is CodeBlock:
            self.takes_code_block = True
            continue

        if param.kind in (inspect.Parameter.POSITIONAL_ONLY, inspect.Parameter.POSITIONAL_OR_KEYWORD):
            if param.default is inspect.Parameter.empty:
                self.min_operands += 1
            self.max_operands += 1
        if param.kind == inspect.Parameter.VAR_POSITIONAL:
            self.max_operands = float("+inf")

    if literal_string_operand:
        assert 0 <= self.min_operands <= 1 and self.max_operands == 1, "A metacommand with a literal string operand is expected to have exactly one operand (optional or not)"
'''

PIN_COMPILE_INSN = r'''
def compile_insn(self, state, insn):
    insn_operands = insn.operands
    code_block = None

    if self.takes_code_block:
        if insn_operands and isinstance(insn_operands[-1], CodeBlock):
            code_block = insn_operands[-1]
            insn_operands = insn_operands[:-1]
        else:
            reports.error(
                "wrong-meta-operands",
                (insn.ctx_start, insn.ctx_end, f"Metacommand '{insn.name.name}' expects a code block, but it was not passed")
            )
            raise reports.RecoverableError("Code block not passed")

    if self.min_operands == self.max_operands:
        expectation = f"{self.max_operands} operand" + ("s" if self.max_operands >= 2 else "")
    elif self.max_operands == float("+inf"):
        expectation = f"at least {self.min_operands} operand" + ("s" if self.min_operands >= 2 else "")
    else:
        expectation = f"from {self.min_operands} to {self.max_operands} operand" + ("s" if self.max_operands >= 2 else "")

    if insn_operands and isinstance(insn_operands[-1], CodeBlock):
        reports.error(
            "wrong-meta-operands",
            (insn.ctx_start, insn.ctx_end, f"Metacommand '{insn.name.name}' does not take a code block")
        )
        raise reports.RecoverableError("Unexpected code block")

    if len(insn_operands) < self.min_operands:
        reports.error(
            "wrong-meta-operands",
            (insn.ctx_start, insn.ctx_end, f"Too few operands passed to '{insn.name.name}': {len(insn.operands)} passed, {expectation} expected")
        )
        raise reports.RecoverableError("Too few operands")
    elif len(insn_operands) > self.max_operands:
        reports.error(
            "wrong-meta-operands",
            (insn.ctx_start, insn.ctx_end, f"Too many operands passed to '{insn.name.name}': {len(insn.operands)} passed, {expectation} expected")
        )
        raise reports.RecoverableError("Too many operands")

    operands = []
    for operand in insn_operands:
        # Stupid pylint doesn't know that decorators can mutate types
        # pylint: disable=isinstance-second-argument-not-valid-type
        if isinstance(operand, operators.immediate):
            reports.error(
                "excess-hash",
                (operand.ctx_start, operand.ctx_end, f"Unexpected immediate value in '{self.name}' metacommand.\nYou wrote '{operand.text()}', you probably meant '{operand.operand.text()}', proceeding under that assumption"),
                (insn.name.ctx_start, insn.name.ctx_end, "Metacommand started here")
            )
            operands.append(operand.operand)
        else:
            operands.append(operand)

    if code_block is not None:
        operands.append(code_block)

    def fn():
        if self.raw:
            cooked_operands = operands
        else:
            cooked_operands = []

            for i, operand in enumerate(operands):
                operand_info = self.operand_info[min(i, len(self.operand_info) - 1)]
                comment = operand_info["name"].replace("_", " ")

                if operand_info["type"] is str:
                    cooked_operand = get_as_str(state, comment, state["insn"], operand)
                elif operand_info["type"] is int:
                    type_name = operand_info["hint"].__name__
                    unsigned = type_name.startswith("u")
                    bitness_str = type_name.replace("u", "").replace("int", "")
                    bitness = int(bitness_str) if bitness_str else None
                    cooked_operand = get_as_int(state, comment, state["insn"], operand, bitness=bitness, unsigned=unsigned)
                elif operand_info["type"] is CodeBlock:
                    cooked_operand = operand
                else:
                    raise TypeError(f"Invalid operand type {operand_info['type']}")  # pragma: no cover

                cooked_operands.append(cooked_operand)

        try:
            return self.fn(state, *cooked_operands)
        except reports.RecoverableError:
            return b""


    size = self.size(state, *operands) if callable(self.size) else self.size
    if size is None:
        return Deferred[bytes](fn)
    else:
        return SizedDeferred[bytes](size, fn)
'''

PIN_METACOMMAND_IMPL = r'''
def _metacommand_impl(fn, no_dot=False, alias=None, **kwargs):
    name = ("" if no_dot else ".") + fn.__name__.rstrip("_")

    if isinstance(alias, str):
        aliases = [alias]
    elif alias is None:
        aliases = []
    else:
        aliases = alias

    cmd = Metacommand(fn, name, **kwargs)
    for command_name in aliases + [name]:
        metacommands[command_name] = cmd

    # That is not to override globals with the same name, e.g. list
    return __builtins__.get(fn.__name__, None)
'''

PIN_METACOMMAND = r'''
def metacommand(fn=None, **kwargs):
    if fn is None:
        # This looks like a false positive from pylint
        return lambda fn: metacommand(fn, **kwargs)  # pylint: disable=unnecessary-lambda
    else:
        return _metacommand_impl(fn, **kwargs)
'''


PRELUDE = r'''From Verif Require Import Base.Res.
Open Scope Z_scope.

(* ---- Python int / bytes semantics used by the generated code (constant text) ---------------- *)
(* a % b : floor modulo, ZeroDivisionError on b = 0 (Z.modulo is the floor modulo for b <> 0) *)
Definition py_mod (a b : Z) : res Z := if b =? 0 then Crash "ZeroDivisionError" else Ok (a mod b).
(* a ** b for b >= 0 (every call site passes bitness None or a non-negative literal: checked below) *)
Definition py_pow (a b : Z) : Z := a ^ b.
(* a or b on ints *)
Definition py_or (a b : Z) : Z := if a =? 0 then b else a.
(* bytes * n : empty for n <= 0 *)
Definition bytes_mul (bs : list Z) (n : Z) : list Z := concat (repeat bs (Z.to_nat n)).
(* the same operations on possibly-failing sub-expressions, evaluated left to right *)
Definition rz_mod (a b : res Z) : res Z := do x <- a; do y <- b; py_mod x y.
Definition rz_neg (a : res Z) : res Z := do x <- a; Ok (- x).
Definition rz_eqb (a b : res Z) : res bool := do x <- a; do y <- b; Ok (x =? y).
Definition rb_mul (a : res (list Z)) (n : res Z) : res (list Z) := do x <- a; do k <- n; Ok (bytes_mul x k).
Definition rb_if (c : res bool) (a b : res (list Z)) : res (list Z) := do t <- c; if t then a else b.

(* what one call of get_as_int does on an integer value:
   GaiRet v         returns v, nothing reported
   GaiErrRet id v   reports error [id], then returns v (the `default`)
   GaiErrRaise id   reports error [id], then raises RecoverableError
   GaiCrash site    a Python exception that is not a report *)
Inductive gai_out := GaiRet (v : Z) | GaiErrRet (id : string) (v : Z) | GaiErrRaise (id : string) | GaiCrash (site : string).
Definition gai_of_res (r : res Z) : gai_out :=
  match r with Ok v => GaiRet v | Err _ => GaiCrash "unexpected" | Crash s => GaiCrash s | OutOfFuel => GaiCrash "fuel" end.
'''


# ---------------------------------------------------------------------------------------------
# expressions of get_as_int
def zlit(v):
    return f"({v})" if v < 0 else f"{v}"


class Env:
    """name -> (kind, coq term); kinds: Z, optZ, bool"""

    def __init__(self, d):
        self.d = dict(d)

    def bind(self, name, kind, term):
        e = Env(self.d)
        e.d[name] = (kind, term)
        return e

    def get(self, name, what):
        need(name in self.d, f"{what}: unknown name {name}")
        return self.d[name]


def pure_int(node, env, what):
    """integer expression without partial operations -> Coq Z term"""
    if isinstance(node, ast.Constant) and isinstance(node.value, int) and not isinstance(node.value, bool):
        return zlit(node.value)
    if isinstance(node, ast.Name):
        kind, term = env.get(node.id, what)
        need(kind == "Z", f"{what}: {node.id} is not known to be an int here (kind {kind})")
        return term
    if isinstance(node, ast.UnaryOp) and isinstance(node.op, ast.USub):
        return f"(- {pure_int(node.operand, env, what)})"
    if isinstance(node, ast.UnaryOp) and isinstance(node.op, ast.UAdd):
        return pure_int(node.operand, env, what)
    if isinstance(node, ast.BinOp):
        a, b = pure_int(node.left, env, what), pure_int(node.right, env, what)
        if isinstance(node.op, ast.Add):
            return f"({a} + {b})"
        if isinstance(node.op, ast.Sub):
            return f"({a} - {b})"
        if isinstance(node.op, ast.Mult):
            return f"({a} * {b})"
        if isinstance(node.op, ast.Pow):
            return f"(py_pow {a} {b})"
    need(False, f"{what}: unrecognised pure integer expression {ast.unparse(node)[:80]}")


def res_int(node, env, what):
    """integer expression that may use % -> Coq term of type res Z"""
    if isinstance(node, ast.BinOp) and isinstance(node.op, ast.Mod):
        return f"(rz_mod {res_int(node.left, env, what)} {res_int(node.right, env, what)})"
    if isinstance(node, ast.UnaryOp) and isinstance(node.op, ast.USub) and has_mod(node.operand):
        return f"(rz_neg {res_int(node.operand, env, what)})"
    need(not has_mod(node), f"{what}: % below an operator other than unary minus / %: {ast.unparse(node)[:80]}")
    return f"(Ok {pure_int(node, env, what)})"


def has_mod(node):
    return any(isinstance(n, ast.BinOp) and isinstance(n.op, (ast.Mod, ast.FloorDiv, ast.Div)) for n in ast.walk(node))


CMP = {ast.Lt: "<?", ast.LtE: "<=?", ast.Gt: ">?", ast.GtE: ">=?", ast.Eq: "=?"}


def cond(node, env, what):
    if isinstance(node, ast.Name):
        kind, term = env.get(node.id, what)
        need(kind == "bool", f"{what}: {node.id} used as a condition but is not a bool")
        return term
    if isinstance(node, ast.UnaryOp) and isinstance(node.op, ast.Not):
        return f"(negb {cond(node.operand, env, what)})"
    if isinstance(node, ast.BoolOp):
        parts = [cond(v, env, what) for v in node.values]
        op = " && " if isinstance(node.op, ast.And) else " || "
        return "(" + op.join(parts) + ")"
    if isinstance(node, ast.Compare):
        need(len(node.ops) == 1 and type(node.ops[0]) in CMP, f"{what}: unrecognised comparison {ast.unparse(node)[:80]}")
        need(not has_mod(node), f"{what}: partial operation inside a condition")
        a, b = pure_int(node.left, env, what), pure_int(node.comparators[0], env, what)
        return f"({a} {CMP[type(node.ops[0])]} {b})"
    need(False, f"{what}: unrecognised condition {ast.unparse(node)[:80]}")


def is_none_test(node):
    if (isinstance(node, ast.Compare) and len(node.ops) == 1 and isinstance(node.ops[0], ast.Is)
            and isinstance(node.left, ast.Name) and isinstance(node.comparators[0], ast.Constant)
            and node.comparators[0].value is None):
        return node.left.id
    return None


def report_id(stmt, what):
    """`reports.error("<id>", ...)` as a statement -> id, else None"""
    if (isinstance(stmt, ast.Expr) and isinstance(stmt.value, ast.Call) and isinstance(stmt.value.func, ast.Attribute)
            and isinstance(stmt.value.func.value, ast.Name) and stmt.value.func.value.id == "reports"):
        need(stmt.value.func.attr == "error", f"{what}: reports.{stmt.value.func.attr} where reports.error was expected")
        need(stmt.value.args, f"{what}: reports.error without identifier")
        return const_str(stmt.value.args[0], what + ": report identifier")
    return None


def is_raise_recoverable(stmt):
    if not isinstance(stmt, ast.Raise) or stmt.exc is None:
        return False
    e = stmt.exc
    if isinstance(e, ast.Call):
        e = e.func
    return isinstance(e, ast.Attribute) and isinstance(e.value, ast.Name) and e.value.id == "reports" and e.attr == "RecoverableError"


def gai_block(stmts, env, pending, ind):
    """statement list of get_as_int (every path must end in return / raise) -> Coq term of type gai_out"""
    what = "get_as_int"
    need(stmts, f"{what}: a path falls off the end of the function (returns None)")
    s, rest = stmts[0], stmts[1:]
    pad = "  " * ind
    rid = report_id(s, what)
    if rid is not None:
        need(pending is None, f"{what}: two reports on one path")
        return gai_block(rest, env, rid, ind)
    if isinstance(s, ast.If):
        name = is_none_test(s.test)
        if s.orelse:
            need(not rest, f"{what}: statements after an if/else whose branches all terminate")
            else_stmts = s.orelse
        else:
            else_stmts = rest
        if name is not None:
            kind, term = env.get(name, what)
            need(kind == "optZ", f"{what}: `{name} is None` but {name} is not an optional int here")
            inner = name + "'"
            a = gai_block(s.body, env, pending, ind + 1)
            b = gai_block(else_stmts, env.bind(name, "Z", inner), pending, ind + 1)
            return f"match {term} with\n{pad}  | None =>\n{pad}    {a}\n{pad}  | Some {inner} =>\n{pad}    {b}\n{pad}  end"
        c = cond(s.test, env, what)
        a = gai_block(s.body, env, pending, ind + 1)
        b = gai_block(else_stmts, env, pending, ind + 1)
        return f"if {c} then\n{pad}    {a}\n{pad}  else\n{pad}    {b}"
    if is_raise_recoverable(s):
        need(not rest, f"{what}: statements after raise")
        need(pending is not None, f"{what}: RecoverableError raised without a report")
        return f"GaiErrRaise {coq_string(pending)}"
    if isinstance(s, ast.Return):
        need(not rest, f"{what}: statements after return")
        need(s.value is not None, f"{what}: bare return")
        if pending is not None:
            return f"GaiErrRet {coq_string(pending)} {pure_int(s.value, env, what)}"
        if has_mod(s.value):
            return f"gai_of_res {res_int(s.value, env, what)}"
        return f"GaiRet {pure_int(s.value, env, what)}"
    need(False, f"{what}: unrecognised statement {ast.unparse(s)[:100]}")


def enclosing_functions(tree):
    """yield (qualified function name, Call node) for every call of get_as_int"""
    out = []

    def walk(node, path):
        for child in ast.iter_child_nodes(node):
            p = path
            if isinstance(child, (ast.FunctionDef, ast.ClassDef)):
                p = path + [child.name]
            if isinstance(child, ast.Call) and isinstance(child.func, ast.Name) and child.func.id == "get_as_int":
                out.append((".".join(p) or "<module>", child))
            walk(child, p)
    walk(tree, [])
    return out


def kw_const(call, name, what):
    """keyword constant: returns ('absent',) / ('none',) / ('int', v) / ('bool', b) / ('name', id)"""
    for k in call.keywords:
        if k.arg == name:
            v = k.value
            if isinstance(v, ast.Constant) and v.value is None:
                return ("none",)
            if isinstance(v, ast.Constant) and isinstance(v.value, bool):
                return ("bool", v.value)
            if isinstance(v, ast.Constant) and isinstance(v.value, int):
                return ("int", v.value)
            if isinstance(v, ast.UnaryOp):
                return ("int", const_int(v, what))
            if isinstance(v, ast.Name):
                return ("name", v.id)
            need(False, f"{what}: keyword {name} is neither a constant nor a name: {ast.unparse(v)[:60]}")
    return ("absent",)


def gen_get_as_int():
    tree, _ = parse("pdpy11/metacommand_impl.py")
    fn = find_def(tree, "get_as_int")
    need([a.arg for a in fn.args.args] == ["state", "what", "token", "arg_token", "bitness", "unsigned", "default"]
         and fn.args.vararg is None and fn.args.kwarg is None and not fn.args.kwonlyargs,
         "get_as_int: parameter list changed")
    need(len(fn.args.defaults) == 1 and isinstance(fn.args.defaults[0], ast.Constant) and fn.args.defaults[0].value is None,
         "get_as_int: `default=None` expected as the only default")
    need(not fn.decorator_list, "get_as_int: unexpected decorator")
    body = fn.body
    need(len(body) >= 3, "get_as_int: body too short")
    dump_eq(body[0], "value = wait(arg_token.resolve(state))", "get_as_int: first statement")
    s = body[1]
    need(isinstance(s, ast.If) and not s.orelse, "get_as_int: the isinstance test is expected second")
    dump_eq(s.test, "not isinstance(value, int)", "get_as_int: type test")
    need(len(s.body) == 2, "get_as_int: type-mismatch branch is expected to be report + raise")
    nonint_id = report_id(s.body[0], "get_as_int type test")
    need(nonint_id is not None and is_raise_recoverable(s.body[1]), "get_as_int: type-mismatch branch is expected to be report + raise")
    env = Env({"value": ("Z", "value"), "bitness": ("optZ", "bitness"), "unsigned": ("bool", "unsigned"), "default": ("optZ", "default")})
    term = gai_block(body[2:], env, None, 1)

    # call sites
    sites = []
    for path in sorted(glob.glob(os.path.join(REPO, "pdpy11", "*.py"))):
        rel = "pdpy11/" + os.path.basename(path)
        t, _ = parse(rel)
        for where, call in enclosing_functions(t):
            what = f"call of get_as_int in {rel}:{where}"
            need(len(call.args) == 4, f"{what}: 4 positional arguments expected")
            need({k.arg for k in call.keywords} <= {"bitness", "unsigned", "default"}, f"{what}: unexpected keyword")
            b, u, d = kw_const(call, "bitness", what), kw_const(call, "unsigned", what), kw_const(call, "default", what)
            need(b[0] in ("none", "int", "name"), f"{what}: bitness keyword expected")
            need(u[0] in ("bool", "name"), f"{what}: unsigned keyword expected")
            need(d[0] in ("absent", "none", "int"), f"{what}: default must be absent or a constant")
            if b[0] == "int":
                need(b[1] >= 0, f"{what}: negative bitness {b[1]} (2 ** bitness would be a float)")
            if b[0] == "name" or u[0] == "name":
                need(rel == "pdpy11/metacommand_impl.py" and where == "Metacommand.compile_insn.fn" and b == ("name", "bitness") and u == ("name", "unsigned"),
                     f"{what}: non-constant bitness/unsigned outside Metacommand.compile_insn")
            sites.append((rel, where, b, u, d))

    def opt(x):
        return "None" if x[0] in ("none", "absent") else f"(Some {zlit(x[1])})"

    def named(rel, where):
        hits = [s for s in sites if s[0] == rel and s[1] == where]
        need(len(hits) == 1, f"expected exactly one call of get_as_int in {rel}:{where}, found {len(hits)}")
        _, _, b, u, d = hits[0]
        need(u[0] == "bool", f"{rel}:{where}: constant unsigned expected")
        return f"({opt(b)}, {'true' if u[1] else 'false'}, {opt(d)})"

    out = HEADER.format(src="pdpy11/metacommand_impl.py (get_as_int) by tools/gens/gen_meta.py")
    out += PRELUDE
    out += "\n(* ---- translated from get_as_int ------------------------------------------------------------ *)\n"
    out += f"(* identifier reported (followed by RecoverableError) when the evaluated value is not an int *)\nDefinition get_as_int_nonint_id : string := {coq_string(nonint_id)}.\n\n"
    out += "Definition get_as_int_raw (bitness : option Z) (unsigned : bool) (default : option Z) (value : Z) : gai_out :=\n  " + term + ".\n\n"
    out += ("Definition get_as_int (bitness : option Z) (unsigned : bool) (default : option Z) (value : Z) : res Z :=\n"
            "  match get_as_int_raw bitness unsigned default value with\n"
            "  | GaiRet v => Ok v\n  | GaiErrRet id _ => Err [id]\n  | GaiErrRaise id => Err [id]\n  | GaiCrash s => Crash s\n  end.\n\n")
    out += "(* ---- call sites: (file, function, bitness, unsigned, default) as written ------------------- *)\n"
    rows = []
    for rel, where, b, u, d in sites:
        def show(x):
            return {"none": "None", "absent": "-", "int": None, "bool": None, "name": None}.get(x[0]) or str(x[1])
        rows.append(f"({coq_string(rel)}, {coq_string(where)}, {coq_string(show(b))}, {coq_string(show(u))}, {coq_string(show(d))})")
    out += "Definition get_as_int_sites : list (string * string * string * string * string) :=\n  [ " + "\n  ; ".join(rows) + " ].\n\n"
    out += "(* the two constant call sites the directive model uses: (bitness, unsigned, default) *)\n"
    out += f"Definition site_ascii_impl : option Z * bool * option Z := {named('pdpy11/metacommands.py', 'ascii_impl')}.\n"
    out += f"Definition site_word_list : option Z * bool * option Z := {named('pdpy11/compiler.py', 'Compiler.compile_word_list.fn')}.\n"
    return {"GenGetAsInt.v": out}


# ---------------------------------------------------------------------------------------------
# metacommands.py
OF_INTEREST = ["byte", "word", "dword", "ascii_", "asciz", "blkb", "blkw", "even", "odd", "align"]
ONE_LINERS = ["blkb", "blkw", "even", "odd", "align"]
INT_TYPES = ["uint", "uint8", "uint16", "uint32", "int8", "int16", "int32"]


def size_expr(node, what):
    """size lambda body over the operand count -> Coq Z term over `nops`"""
    if isinstance(node, ast.Constant) and isinstance(node.value, int) and not isinstance(node.value, bool):
        need(node.value >= 0, f"{what}: negative size")
        return zlit(node.value)
    if isinstance(node, ast.Call) and isinstance(node.func, ast.Name) and node.func.id == "len":
        need(len(node.args) == 1 and isinstance(node.args[0], ast.Name) and node.args[0].id == "operands" and not node.keywords,
             f"{what}: len() of something else than operands")
        return "nops"
    if isinstance(node, ast.BoolOp) and isinstance(node.op, ast.Or) and len(node.values) == 2:
        return f"(py_or {size_expr(node.values[0], what)} {size_expr(node.values[1], what)})"
    if isinstance(node, ast.BinOp) and isinstance(node.op, (ast.Mult, ast.Add)):
        op = "*" if isinstance(node.op, ast.Mult) else "+"
        return f"({size_expr(node.left, what)} {op} {size_expr(node.right, what)})"
    need(False, f"{what}: unrecognised size expression {ast.unparse(node)[:80]}")


def size_of(node, what):
    if isinstance(node, ast.Constant) and node.value is None:
        return "None"
    if isinstance(node, ast.Lambda):
        a = node.args
        need([x.arg for x in a.args] == ["state"] and a.vararg is not None and a.vararg.arg == "operands"
             and not a.kwonlyargs and a.kwarg is None and not a.defaults, f"{what}: size lambda is expected to be `lambda state, *operands: ...`")
        return f"Some (fun nops : Z => {size_expr(node.body, what)})"
    if isinstance(node, ast.Constant):
        return f"Some (fun _ : Z => {size_expr(node, what)})"
    need(False, f"{what}: unrecognised size= {ast.unparse(node)[:80]}")


def type_info_of(type_name):
    # the string operations of Metacommand.compile_insn.fn (pinned above), applied to the hint name
    unsigned = type_name.startswith("u")
    bitness_str = type_name.replace("u", "").replace("int", "")
    bitness = int(bitness_str) if bitness_str else None
    return bitness, unsigned


def bytes_lit(node, what):
    need(isinstance(node, ast.Constant) and isinstance(node.value, bytes), f"{what}: bytes literal expected, got {ast.unparse(node)[:60]}")
    return "[" + "; ".join(str(b) for b in node.value) + "]"


def body_int(node, params, what):
    """int expression of a one-liner body -> res Z"""
    if isinstance(node, ast.Constant) and isinstance(node.value, int) and not isinstance(node.value, bool):
        return f"(Ok {zlit(node.value)})"
    if isinstance(node, ast.Name):
        need(node.id in params, f"{what}: unknown name {node.id}")
        return f"(Ok {node.id})"
    if isinstance(node, ast.Call):
        need(ast.dump(node) == ast.dump(ast.parse('wait(state["emit_address"])', mode="eval").body),
             f"{what}: only wait(state[\"emit_address\"]) may be called, found {ast.unparse(node)[:60]}")
        return "(Ok emit_address)"
    if isinstance(node, ast.UnaryOp) and isinstance(node.op, ast.USub):
        return f"(rz_neg {body_int(node.operand, params, what)})"
    if isinstance(node, ast.BinOp) and isinstance(node.op, ast.Mod):
        return f"(rz_mod {body_int(node.left, params, what)} {body_int(node.right, params, what)})"
    need(False, f"{what}: unrecognised integer expression {ast.unparse(node)[:80]}")


def body_cond(node, params, what):
    need(isinstance(node, ast.Compare) and len(node.ops) == 1 and isinstance(node.ops[0], ast.Eq),
         f"{what}: only `e == e` conditions are recognised, found {ast.unparse(node)[:80]}")
    return f"(rz_eqb {body_int(node.left, params, what)} {body_int(node.comparators[0], params, what)})"


def body_bytes(node, params, what):
    """bytes expression -> res (list Z)"""
    if isinstance(node, ast.Constant):
        return f"(Ok {bytes_lit(node, what)})"
    if isinstance(node, ast.BinOp) and isinstance(node.op, ast.Mult):
        return f"(rb_mul {body_bytes(node.left, params, what)} {body_int(node.right, params, what)})"
    if isinstance(node, ast.IfExp):
        return f"(rb_if {body_cond(node.test, params, what)} {body_bytes(node.body, params, what)} {body_bytes(node.orelse, params, what)})"
    need(False, f"{what}: unrecognised bytes expression {ast.unparse(node)[:80]}")


def body_block(stmts, params, what):
    need(stmts, f"{what}: falls off the end")
    s, rest = stmts[0], stmts[1:]
    if isinstance(s, ast.Return):
        need(not rest and s.value is not None, f"{what}: return must be last and carry a value")
        return body_bytes(s.value, params, what)
    if isinstance(s, ast.If):
        need(not s.orelse and len(s.body) == 2, f"{what}: only `if c: reports.error(..); return b\"\"` is recognised")
        rid = report_id(s.body[0], what)
        need(rid is not None and isinstance(s.body[1], ast.Return) and s.body[1].value is not None
             and bytes_lit(s.body[1].value, what) == "[]", f"{what}: only `if c: reports.error(..); return b\"\"` is recognised")
        c = body_cond(s.test, params, what)
        return f"(do t <- {c}; if t then Err [{coq_string(rid)}] else {body_block(rest, params, what)})"
    need(False, f"{what}: unrecognised statement {ast.unparse(s)[:80]}")


def gen_meta():
    itree, _ = parse("pdpy11/metacommand_impl.py")
    cls = find_class(itree, "Metacommand")
    dump_eq(find_def(cls, "__init__"), PIN_INIT, "Metacommand.__init__")
    dump_eq(find_def(cls, "compile_insn"), PIN_COMPILE_INSN, "Metacommand.compile_insn")
    dump_eq(find_def(itree, "_metacommand_impl"), PIN_METACOMMAND_IMPL, "_metacommand_impl")
    dump_eq(find_def(itree, "metacommand"), PIN_METACOMMAND, "metacommand")
    for t in INT_TYPES:
        dump_eq(find_assign(itree, t), f'typing.NewType("{t}", int)', f"metacommand_impl.{t}")

    tree, _ = parse("pdpy11/metacommands.py")
    imports = [n for n in tree.body if isinstance(n, ast.ImportFrom) and n.module == "metacommand_impl"]
    need(len(imports) == 1 and imports[0].level == 1, "metacommands.py: one `from .metacommand_impl import ...` expected")
    imported = {}
    for a in imports[0].names:
        need(a.asname is None, "metacommands.py: aliased import from metacommand_impl")
        imported[a.name] = True
    need("metacommand" in imported, "metacommands.py: metacommand not imported from .metacommand_impl")
    # no rebinding of the type names / decorator at module level
    for n in tree.body:
        if isinstance(n, (ast.Assign, ast.AnnAssign, ast.AugAssign)):
            for tgt in ast.walk(n):
                if isinstance(tgt, ast.Name) and isinstance(tgt.ctx, ast.Store):
                    need(tgt.id not in imported and tgt.id not in ("int", "str"), f"metacommands.py rebinds {tgt.id}")

    rows, bodies, used_types = [], [], []
    seen = set()
    for n in tree.body:
        if not isinstance(n, ast.FunctionDef) or n.name not in OF_INTEREST:
            continue
        what = f"metacommands.{n.name}"
        need(n.name not in seen, f"{what}: defined twice")
        seen.add(n.name)
        need(len(n.decorator_list) == 1, f"{what}: exactly one decorator expected")
        dec = n.decorator_list[0]
        kw = {}
        if isinstance(dec, ast.Name):
            need(dec.id == "metacommand", f"{what}: decorator is not metacommand")
        else:
            need(isinstance(dec, ast.Call) and isinstance(dec.func, ast.Name) and dec.func.id == "metacommand" and not dec.args,
                 f"{what}: decorator is not metacommand(...)")
            for k in dec.keywords:
                need(k.arg in ("size", "alias", "raw", "no_dot", "literal_string_operand"), f"{what}: unknown decorator keyword {k.arg}")
                kw[k.arg] = k.value

        def boolkw(name):
            if name not in kw:
                return False
            v = kw[name]
            need(isinstance(v, ast.Constant) and isinstance(v.value, bool), f"{what}: {name}= is not a bool literal")
            return v.value
        no_dot, raw = boolkw("no_dot"), boolkw("raw")
        need(not boolkw("literal_string_operand"), f"{what}: literal_string_operand not expected for a data directive")
        name = ("" if no_dot else ".") + n.name.rstrip("_")
        aliases = []
        if "alias" in kw:
            v = kw["alias"]
            if isinstance(v, ast.List):
                aliases = [const_str(e, what + " alias") for e in v.elts]
            else:
                aliases = [const_str(v, what + " alias")]
        size = size_of(kw["size"], what) if "size" in kw else "None"
        a = n.args
        need(not a.posonlyargs and not a.kwonlyargs and a.kwarg is None, f"{what}: unexpected parameter kinds")
        need(a.args and a.args[0].arg == "state" and a.args[0].annotation is None, f"{what}: first parameter must be `state`")
        params = []
        mn = mx = 0
        ndef = len(a.defaults)
        pos = a.args[1:]
        for i, p in enumerate(pos):
            need(isinstance(p.annotation, ast.Name), f"{what}: parameter {p.arg} needs a plain-name annotation")
            params.append((p.arg, p.annotation.id))
            has_default = i >= len(pos) - ndef
            need(not has_default, f"{what}: defaults are not expected on a data directive")
            mn += 1
            mx += 1
        varargs = False
        if a.vararg is not None:
            need(isinstance(a.vararg.annotation, ast.Name), f"{what}: *{a.vararg.arg} needs a plain-name annotation")
            params.append((a.vararg.arg, a.vararg.annotation.id))
            varargs = True
        for pname, hint in params:
            need(hint in INT_TYPES and hint in imported or hint in ("int", "str"), f"{what}: annotation {hint} is not one of the recognised operand types")
            if hint not in used_types:
                used_types.append(hint)
        plist = "[" + "; ".join(f"({coq_string(p)}, {coq_string(h)})" for p, h in params) + "]"
        alist = "[" + "; ".join(coq_string(x) for x in aliases) + "]"
        rows.append(f"mkMeta {coq_string(name)} {alist} {'true' if raw else 'false'} {plist} {'true' if varargs else 'false'} "
                    f"{mn} {'None' if varargs else f'(Some {mx})'}\n      ({size})")
        if n.name in ONE_LINERS:
            need(not varargs and not raw, f"{what}: one-liner with varargs/raw")
            for _, hint in params:
                need(hint in INT_TYPES or hint == "int", f"{what}: non-integer parameter in a one-liner")
            pnames = [p for p, _ in params]
            need("emit_address" not in pnames, f"{what}: parameter named emit_address")
            stmts = [s for s in n.body if not (isinstance(s, ast.Expr) and isinstance(s.value, ast.Constant) and isinstance(s.value.value, str))]
            term = body_block(stmts, pnames, what)
            sig = "(emit_address : Z)" + "".join(f" ({p} : Z)" for p in pnames)
            shown = "; ".join(ast.unparse(s) for s in stmts)[:160].replace("\n", " ").replace('"', "'").replace("(*", "( *").replace("*)", "* )")
            bodies.append(f"(* {what}: {shown} *)\nDefinition body_{n.name} {sig} : res (list Z) :=\n  {term}.\n")
    need(seen == set(OF_INTEREST), f"metacommands.py: missing directive(s) {sorted(set(OF_INTEREST) - seen)}")

    out = HEADER.format(src="pdpy11/metacommands.py + pdpy11/metacommand_impl.py by tools/gens/gen_meta.py")
    out += "From Verif Require Import Base.Res Gen.GenGetAsInt.\nOpen Scope Z_scope.\n\n"
    out += ("(* one @metacommand: name, aliases, raw, (parameter name, annotation name) in order (the last one is the\n"
            "   *varargs parameter when m_varargs), min operands, max operands (None = unbounded), announced size as a\n"
            "   function of the operand count (None = size not announced: plain Deferred) *)\n"
            "Record meta := mkMeta { m_name : string; m_aliases : list string; m_raw : bool; m_params : list (string * string);\n"
            "  m_varargs : bool; m_min : Z; m_max : option Z; m_size : option (Z -> Z) }.\n\n")
    out += "Definition meta_table : list meta :=\n  [ " + "\n  ; ".join(rows) + " ].\n\n"
    out += "(* annotation name -> (bitness, unsigned) as computed in Metacommand.compile_insn; None = not an int type *)\n"
    out += "Definition type_info (hint : string) : option (option Z * bool) :=\n"
    for t in used_types:
        if t == "str":
            continue
        b, u = type_info_of(t)
        out += f"  if String.eqb hint {coq_string(t)} then Some ({'None' if b is None else f'Some {b}'}, {'true' if u else 'false'}) else\n"
    out += "  None.\n\n"
    out += "(* ---- one-liner bodies: Ok bytes | Err [id] (reported, then b\"\" returned) | Crash -------------- *)\n"
    out += "\n".join(bodies)
    return {"GenMeta.v": out}


gen_get_as_int.outputs = ["GenGetAsInt.v"]
gen_meta.outputs = ["GenMeta.v"]
GENERATORS = [gen_get_as_int, gen_meta]
