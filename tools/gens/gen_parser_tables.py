"""Translator plug-in for P (the character-level parser model, coq/Model/StmtParse.v):
   pdpy11/architecture.py + insns.py + metacommands.py + metacommand_impl.py + operators.py + builtins.py + parser.py
   -> coq/Gen/GenParserTables.v

What the parser reads from tables and what is regenerated here from the SOURCE (ast only, pdpy11 is never imported):
  * builtin_commands: for every key (lower-cased as CaseInsensitiveDict does) whether it is a Metacommand, its
    literal_string_operand flag, min_operands, max_operands (None = float("+inf")) and the operand type per declared
    parameter as parse_insn_operand reads it (str | int | anything else, i.e. CodeBlock);
      - instructions: the operand count is recomputed from the `instruction_opcodes` patterns with a re-statement of
        insns.init(); init() and Instruction.__init__ are pinned by AST digest (any edit aborts);
      - metacommands: decorator keywords and the signature of every @metacommand function, read as
        Metacommand.__init__ reads them (pinned by gen_meta's PIN_INIT text, compared here again);
      - builtins.py is pinned by shape (instructions first, metacommands override);
  * the three operator dictionaries in iteration order with precedence and associativity (Parser.either tries the
    literals in this order);
  * parser.REGISTER_NAMES.
Fail closed: anything not recognised -> need(False, ...) -> TranslateAbort -> every property depending on
GenParserTables.v reports a broken obligation.
"""
import ast
import hashlib
import importlib.util
import os

from translate import parse, need, find_def, find_class, find_assign, const_str, const_int, dump_eq, HEADER

HERE = os.path.dirname(os.path.abspath(__file__))

# sha256 of ast.dump() of the two definitions the instruction rows depend on
DIGEST_INIT = "6c92c38c818d757252307a94e5d49037023eb37c88fe9897ae574f18ceedb841"
DIGEST_INSN_INIT = "ee22869236f04bf37c6a3769ce7917e8d4ebf18439bb1512c5a69375623020b7"

PIN_BUILTINS = r'''
from .containers import CaseInsensitiveDict
from .insns import instructions
from . import metacommands as _  # has side effects
from .metacommand_impl import metacommands


builtin_commands = CaseInsensitiveDict(instructions)
for name, command in metacommands.items():
    builtin_commands[name] = command
'''

INT_TYPES = ("int8", "int16", "int32", "uint", "uint8", "uint16", "uint32")


def _digest(node):
    return hashlib.sha256(ast.dump(node).encode()).hexdigest()


def nl(s):
    need(all(ord(c) < 128 for c in s), f"non-ASCII table string {s!r}")
    return "[" + "; ".join(str(ord(c)) for c in s) + "]"


def insn_operand_count(name, oct_pattern):
    """re-statement of insns.init(): number of operand stubs of one opcode pattern"""
    is_binary = False
    pat = ""
    for i, ch in enumerate(oct_pattern):
        if ch == "[":
            is_binary = True
        elif ch == "]":
            is_binary = False
        elif not ch.isdigit():
            pat += ch * (1 if is_binary else 3)
        else:
            if is_binary or i == 0:
                pat += ch
            else:
                need(ch in "01234567", f"{name}: digit {ch!r} in an octal pattern")
                pat += bin(int(ch, 8))[2:].rjust(3, "0")
    need(len(pat) == 16, f"{name}: pattern does not expand to 16 bits")
    need(all(c in "01234567sSdDoOiI" for c in pat), f"{name}: unexpected pattern character")
    n = 0
    table = (("s", {0: 0, 3: 1, 6: 1, 12: 2}), ("S", {0: 0, 2: 1, 6: 1, 8: 2}), ("d", {0: 0, 3: 1, 6: 1}), ("D", {0: 0, 2: 1, 6: 1}))
    for ch, allowed in table:
        c = pat.count(ch)
        need(c in allowed, f"{name}: {c} x {ch!r} in the pattern (init() would assert)")
        n += allowed[c]
    if "o" in pat or "O" in pat:
        n += 1
    if "i" in pat or "I" in pat:
        need("o" not in pat and "O" not in pat, f"{name}: both offset and immediate")
        n += 1
    return n


def instruction_rows():
    atree, _ = parse("pdpy11/architecture.py")
    val = find_assign(atree, "instruction_opcodes")
    need(isinstance(val, ast.Dict), "instruction_opcodes is not a dict literal")
    itree, _ = parse("pdpy11/insns.py")
    need(_digest(find_def(itree, "init")) == DIGEST_INIT, "insns.init() changed: re-derive insn_operand_count and update DIGEST_INIT")
    need(_digest(find_def(find_class(itree, "Instruction"), "__init__")) == DIGEST_INSN_INIT,
         "insns.Instruction.__init__ changed (min_operands/max_operands = len(operands) expected)")
    dump_eq(find_assign(itree, "instructions"), "CaseInsensitiveDict()", "insns.instructions")
    rows = {}
    for k, v in zip(val.keys, val.values):
        name = const_str(k, "instruction_opcodes key")
        pat = const_str(v, f"instruction_opcodes[{name}]")
        need(not name.startswith("."), f"instruction name {name!r} starts with a dot")
        n = insn_operand_count(name, pat)
        rows[name.lower()] = dict(meta=False, litstr=False, mn=n, mx=n, types=[])
    return rows


def metacommand_rows():
    gm_spec = importlib.util.spec_from_file_location("gens_gen_meta_for_p", os.path.join(HERE, "gen_meta.py"))
    gm = importlib.util.module_from_spec(gm_spec)
    gm_spec.loader.exec_module(gm)
    itree, _ = parse("pdpy11/metacommand_impl.py")
    cls = find_class(itree, "Metacommand")
    dump_eq(find_def(cls, "__init__"), gm.PIN_INIT, "Metacommand.__init__")
    dump_eq(find_def(itree, "_metacommand_impl"), gm.PIN_METACOMMAND_IMPL, "_metacommand_impl")
    dump_eq(find_def(itree, "metacommand"), gm.PIN_METACOMMAND, "metacommand")
    for t in INT_TYPES:
        dump_eq(find_assign(itree, t), f'typing.NewType("{t}", int)', f"metacommand_impl.{t}")
    dump_eq(find_assign(itree, "metacommands"), "{}", "metacommand_impl.metacommands")

    tree, _ = parse("pdpy11/metacommands.py")
    imported = set()
    for n in tree.body:
        if isinstance(n, ast.ImportFrom):
            for a in n.names:
                need(a.asname is None or n.module is None, "metacommands.py: aliased from-import")
                imported.add((n.module, a.name))
    need(("metacommand_impl", "metacommand") in imported, "metacommands.py: metacommand not imported from .metacommand_impl")
    need(("types", "CodeBlock") in imported, "metacommands.py: CodeBlock not imported from .types")
    for n in ast.walk(tree):
        if isinstance(n, ast.Name) and isinstance(n.ctx, ast.Store) and n.id in INT_TYPES + ("int", "str", "CodeBlock", "metacommand"):
            need(False, f"metacommands.py rebinds {n.id}")
    rows = {}
    order = []
    for n in ast.walk(tree):
        if isinstance(n, ast.FunctionDef) and n not in tree.body:
            for d in n.decorator_list:
                need("metacommand" not in ast.dump(d), f"nested @metacommand {n.name}")
    for n in tree.body:
        if isinstance(n, ast.ClassDef):
            need("metacommand" not in ast.dump(n), f"class {n.name} mentions metacommand")
        if not isinstance(n, ast.FunctionDef):
            continue
        decs = [d for d in n.decorator_list if "metacommand" in ast.dump(d)]
        if not decs:
            continue
        what = f"metacommands.{n.name}"
        need(len(n.decorator_list) == 1, f"{what}: exactly one decorator expected")
        dec = n.decorator_list[0]
        kw = {}
        if isinstance(dec, ast.Name):
            need(dec.id == "metacommand", f"{what}: decorator is not metacommand")
        else:
            need(isinstance(dec, ast.Call) and isinstance(dec.func, ast.Name) and dec.func.id == "metacommand" and not dec.args,
                 f"{what}: decorator is not metacommand(...)")
            for k in dec.keywords:
                need(k.arg in ("size", "alias", "raw", "no_dot", "literal_string_operand"), f"{what}: unknown decorator keyword {k.arg}")
                kw[k.arg] = k.value

        def boolkw(name):
            if name not in kw:
                return False
            v = kw[name]
            need(isinstance(v, ast.Constant) and isinstance(v.value, bool), f"{what}: {name}= is not a bool literal")
            return v.value
        no_dot, litstr = boolkw("no_dot"), boolkw("literal_string_operand")
        name = ("" if no_dot else ".") + n.name.rstrip("_")
        aliases = []
        if "alias" in kw:
            v = kw["alias"]
            if isinstance(v, ast.List):
                aliases = [const_str(e, what + " alias") for e in v.elts]
            else:
                aliases = [const_str(v, what + " alias")]
        a = n.args
        need(not a.posonlyargs and not a.kwonlyargs and a.kwarg is None, f"{what}: unexpected parameter kinds")
        need(a.args and a.args[0].arg == "state" and a.args[0].annotation is None, f"{what}: first parameter must be `state`")
        pos = a.args[1:]
        ndef = len(a.defaults)
        need(ndef <= len(pos), f"{what}: a default on `state`")
        mn = mx = 0
        types = []
        inf = False

        def optype(ann, pname):
            need(isinstance(ann, ast.Name), f"{what}: parameter {pname} needs a plain-name annotation")
            if ann.id == "str":
                return "OStr"
            if ann.id == "int" or ann.id in INT_TYPES:
                return "OInt"
            need(ann.id == "CodeBlock", f"{what}: annotation {ann.id} is not str / an int type / CodeBlock")
            return "OOther"
        for i, p in enumerate(pos):
            t = optype(p.annotation, p.arg)
            types.append(t)
            has_default = i >= len(pos) - ndef
            if has_default:
                d = a.defaults[i - (len(pos) - ndef)]
                need(isinstance(d, ast.Constant) and d.value is None, f"{what}: default of {p.arg} is not None")
            if t == "OOther":
                need(not has_default, f"{what}: CodeBlock parameter with a default")
                continue
            if not has_default:
                mn += 1
            mx += 1
        if a.vararg is not None:
            types.append(optype(a.vararg.annotation, a.vararg.arg))
            need(types[-1] != "OOther", f"{what}: *CodeBlock")
            inf = True
        if litstr:
            need(0 <= mn <= 1 and mx == 1 and not inf, f"{what}: literal_string_operand needs exactly one operand (Metacommand.__init__ asserts)")
        row = dict(meta=True, litstr=litstr, mn=mn, mx=None if inf else mx, types=types, canon=name)
        for nm in aliases + [name]:
            need(all(ord(c) < 128 for c in nm), f"{what}: non-ASCII name")
            order.append((nm.lower(), row))
    need(order, "no @metacommand found")
    for k, row in order:
        rows[k] = row      # later registrations replace earlier ones, as the dict does
    return rows


def operator_rows():
    tree, _ = parse("pdpy11/operators.py")
    deco = find_def(tree, "operator")
    a = deco.args
    need([x.arg for x in a.args] == ["signature", "precedence", "associativity", "awaited", "pure", "token"],
         "parameters of operator() changed")
    rows = {"infix": [], "prefix": [], "postfix": []}
    for node in tree.body:
        if not isinstance(node, ast.FunctionDef):
            continue
        ops = [d for d in node.decorator_list if isinstance(d, ast.Call) and isinstance(d.func, ast.Name) and d.func.id == "operator"]
        if not ops:
            need(not node.decorator_list, f"{node.name}: unrecognised decorator")
            continue
        need(len(node.decorator_list) == 1 and len(ops[0].args) == 1, f"{node.name}: decorator shape")
        call = ops[0]
        sig = const_str(call.args[0], f"{node.name}: signature")
        kws = {k.arg: k.value for k in call.keywords}
        need({"precedence", "associativity"} <= set(kws), f"{node.name}: precedence/associativity missing")
        prec = const_int(kws["precedence"], f"{node.name}: precedence")
        need(0 <= prec < 1000, f"{node.name}: precedence out of range")
        assoc = const_str(kws["associativity"], f"{node.name}: associativity")
        need(assoc in ("left", "right"), f"{node.name}: associativity")
        need(len(sig) >= 2, f"{node.name}: signature too short")
        if sig[0] == "x" and sig[-1] == "x":
            kind, char = "infix", sig[1:-1].strip()
        elif sig[-1] == "x":
            kind, char = "prefix", sig[:-1].strip()
        elif sig[0] == "x":
            kind, char = "postfix", sig[1:].strip()
        else:
            need(False, f"{node.name}: signature {sig!r} has no operand")
        need(char and not any(c.isspace() for c in char) and all(33 <= ord(c) < 127 for c in char), f"{node.name}: operator characters {char!r}")
        # Parser.literal lower-cases the literal and compares with found.lower(): the model's matcher is exact for
        # literals without 'k' (U+212A lowers to it) and 'i' (U+0130 lowers to 'i' + U+0307)
        need("k" not in char.lower() and "i" not in char.lower(), f"{node.name}: operator characters contain k/i")
        key = char.lower()
        need(key not in [r[0] for r in rows[kind]], f"{node.name}: {kind} operator {char!r} defined twice")
        rows[kind].append((key, prec, assoc == "left"))
    need(all(rows.values()), "an operator kind has no operators")
    need(any(k == "$" for k, _, _ in rows["infix"]), "the call operator 'x $ x' is missing")
    ptree, _ = parse("pdpy11/parser.py")
    for nm, kind in (("infix_operator", "InfixOperator"), ("prefix_operator", "PrefixOperator"), ("postfix_operator", "PostfixOperator")):
        dump_eq(find_assign(ptree, nm), f"Parser.either([Parser.literal(op) for op in operators.operators[operators.{kind}]])", f"parser.{nm}")
    return rows


def gen_parser_tables():
    btree, _ = parse("pdpy11/builtins.py")
    need(ast.dump(btree) == ast.dump(ast.parse(PIN_BUILTINS)), "builtins.py changed shape")
    cmds = instruction_rows()
    metas = metacommand_rows()
    for k, row in metas.items():
        cmds[k] = row
    # parse_insn_operand reads insn.operand_info whenever the name starts with '.': only Metacommands have it
    for k, row in cmds.items():
        need(row["meta"] or not k.startswith("."), f"{k}: a dotted builtin that is not a Metacommand")
        need(all(ord(c) < 128 for c in k), f"{k}: non-ASCII command name")
    ptree, _ = parse("pdpy11/parser.py")
    regs = find_assign(ptree, "REGISTER_NAMES")
    need(isinstance(regs, ast.Tuple), "parser.REGISTER_NAMES is not a tuple literal")
    reg_names = [const_str(e, "REGISTER_NAMES element") for e in regs.elts]
    ops = operator_rows()

    b = lambda v: "true" if v else "false"
    out = HEADER.format(src="pdpy11/{architecture,insns,metacommands,metacommand_impl,operators,builtins,parser}.py by tools/gens/gen_parser_tables.py")
    out += "Open Scope N_scope.\n\n"
    out += ("(* operand type as parse_insn_operand reads it from operand_info[...][\"type\"]: str, int, anything else (CodeBlock) *)\n"
            "Inductive optype := OStr | OInt | OOther.\n"
            "(* one builtin_commands entry: isinstance(_, Metacommand), literal_string_operand, min_operands, max_operands\n"
            "   (None = float(\"+inf\")), operand_info types in order (empty for instructions, which have no operand_info) *)\n"
            "Record cmd := mkCmd { c_meta : bool; c_litstr : bool; c_min : N; c_max : option N; c_types : list optype }.\n\n")
    out += "(* keys are lower-cased code points, in dictionary order *)\nDefinition cmd_table : list (list N * cmd) :=\n  [ "
    lines = []
    for k, r in cmds.items():
        mx = "None" if r["mx"] is None else f"(Some {r['mx']})"
        lines.append(f"({nl(k)}, mkCmd {b(r['meta'])} {b(r['litstr'])} {r['mn']} {mx} [{'; '.join(r['types'])}]) (* {k} *)")
    out += "\n  ; ".join(lines) + " ].\n\n"
    out += "(* operator dictionaries in iteration order: (characters, precedence, associativity == \"left\") *)\n"
    for kind in ("infix", "prefix", "postfix"):
        out += f"Definition {kind}_table : list (list N * N * bool) :=\n  [ " + "\n  ; ".join(
            f"({nl(k)}, {p}, {b(l)}) (* {k} *)" for k, p, l in ops[kind]) + " ].\n"
    out += ("\n(* Metacommand.name of every metacommand key (an alias such as .db maps to the name of its command);\n"
            "   used by Model/ParseAsm.v, which dispatches on cmd.name as tools/ast2coq.py does *)\n"
            "Definition meta_canonical : list (list N * list N) :=\n  [ "
            + "\n  ; ".join(f"({nl(k)}, {nl(r['canon'].lower())}) (* {k} -> {r['canon']} *)" for k, r in cmds.items() if r["meta"]) + " ].\n")
    out += "\n(* parser.REGISTER_NAMES *)\nDefinition parser_register_names : list (list N) :=\n  [ " + "; ".join(nl(r) for r in reg_names) + " ].\n"
    return {"GenParserTables.v": out}


gen_parser_tables.outputs = ["GenParserTables.v"]
GENERATORS = [gen_parser_tables]
