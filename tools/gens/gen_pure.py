"""Translator plug-in: small pure functions of pdpy11 -> coq/Gen/GenPure.v (constant prelude) and
coq/Gen/GenPure{Insns,Context,Rad50,Directives,Listing}.v (one generator each: an abort in one group leaves the
others valid)

A typed, fail-closed translator for straight-line Python: the *text* of every Definition below the
prelude of GenPure.v is produced from the `ast` of the current source, so an edit of one of the
target functions changes the Coq term and breaks the equality lemma of Proofs/GenPureP.v
(`T_<function>_is_model` in Props/T.v) -- or aborts here.

Sub-language (anything else -> TranslateAbort):
  statements   x = e | a, b, c = <str>  | if/elif/else | return e | return (e1, e2) | assert c |
               reports.error("id", <message data>) | a docstring | `pass` |
               an assignment listed verbatim in the target's `opaque` list (binds a name that may only
               occur inside report message data)
  expressions  int / bool / one-line str / bytes literals, names, the target's *atoms* (source
               expressions such as `self.unsigned`, `len(self.bit_indexes)`, `state["rel_address"]`
               that become parameters of the generated function), + - * // % ** << >> & | ^ ~, unary
               - +, comparisons and chained comparisons, and / or / not on bools, `a if c else b`,
               wait(e), len(e), abs(e), oct(e), struct.pack("<H", e), s[a:b], s.count(c),
               s.rfind(c, a, b), s.ljust(n, c), s.rjust(n, c), CONST.index(ch), str + str,
               bytes + bytes, f-strings of str / int pieces, calls of other translated functions.
  control flow an `if` that does not return on every path is translated by copying the statements
               that follow it into both branches (a decision tree; the functions are small).

Reading of Python used here (trusted; repeated in the header of the generated file):
  * ints are unbounded Z; a bool used in arithmetic is 0 / 1 (`b2z`);
  * `//` `%` are floor operations, ZeroDivisionError iff the divisor is 0; `<<` `>>` raise ValueError on a
    negative count; int ** negative int is not an int -> Crash.  When the right operand is an integer
    *literal* that excludes the raising case the operation is emitted as the total Z operation;
  * `and` / `or` / `a if c else b` evaluate lazily, operands left to right;
  * wait(e) of an int is that int (the functions are modelled at the point where the awaited values
    are integers); `len(...)` atoms are natural numbers (parameter of type nat);
  * reports.error(id, ...) records the identifier and continues; the message arguments are data;
  * str is a list of code points (N), a one-character string literal in an argument position of
    count / rfind / ljust / rjust is that character; bytes is a list of Z.
"""
import ast

from translate import parse, need, find_assign, const_str, coq_string, HEADER

# ------------------------------------------------------------------------------------------------
PRELUDE = r'''From Coq Require Import Lia.
From Verif Require Import Base.Res Base.Bytes.
Open Scope list_scope.
Open Scope Z_scope.

(* ---- constant text: the meaning of the Python operations the translated code uses -------------
   Reading of Python (trusted; cross-checked by tools/t_check.py against the real functions, and stated against Coq's
   List / Z facts in Props/T.v):
   * ints are unbounded Z; a bool used in arithmetic is 0 / 1 (b2z);
   * // and % are the floor operations and raise ZeroDivisionError iff the divisor is 0; << and >> raise ValueError on a
     negative count; int ** negative int is not an int (Crash).  Where the right operand is an integer literal that
     excludes the raising case the translator emits the total Z operation directly;
   * and / or / `a if c else b` evaluate lazily, operands left to right; chained comparisons are conjunctions;
   * wait(e) of an int is that int; a len(...) parameter is a natural number;
   * reports.error(id, ...) records the identifier and continues (the message arguments are data);
   * str = list of code points (N), bytes = list of Z; struct.pack("<H", v) = Base.Bytes.pack_H. *)
Definition b2z (b : bool) : Z := if b then 1 else 0.
Definition py_floordiv (a b : Z) : res Z := if Z.eqb b 0 then Crash "ZeroDivisionError" else Ok (Z.div a b).
Definition py_mod (a b : Z) : res Z := if Z.eqb b 0 then Crash "ZeroDivisionError" else Ok (Z.modulo a b).
Definition py_lshift (a b : Z) : res Z := if Z.ltb b 0 then Crash "ValueError:negative shift count" else Ok (Z.shiftl a b).
Definition py_rshift (a b : Z) : res Z := if Z.ltb b 0 then Crash "ValueError:negative shift count" else Ok (Z.shiftr a b).
Definition py_pow (a b : Z) : res Z := if Z.ltb b 0 then Crash "TypeError:int ** negative int is a float" else Ok (Z.pow a b).
Definition py_assert {A} (c : bool) (site : string) (k : res A) : res A := if c then k else Crash site.

(* slice bounds: negative counts from the end, both ends clamped to 0..len *)
Definition py_clamp (len i : Z) : Z := if i <? 0 then Z.max 0 (i + len) else Z.min i len.
Definition py_lo (len : Z) (a : option Z) : Z := match a with None => 0 | Some i => py_clamp len i end.
Definition py_hi (len : Z) (b : option Z) : Z := match b with None => len | Some i => py_clamp len i end.
(* s[a:b] *)
Definition py_slice {A} (s : list A) (a b : option Z) : list A :=
  let len := Z.of_nat (length s) in
  skipn (Z.to_nat (py_lo len a)) (firstn (Z.to_nat (py_hi len b)) s).
(* s.count(ch) for a one-character ch *)
Fixpoint py_count1 (s : list N) (ch : N) : Z :=
  match s with
  | [] => 0
  | x :: rest => (if N.eqb x ch then 1 else 0) + py_count1 rest ch
  end.
(* index of the last occurrence of ch in s, whose first element has index i; `last` if there is none *)
Fixpoint last_index_from (ch : N) (s : list N) (i last : Z) : Z :=
  match s with
  | [] => last
  | x :: rest => last_index_from ch rest (i + 1) (if N.eqb x ch then i else last)
  end.
(* s.rfind(ch, a, b) for a one-character ch: highest index in s[a:b] (as an index of s), -1 if none *)
Definition py_rfind1 (s : list N) (ch : N) (a b : Z) : Z :=
  last_index_from ch (py_slice s (Some a) (Some b)) (py_clamp (Z.of_nat (length s)) a) (-1).
(* s.index(ch) for a one-character ch: first position, ValueError if absent *)
Fixpoint first_index_from (i : Z) (s : list N) (ch : N) : option Z :=
  match s with
  | [] => None
  | x :: rest => if N.eqb x ch then Some i else first_index_from (i + 1) rest ch
  end.
Definition py_index1 (s : list N) (ch : N) (site : string) : res Z :=
  match first_index_from 0 s ch with Some i => Ok i | None => Crash site end.
Definition py_ljust (s : list N) (w : Z) (c : N) : list N := s ++ repeat c (Z.to_nat (w - Z.of_nat (length s))).
Definition py_rjust (s : list N) (w : Z) (c : N) : list N := repeat c (Z.to_nat (w - Z.of_nat (length s))) ++ s.
(* oct(z): "0o" / "-0o" followed by the octal digits of |z|, most significant first *)
Fixpoint oct_digits_fuel (fuel : nat) (n : Z) (acc : list N) : list N :=
  match fuel with
  | O => acc
  | S k => let acc' := Z.to_N (48 + n mod 8) :: acc in
           if n / 8 =? 0 then acc' else oct_digits_fuel k (n / 8) acc'
  end.
Definition py_oct (z : Z) : list N :=
  (if z <? 0 then [45; 48; 111]%N else [48; 111]%N) ++ oct_digits_fuel (S (Z.to_nat (Z.log2 (Z.abs z)))) (Z.abs z) [].
(* a, b, c = s *)
Definition py_unpack3 {A B} (s : list A) (k : A -> A -> A -> res B) : res B :=
  match s with [a; b; c] => k a b c | _ => Crash "ValueError: unpack" end.
(* what the assembler observes of a function that may report: its value if nothing was reported, otherwise a
   failed assembly with the identifiers reported (the value returned is then never used) *)
Definition observed {A} (r : res (A * list string)) : res A :=
  match r with
  | Ok (v, []) => Ok v
  | Ok (_, es) => Err es
  | Err e => Err e
  | Crash s => Crash s
  | OutOfFuel => OutOfFuel
  end.
(* pieces of an f-string: literal text, a str value, an int value (printed in decimal by Python) *)
Inductive fpiece := FLit (s : list N) | FStr (s : list N) | FInt (z : Z).
'''

# ------------------------------------------------------------------------------------------------
Z, BOOL, STR, CHAR, BYTES, FSTR = "Z", "bool", "list N", "N", "list Z", "list fpiece"
PARAM_TY = {"Z": Z, "bool": BOOL, "str": STR, "char": CHAR, "bytes": BYTES, "len": Z}

ARITH = {ast.Add: "Z.add", ast.Sub: "Z.sub", ast.Mult: "Z.mul", ast.BitAnd: "Z.land", ast.BitOr: "Z.lor", ast.BitXor: "Z.lxor"}
PARTIAL = {ast.FloorDiv: ("py_floordiv", "Z.div", lambda v: v != 0), ast.Mod: ("py_mod", "Z.modulo", lambda v: v != 0),
           ast.LShift: ("py_lshift", "Z.shiftl", lambda v: v >= 0), ast.RShift: ("py_rshift", "Z.shiftr", lambda v: v >= 0),
           ast.Pow: ("py_pow", "Z.pow", lambda v: v >= 0)}
CMP = {ast.Lt: "Z.ltb", ast.LtE: "Z.leb", ast.Gt: "Z.gtb", ast.GtE: "Z.geb", ast.Eq: "Z.eqb"}


def zlit(v):
    return f"({v})" if v < 0 else str(v)


def nlist(s):
    return "[" + "; ".join(str(ord(c)) for c in s) + "]%N" if s else "(@nil N)"


def tup_ty(ts):
    return "(" + " * ".join(ts) + ")"


class Cx:
    def __init__(self, fname, atoms, funcs, consts, opaque):
        self.fname = fname
        self.atoms = atoms      # ast.dump -> (term, type)
        self.funcs = funcs      # python name -> (coq name, [param types], result type)   (non-reporting functions)
        self.consts = consts    # python module constant name -> (coq name, type)
        self.opaque = opaque    # ast.dump of statements that bind message-only names
        self.vars = {}          # python local -> type  (coq name is v_<name>)
        self.dead = set()       # names bound by opaque statements
        self.n = 0
        self.reports = False
        self.ret = None

    def fresh(self):
        self.n += 1
        return f"t{self.n}"

    def err(self, msg):
        need(False, f"{self.fname}: {msg}")


def expr_wrap(binds, body):
    for v, t in reversed(binds):
        body = f"(do {v} <- {t}; {body})"
    return body


def as_z(cx, t, ty, what):
    if ty == Z:
        return t
    if ty == BOOL:
        return f"(b2z {t})"
    cx.err(f"{what}: a {ty} where an integer is expected")


def char_arg(cx, node, what):
    need(isinstance(node, ast.Constant) and isinstance(node.value, str) and len(node.value) == 1,
         f"{cx.fname}: {what}: a one-character string literal is expected, got {ast.unparse(node)[:60]}")
    return f"{ord(node.value)}%N"


def tr_expr(cx, node):
    """-> (bindings [(var, res-term)], pure term, type)"""
    d = ast.dump(node)
    if d in cx.atoms:
        term, ty = cx.atoms[d]
        return [], term, ty
    src = ast.unparse(node)[:80]
    if isinstance(node, ast.Name):
        if node.id in cx.vars:
            return [], "v_" + node.id, cx.vars[node.id]
        if node.id in cx.consts:
            return [], cx.consts[node.id][0], cx.consts[node.id][1]
        cx.err(f"unknown name {node.id}" + (" (bound by an opaque statement: usable in message data only)" if node.id in cx.dead else ""))
    if isinstance(node, ast.Constant):
        v = node.value
        if isinstance(v, bool):
            return [], "true" if v else "false", BOOL
        if isinstance(v, int):
            return [], zlit(v), Z
        if isinstance(v, str):
            return [], nlist(v), STR
        if isinstance(v, bytes):
            return [], ("[" + "; ".join(str(b) for b in v) + "]") if v else "(@nil Z)", BYTES
        cx.err(f"constant {v!r}")
    if isinstance(node, ast.UnaryOp):
        b, t, ty = tr_expr(cx, node.operand)
        if isinstance(node.op, ast.Not):
            need(ty == BOOL, f"{cx.fname}: `not` of a non-bool: {src}")
            return b, f"(negb {t})", BOOL
        t = as_z(cx, t, ty, src)
        if isinstance(node.op, ast.USub):
            return b, f"(Z.opp {t})", Z
        if isinstance(node.op, ast.UAdd):
            return b, t, Z
        if isinstance(node.op, ast.Invert):
            return b, f"(Z.lnot {t})", Z
        cx.err(f"unary operator in {src}")
    if isinstance(node, ast.BinOp):
        b1, t1, ty1 = tr_expr(cx, node.left)
        b2, t2, ty2 = tr_expr(cx, node.right)      # left operand first, then right, then the operation
        if isinstance(node.op, ast.Add) and ty1 == ty2 and ty1 in (STR, BYTES):
            return b1 + b2, f"({t1} ++ {t2})%list", ty1
        z1, z2 = as_z(cx, t1, ty1, src), as_z(cx, t2, ty2, src)
        if type(node.op) in ARITH:
            return b1 + b2, f"({ARITH[type(node.op)]} {z1} {z2})", Z
        if type(node.op) in PARTIAL:
            fn, total, safe = PARTIAL[type(node.op)]
            r = node.right
            if isinstance(r, ast.Constant) and isinstance(r.value, int) and not isinstance(r.value, bool) and safe(r.value):
                return b1 + b2, f"({total} {z1} {z2})", Z
            v = cx.fresh()
            return b1 + b2 + [(v, f"{fn} {z1} {z2}")], v, Z
        cx.err(f"binary operator {type(node.op).__name__} in {src}")
    if isinstance(node, ast.Compare):
        parts = [node.left] + list(node.comparators)
        binds, terms = [], []
        for i, p in enumerate(parts):
            b, t, ty = tr_expr(cx, p)
            need(not (b and i >= 2), f"{cx.fname}: a raising operand late in a chained comparison: {src}")
            binds += b
            terms.append(as_z(cx, t, ty, src))
        cs = []
        for i, op in enumerate(node.ops):
            if isinstance(op, ast.NotEq):
                cs.append(f"(negb (Z.eqb {terms[i]} {terms[i + 1]}))")
            else:
                need(type(op) in CMP, f"{cx.fname}: comparison operator {type(op).__name__} in {src}")
                cs.append(f"({CMP[type(op)]} {terms[i]} {terms[i + 1]})")
        return binds, cs[0] if len(cs) == 1 else "(" + " && ".join(cs) + ")", BOOL
    if isinstance(node, ast.BoolOp):
        acc = None
        for vnode in node.values:
            b, t, ty = tr_expr(cx, vnode)
            need(ty == BOOL, f"{cx.fname}: and/or on a non-bool operand: {src}")
            if acc is None:
                acc = (b, t)
                continue
            b0, t0 = acc
            if not b:
                acc = (b0, f"({t0} && {t})" if isinstance(node.op, ast.And) else f"({t0} || {t})")
            else:   # lazy right operand that may raise
                v = cx.fresh()
                rhs = expr_wrap(b, f"Ok {t}")
                acc = (b0 + [(v, f"(if {t0} then {rhs} else Ok false)" if isinstance(node.op, ast.And) else f"(if {t0} then Ok true else {rhs})")], v)
        return acc[0], acc[1], BOOL
    if isinstance(node, ast.IfExp):
        bc, tc, tyc = tr_expr(cx, node.test)
        need(tyc == BOOL, f"{cx.fname}: condition of a conditional expression is not a bool: {src}")
        ba, ta, tya = tr_expr(cx, node.body)
        bb, tb, tyb = tr_expr(cx, node.orelse)
        need(tya == tyb, f"{cx.fname}: branches of a conditional expression differ in type: {src}")
        if not ba and not bb:
            return bc, f"(if {tc} then {ta} else {tb})", tya
        v = cx.fresh()
        return bc + [(v, f"(if {tc} then {expr_wrap(ba, f'Ok {ta}')} else {expr_wrap(bb, f'Ok {tb}')})")], v, tya
    if isinstance(node, ast.Subscript):
        need(isinstance(node.slice, ast.Slice) and node.slice.step is None, f"{cx.fname}: only s[a:b] subscripts: {src}")
        b, t, ty = tr_expr(cx, node.value)
        need(ty in (STR, BYTES), f"{cx.fname}: slice of a {ty}: {src}")
        binds, bounds = list(b), []
        for bd in (node.slice.lower, node.slice.upper):
            if bd is None:
                bounds.append("None")
            else:
                bb, tb, tyb = tr_expr(cx, bd)
                binds += bb
                bounds.append(f"(Some {as_z(cx, tb, tyb, src)})")
        return binds, f"(py_slice {t} {bounds[0]} {bounds[1]})", ty
    if isinstance(node, ast.JoinedStr):
        binds, pieces = [], []
        for p in node.values:
            if isinstance(p, ast.Constant):
                pieces.append(f"FLit {nlist(const_str(p, cx.fname + ': f-string text'))}")
            else:
                need(isinstance(p, ast.FormattedValue) and p.conversion == -1 and p.format_spec is None, f"{cx.fname}: f-string piece with a conversion / format: {src}")
                b, t, ty = tr_expr(cx, p.value)
                need(ty in (Z, STR), f"{cx.fname}: f-string piece of type {ty}: {src}")
                binds += b
                pieces.append(f"FInt {t}" if ty == Z else f"FStr {t}")
        return binds, "[" + "; ".join(pieces) + "]", FSTR
    if isinstance(node, ast.Call):
        need(not node.keywords, f"{cx.fname}: keyword arguments in {src}")
        f = node.func
        if isinstance(f, ast.Name):
            if f.id == "wait" and len(node.args) == 1:
                b, t, ty = tr_expr(cx, node.args[0])
                need(ty == Z, f"{cx.fname}: wait() of a {ty}")
                return b, t, Z
            if f.id == "len" and len(node.args) == 1:
                b, t, ty = tr_expr(cx, node.args[0])
                need(ty in (STR, BYTES), f"{cx.fname}: len() of a {ty}: {src}")
                return b, f"(Z.of_nat (length {t}))", Z
            if f.id == "abs" and len(node.args) == 1:
                b, t, ty = tr_expr(cx, node.args[0])
                return b, f"(Z.abs {as_z(cx, t, ty, src)})", Z
            if f.id == "oct" and len(node.args) == 1:
                b, t, ty = tr_expr(cx, node.args[0])
                need(ty == Z, f"{cx.fname}: oct() of a {ty}")
                return b, f"(py_oct {t})", STR
            if f.id in cx.funcs:
                cname, ptys, rty = cx.funcs[f.id]
                need(len(node.args) == len(ptys), f"{cx.fname}: {f.id} called with {len(node.args)} arguments")
                binds, args = [], []
                for a, pty in zip(node.args, ptys):
                    b, t, ty = tr_expr(cx, a)
                    need(ty == pty, f"{cx.fname}: argument of {f.id}: {ty} where {pty} is expected")
                    binds += b
                    args.append(t)
                v = cx.fresh()
                return binds + [(v, f"{cname} " + " ".join(args))], v, rty
            cx.err(f"call of {f.id}")
        if isinstance(f, ast.Attribute):
            if ast.dump(f) == ast.dump(ast.parse("struct.pack", mode="eval").body):
                need(len(node.args) == 2 and isinstance(node.args[0], ast.Constant) and node.args[0].value == "<H",
                     f"{cx.fname}: only struct.pack(\"<H\", e): {src}")
                b, t, ty = tr_expr(cx, node.args[1])
                need(ty == Z, f"{cx.fname}: struct.pack of a {ty}")
                v = cx.fresh()
                return b + [(v, f"pack_H {t}")], v, BYTES
            b, t, ty = tr_expr(cx, f.value)
            need(ty == STR, f"{cx.fname}: method {f.attr} of a {ty}: {src}")
            a = node.args
            if f.attr == "count" and len(a) == 1:
                return b, f"(py_count1 {t} {char_arg(cx, a[0], src)})", Z
            if f.attr == "rfind" and len(a) == 3:
                b1, t1, ty1 = tr_expr(cx, a[1])
                b2, t2, ty2 = tr_expr(cx, a[2])
                return b + b1 + b2, f"(py_rfind1 {t} {char_arg(cx, a[0], src)} {as_z(cx, t1, ty1, src)} {as_z(cx, t2, ty2, src)})", Z
            if f.attr in ("ljust", "rjust") and len(a) == 2:
                b1, t1, ty1 = tr_expr(cx, a[0])
                return b + b1, f"(py_{f.attr} {t} {as_z(cx, t1, ty1, src)} {char_arg(cx, a[1], src)})", STR
            if f.attr == "index" and len(a) == 1:
                b1, t1, ty1 = tr_expr(cx, a[0])
                need(ty1 == CHAR, f"{cx.fname}: .index() of a {ty1} (only one character is recognised): {src}")
                v = cx.fresh()
                site = coq_string("ValueError: " + ast.unparse(f.value) + ".index")
                return b + b1 + [(v, f"py_index1 {t} {t1} {site}")], v, Z
            cx.err(f"method call {src}")
    cx.err(f"expression shape {src}")


def report_id(cx, stmt):
    if not (isinstance(stmt, ast.Expr) and isinstance(stmt.value, ast.Call)):
        return None
    f = stmt.value.func
    if isinstance(f, ast.Attribute) and isinstance(f.value, ast.Name) and f.value.id == "reports":
        need(f.attr == "error", f"{cx.fname}: reports.{f.attr} (only reports.error is recognised)")
        need(stmt.value.args, f"{cx.fname}: reports.error without identifier")
        return const_str(stmt.value.args[0], cx.fname + ": report identifier")
    return None


def check_no_dead_code(cx, stmts):
    for i, s in enumerate(stmts):
        if isinstance(s, ast.Return):
            need(i == len(stmts) - 1, f"{cx.fname}: code after return")
        if isinstance(s, ast.If):
            check_no_dead_code(cx, s.body)
            check_no_dead_code(cx, s.orelse)


def tr_ret(cx, node, errs):
    if isinstance(node, ast.Tuple):
        binds, ts, tys = [], [], []
        for e in node.elts:
            b, t, ty = tr_expr(cx, e)
            binds += b
            ts.append(t)
            tys.append(ty)
        t, ty = "(" + ", ".join(ts) + ")", tup_ty(tys)
    else:
        binds, t, ty = tr_expr(cx, node)
    if cx.ret is None:
        cx.ret = ty
    need(cx.ret == ty, f"{cx.fname}: return values of different types ({cx.ret} / {ty})")
    return binds, t, errs


def tr_block(cx, stmts, errs):
    """the statements still to run on this path -> term of type res <ret> (see finish())"""
    need(stmts, f"{cx.fname}: a path falls off the end (returns None)")
    s, rest = stmts[0], stmts[1:]
    if isinstance(s, ast.Return):
        need(s.value is not None, f"{cx.fname}: bare return")
        binds, t, errs = tr_ret(cx, s.value, errs)
        return wrap(binds, ("RET", t, errs))
    if isinstance(s, ast.Pass) or (isinstance(s, ast.Expr) and isinstance(s.value, ast.Constant) and isinstance(s.value.value, str)):
        return tr_block(cx, rest, errs)
    rid = report_id(cx, s)
    if rid is not None:
        cx.reports = True
        return tr_block(cx, rest, errs + [rid])
    if ast.dump(s) in cx.opaque:
        for tnode in ast.walk(s):
            if isinstance(tnode, ast.Name) and isinstance(tnode.ctx, ast.Store):
                cx.vars.pop(tnode.id, None)
                cx.dead.add(tnode.id)
        return tr_block(cx, rest, errs)
    if isinstance(s, ast.Assign):
        need(len(s.targets) == 1, f"{cx.fname}: chained assignment")
        tgt = s.targets[0]
        b, t, ty = tr_expr(cx, s.value)
        if isinstance(tgt, ast.Tuple):
            need(ty == STR and len(tgt.elts) == 3 and all(isinstance(e, ast.Name) for e in tgt.elts),
                 f"{cx.fname}: only `a, b, c = <str>` unpacking is recognised")
            names = [e.id for e in tgt.elts]
            need(len(set(names)) == 3, f"{cx.fname}: repeated name in unpacking")
            for nme in names:
                cx.vars[nme] = CHAR
            body = tr_block(cx, rest, errs)
            return wrap(b, ("UNPACK3", t, names, body))
        need(isinstance(tgt, ast.Name), f"{cx.fname}: assignment target {ast.unparse(tgt)[:40]}")
        cx.vars[tgt.id] = ty
        cx.dead.discard(tgt.id)
        body = tr_block(cx, rest, errs)
        return wrap(b, ("LET", "v_" + tgt.id, t, body))
    if isinstance(s, ast.Assert):
        b, t, ty = tr_expr(cx, s.test)
        need(ty == BOOL, f"{cx.fname}: assert of a non-bool")
        body = tr_block(cx, rest, errs)
        return wrap(b, ("ASSERT", t, "AssertionError: " + cx.fname, body))
    if isinstance(s, ast.If):
        b, t, ty = tr_expr(cx, s.test)
        need(ty == BOOL, f"{cx.fname}: `if` on a non-bool ({ty}): {ast.unparse(s.test)[:60]}")
        saved, sdead = dict(cx.vars), set(cx.dead)
        a_ = tr_block(cx, list(s.body) + rest, errs)
        cx.vars, cx.dead = dict(saved), set(sdead)
        b_ = tr_block(cx, list(s.orelse) + rest, errs)
        cx.vars, cx.dead = saved, sdead
        if a_ == b_:    # both branches do the same (they differ in message data only): `if c then X else X` is X
            return wrap(b, a_)
        return wrap(b, ("IF", t, a_, b_))
    need(False, f"{cx.fname}: statement shape {ast.unparse(s)[:80]}")


def wrap(binds, body):
    """statement level: bodies are trees until rendered"""
    for v, t in reversed(binds):
        body = ("DO", v, t, body)
    return body


def render(cx, tree, ind):
    pad = "  " * ind
    k = tree[0]
    if k == "RET":
        _, t, errs = tree
        if cx.reports:
            lst = "[" + "; ".join(coq_string(e) for e in errs) + "]" if errs else "(@nil string)"
            return f"Ok ({t}, {lst})"
        return f"Ok {t}"
    if k == "DO":
        _, v, t, body = tree
        return f"do {v} <- {t};\n{pad}{render(cx, body, ind)}"
    if k == "LET":
        _, v, t, body = tree
        return f"let {v} := {t} in\n{pad}{render(cx, body, ind)}"
    if k == "UNPACK3":
        _, t, names, body = tree
        return f"py_unpack3 {t} (fun {' '.join('v_' + n for n in names)} =>\n{pad}  {render(cx, body, ind + 1)})"
    if k == "ASSERT":
        _, t, site, body = tree
        return f"py_assert {t} {coq_string(site)} (\n{pad}  {render(cx, body, ind + 1)})"
    if k == "IF":
        _, t, a, b = tree
        return f"if {t} then\n{pad}  ({render(cx, a, ind + 2)})\n{pad}else\n{pad}  ({render(cx, b, ind + 2)})"
    raise AssertionError(k)


# ------------------------------------------------------------------------------------------------
# locating code
def locate(tree, path, what):
    node = tree
    for i, name in enumerate(path):
        hits = [n for n in node.body if isinstance(n, (ast.FunctionDef, ast.ClassDef)) and n.name == name]
        need(len(hits) == 1, f"{what}: expected exactly one definition of {'.'.join(path[:i + 1])}, found {len(hits)}")
        node = hits[0]
    return node


def match_hole(node, pattern, what):
    """structural comparison of `node` with `pattern` (an AST); the Name __HOLE__ in the pattern matches any
    expression, which is returned"""
    found = []

    def go(a, b):
        if isinstance(b, ast.Name) and b.id == "__HOLE__":
            found.append(a)
            return True
        if type(a) is not type(b):
            return False
        if isinstance(a, ast.AST):
            for fld in a._fields:
                if fld in ("ctx",):
                    continue
                if not go(getattr(a, fld, None), getattr(b, fld, None)):
                    return False
            return True
        if isinstance(a, list):
            return len(a) == len(b) and all(go(x, y) for x, y in zip(a, b))
        return a == b
    ok = go(node, pattern)
    need(ok and len(found) == 1, f"{what}: source shape changed.\n  expected: {ast.unparse(pattern)[:300]}\n  found   : {ast.unparse(node)[:300]}")
    return found[0]


def atoms_of(spec, params):
    """spec: {python expression source: parameter name}; params: [(name, kind)]"""
    kinds = dict(params)
    out = {}
    for src, p in spec.items():
        need(p in kinds, f"internal: atom {src} names an undeclared parameter {p}")
        k = kinds[p]
        term = f"(Z.of_nat {p})" if k == "len" else p
        out[ast.dump(ast.parse(src, mode="eval").body)] = (term, PARAM_TY[k])
    return out


def binder(params):
    return " ".join(f"({p} : {'nat' if k == 'len' else PARAM_TY[k]})" for p, k in params)


def plain_params(fn, what):
    a = fn.args
    need(not a.vararg and not a.kwarg and not a.kwonlyargs and not a.defaults and not a.posonlyargs, f"{what}: parameter list shape")
    need(not fn.decorator_list, f"{what}: unexpected decorator")
    return [x.arg for x in a.args]


class Unit:
    """one generated Definition"""

    def __init__(self, name, text, funcsig=None):
        self.name, self.text, self.funcsig = name, text, funcsig


def gen_function(coq_name, src_desc, stmts, params, atoms, *, py_params=(), funcs=None, consts=None, opaque=(), ret_vars=None):
    """stmts: statement list; py_params: [(python name, kind)] real parameters (become locals v_<name> bound to the
    Coq parameters); ret_vars: for a fragment, names whose values are returned after the last statement."""
    cx = Cx(coq_name, atoms_of(atoms, params), funcs or {}, consts or {}, {ast.dump(ast.parse(o).body[0]) for o in opaque})
    for o in opaque:
        need(any(ast.dump(n) == ast.dump(ast.parse(o).body[0]) for s in stmts for n in ast.walk(s)), f"{coq_name}: the opaque statement `{o}` is no longer there")
    for p, k in py_params:
        cx.vars[p] = PARAM_TY[k]
    stmts = list(stmts)
    if ret_vars is not None:
        for s in stmts:
            for n in ast.walk(s):
                need(not isinstance(n, ast.Return), f"{coq_name}: return inside the fragment")
        val = ret_vars[0] if len(ret_vars) == 1 else "(" + ", ".join(ret_vars) + ")"
        stmts.append(ast.parse(f"return {val}").body[0])
    check_no_dead_code(cx, stmts)
    tree = tr_block(cx, stmts, [])
    body = render(cx, tree, 1)
    rty = f"res ({cx.ret} * list string)" if cx.reports else f"res ({cx.ret})"
    allp = list(params) + [("v_" + p, k) for p, k in py_params]
    text = f"(* {src_desc} *)\nDefinition {coq_name} {binder(allp)} : {rty} :=\n  {body}.\n"
    return Unit(coq_name, text, (cx.reports, [PARAM_TY[k] for _, k in allp], cx.ret))


def gen_expression(coq_name, src_desc, node, params, atoms, *, locals_=(), consts=None):
    cx = Cx(coq_name, atoms_of(atoms, params), {}, consts or {}, set())
    for p, k in locals_:
        cx.vars[p] = PARAM_TY[k]
    binds, t, ty = tr_expr(cx, node)
    allp = list(params) + [("v_" + p, k) for p, k in locals_]
    if binds:
        body, rty = expr_wrap(binds, f"Ok {t}"), f"res ({ty})"
    else:
        body, rty = t, ty
    shown = ast.unparse(node).replace("(*", "( *").replace("*)", "* )")
    text = f"(* {src_desc}:  {shown} *)\nDefinition {coq_name} {binder(allp)} : {rty} :=\n  {body}.\n"
    return Unit(coq_name, text)


def P(src):
    return ast.parse(src.strip("\n")).body[0]


# ------------------------------------------------------------------------------------------------
# targets
def units_insns():
    tree, _ = parse("pdpy11/insns.py")
    out = []
    # 1a. OffsetOperandStub.encode.fn
    fn = locate(tree, ["OffsetOperandStub", "encode", "fn"], "insns.py")
    need(plain_params(fn, "OffsetOperandStub.encode.fn") == [], "OffsetOperandStub.encode.fn takes parameters")
    out.append(gen_function(
        "offset_fn", "pdpy11/insns.py OffsetOperandStub.encode: def fn()", fn.body,
        [("unsigned", "bool"), ("len_bit_indexes", "len"), ("dest_is_label", "bool"), ("target", "Z"), ("rel_address", "Z")],
        {"self.unsigned": "unsigned", "len(self.bit_indexes)": "len_bit_indexes",
         "operand.resolve(state)": "target", "state['rel_address']": "rel_address",
         "isinstance(operand, Symbol) and isinstance(operand.locate_definition(state), Label)": "dest_is_label"},
        opaque=["definition = operand.locate_definition(state)"]))
    # 1b. ImmediateOperandStub.encode.fn
    fn = locate(tree, ["ImmediateOperandStub", "encode", "fn"], "insns.py")
    need(plain_params(fn, "ImmediateOperandStub.encode.fn") == [], "ImmediateOperandStub.encode.fn takes parameters")
    out.append(gen_function(
        "imm_fn", "pdpy11/insns.py ImmediateOperandStub.encode: def fn()", fn.body,
        [("unsigned", "bool"), ("len_bit_indexes", "len"), ("value", "Z")],
        {"self.unsigned": "unsigned", "len(self.bit_indexes)": "len_bit_indexes", "operand.resolve(state)": "value"}))
    # 1c. the relative-mode lambdas of RegisterModeOperandStub.encode
    enc = locate(tree, ["RegisterModeOperandStub", "encode"], "insns.py")
    rets = [s for s in enc.body if isinstance(s, ast.Return)]    # top-level returns only: the final `return 0o67, ...`
    need(len(rets) == 1, "RegisterModeOperandStub.encode: exactly one top-level return (relative mode) expected")
    pat = P('return __MODE__, SizedDeferred[bytes](2, lambda: struct.pack("<H", __HOLE__))')
    cands = []
    for n in ast.walk(enc):
        if isinstance(n, ast.Return) and isinstance(n.value, ast.Tuple) and len(n.value.elts) == 2 and isinstance(n.value.elts[0], ast.Constant) \
                and n.value.elts[0].value in (0o67, 0o77):
            cands.append(n)
    need(sorted(c.value.elts[0].value for c in cands) == [0o67, 0o77], "RegisterModeOperandStub.encode: one `return 0o67, ...` and one `return 0o77, ...` expected")
    for c in cands:
        mode = c.value.elts[0].value
        p2 = P(ast.unparse(pat).replace("__MODE__", str(mode)))
        hole = match_hole(c, p2, f"relative-mode return (mode {mode:o})")
        tsrc = "operand.resolve(state)" if mode == 0o67 else "operand.operand.resolve(state)"
        out.append(gen_expression(f"rel_word_{mode:o}", f"pdpy11/insns.py RegisterModeOperandStub.encode: `return 0o{mode:o}, ...` lambda, the word packed",
                                  hole, [("target", "Z"), ("rel_address", "Z")], {tsrc: "target", "state['rel_address']": "rel_address"}))
    need(rets[0] is [c for c in cands if c.value.elts[0].value == 0o67][0], "RegisterModeOperandStub.encode: the relative mode is expected to be the final return")
    # 1d. rel_address in Instruction.compile_insn
    ci = locate(tree, ["Instruction", "compile_insn"], "insns.py")
    loops = [s for s in ci.body if isinstance(s, ast.For)]
    need(len(loops) == 2, "Instruction.compile_insn: two top-level for loops expected")
    hole = match_hole(loops[0], P('''
for stub, operand_expr in zip(self.operands, insn.operands):
    opcode_inline_value, operand_encoding = stub.encode(operand_expr, {**state, "rel_address": __HOLE__})
    replacements.append((stub, opcode_inline_value))
    operands_encoding += operand_encoding
'''), "Instruction.compile_insn operand loop")
    out.append(gen_expression("rel_address_of", "pdpy11/insns.py Instruction.compile_insn: state[\"rel_address\"] passed to stub.encode",
                              hole, [("emit_address", "Z"), ("len_operands_encoding", "len")],
                              {"state['emit_address']": "emit_address", "len(operands_encoding)": "len_operands_encoding"}))
    return out


def units_context():
    tree, _ = parse("pdpy11/context.py")
    fn = locate(tree, ["Context", "__repr__"], "context.py")
    need(plain_params(fn, "Context.__repr__") == ["self"], "Context.__repr__ parameters")
    return [gen_function("context_repr", "pdpy11/context.py Context.__repr__", fn.body,
                         [("filename", "str"), ("code", "str"), ("pos", "Z")],
                         {"self.filename": "filename", "self.code": "code", "self.pos": "pos"})]


def units_radix50():
    tree, _ = parse("pdpy11/radix50.py")
    table = const_str(find_assign(tree, "TABLE"), "radix50.TABLE")
    out = [Unit("TABLE", f"(* pdpy11/radix50.py TABLE *)\nDefinition TABLE : list N := {nlist(table)}.\n")]
    consts = {"TABLE": ("TABLE", STR)}
    ec = locate(tree, ["encode_char"], "radix50.py")
    need(plain_params(ec, "encode_char") == ["char"], "encode_char parameters")
    u = gen_function("encode_char", "pdpy11/radix50.py encode_char (on a one-character string)", ec.body, [], {}, py_params=[("char", "char")], consts=consts)
    need(not u.funcsig[0], "encode_char reports")
    out.append(u)
    pk = locate(tree, ["pack_to_int"], "radix50.py")
    need(plain_params(pk, "pack_to_int") == ["string"], "pack_to_int parameters")
    out.append(gen_function("pack_to_int", "pdpy11/radix50.py pack_to_int", pk.body, [], {}, py_params=[("string", "str")], consts=consts,
                            funcs={"encode_char": ("encode_char", u.funcsig[1], u.funcsig[2])}))
    # the packing expression of the '.rad50' metacommand
    mtree, _ = parse("pdpy11/metacommands.py")
    r50 = locate(mtree, ["rad50"], "metacommands.py")
    loops = [s for s in r50.body if isinstance(s, ast.For)]
    need(len(loops) == 2, "metacommands.rad50: two top-level for loops expected")
    hole = match_hole(loops[1], P('''
for i in range(0, len(characters), 3):
    a, b, c = characters[i:i + 3]
    result += struct.pack("<H", __HOLE__)
'''), "metacommands.rad50 packing loop")
    out.append(gen_expression("rad50_word", "pdpy11/metacommands.py rad50: the word packed for three codes a, b, c", hole, [], {},
                              locals_=[("a", "Z"), ("b", "Z"), ("c", "Z")]))
    return out


def units_directives():
    mtree, _ = parse("pdpy11/metacommands.py")
    out = []
    dw = locate(mtree, ["dword"], "metacommands.py")
    e32 = locate(mtree, ["dword", "encode_i32"], "metacommands.py")
    need(plain_params(e32, "encode_i32") == ["value"], "encode_i32 parameters")
    out.append(gen_function("encode_i32", "pdpy11/metacommands.py dword: def encode_i32(value)", e32.body, [], {}, py_params=[("value", "Z")]))
    out.append(gen_function("dword_prefix", "pdpy11/metacommands.py dword: the first two statements, then the value of `prefix`", dw.body[0:2],
                            [("emit_address", "Z")], {"state['emit_address']": "emit_address"}, ret_vars=["prefix"]))
    wd = locate(mtree, ["word"], "metacommands.py")
    out.append(gen_function("word_prefix", "pdpy11/metacommands.py word: the first two statements, then the value of `prefix`", wd.body[0:2],
                            [("emit_address", "Z")], {"state['emit_address']": "emit_address"}, ret_vars=["prefix"]))
    ctree, _ = parse("pdpy11/compiler.py")
    wl = locate(ctree, ["Compiler", "compile_word_list"], "compiler.py")
    fn = locate(ctree, ["Compiler", "compile_word_list", "fn"], "compiler.py")
    need(len(fn.body) == 4, "compile_word_list.fn: four statements expected")
    out.append(gen_function("word_list_prefix", "pdpy11/compiler.py compile_word_list.fn: statements 2-3, then the value of `prefix`", fn.body[1:3],
                            [("emit_address", "Z")], {"state['emit_address']": "emit_address"}, ret_vars=["prefix"]))
    need(len(wl.body) == 2 and wl.body[0] is fn, "compile_word_list: `def fn` + return expected")
    hole = match_hole(wl.body[1], P("return SizedDeferred[bytes](__HOLE__, fn)"), "compile_word_list return")
    out.append(gen_expression("word_list_size", "pdpy11/compiler.py compile_word_list: announced size", hole,
                              [("len_insn_words", "len")], {"len(insn_words)": "len_insn_words"}))
    return out


def units_listing():
    ctree, _ = parse("pdpy11/compiler.py")
    gl = locate(ctree, ["Compiler", "generate_listing"], "compiler.py")
    hits = [n for n in ast.walk(gl) if isinstance(n, ast.AugAssign) and any(isinstance(x, ast.Call) and isinstance(x.func, ast.Name) and x.func.id == "oct" for x in ast.walk(n))]
    need(len(hits) == 1, "generate_listing: exactly one `result += ... oct(...) ...` expected")
    hole = match_hole(hits[0], P('result += __HOLE__ + " " + name + "\\n"'), "generate_listing line")
    return [gen_expression("listing_value", "pdpy11/compiler.py generate_listing: the value column of a line", hole, [], {}, locals_=[("value", "Z")])]


GROUP_HEAD = """From Verif Require Import Base.Res Base.Bytes Gen.GenPure.
Open Scope list_scope.
Open Scope Z_scope.
Open Scope bool_scope.

(* translated from the source: every Definition below is regenerated on each run *)
"""


def group_file(fn, src, units):
    names = [u.name for u in units]
    need(len(set(names)) == len(names), "duplicate generated name")
    return {fn: HEADER.format(src=src + " by tools/gens/gen_pure.py") + GROUP_HEAD + "\n".join(u.text for u in units)}


def gen_pure():
    """the constant prelude: the meaning of the Python operations (no source is read)"""
    return {"GenPure.v": HEADER.format(src="(constant text) by tools/gens/gen_pure.py") + PRELUDE}


def gen_pure_insns():
    return group_file("GenPureInsns.v", "pdpy11/insns.py", units_insns())


def gen_pure_context():
    return group_file("GenPureContext.v", "pdpy11/context.py", units_context())


def gen_pure_rad50():
    return group_file("GenPureRad50.v", "pdpy11/radix50.py + pdpy11/metacommands.py (rad50)", units_radix50())


def gen_pure_directives():
    return group_file("GenPureDirectives.v", "pdpy11/metacommands.py (dword) + pdpy11/compiler.py (compile_word_list)", units_directives())


def gen_pure_listing():
    return group_file("GenPureListing.v", "pdpy11/compiler.py (generate_listing)", units_listing())


gen_pure.outputs = ["GenPure.v"]
gen_pure_insns.outputs = ["GenPureInsns.v"]
gen_pure_context.outputs = ["GenPureContext.v"]
gen_pure_rad50.outputs = ["GenPureRad50.v"]
gen_pure_directives.outputs = ["GenPureDirectives.v"]
gen_pure_listing.outputs = ["GenPureListing.v"]
GENERATORS = [gen_pure, gen_pure_insns, gen_pure_context, gen_pure_rad50, gen_pure_directives, gen_pure_listing]
