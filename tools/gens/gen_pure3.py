"""Translator plug-in: Compiler.generate_listing (pdpy11/compiler.py) -> coq/Gen/GenPure3.v (constant prelude) and
coq/Gen/GenPure3Listing.v (the whole function: grouping loop, sort, line-formatting loops), and the operand loops of
.byte / .word / .dword (pdpy11/metacommands.py) -> coq/Gen/GenPure3Directives.v.

Built on a *private instance* of gen_pure2.py (state passing: a `for` loop becomes a lambda-lifted structural Fixpoint,
see its docstring), extended here with byte-string values, pairs, a defaultdict(list) and list.sort(key=lambda).
Props/T_listing2.v proves the result EQUAL to the hand model Model/ListingM.v generate_listing.  Fail closed.

Additional sub-language (anything else -> TranslateAbort):
  statements   s += e (s a str: the same as s = s + e) | D = collections.defaultdict(list) | D[k].append((a, b)) |
               L.sort(key=lambda x: K) where L is a target of the directly enclosing `for` |
               `if c:` as the LAST statement of a block may bind new names (they cannot escape)
  expressions  str literals, str + str, a if c else b (branches without raising parts), a < b on ints, abs(e), oct(e),
               int(s), isinstance(e, int) for an int-typed e (True), s.startswith("lit"), s[n:] (literal n >= 0),
               s.partition("c")[0|1|2], s.rjust(w, "c") (literals), D.items(), M[k] (the prefix map), state["filename"],
               item[0] / item[1] of a (str, int) pair, tuples only as a sort key / the appended pair
Reading of Python (trusted; cross-checked by tools/t_check3.py against the real function driven directly):
  * a str is a byte string (Coq `string`), compared by code points; tuples compare lexicographically;
  * list.sort(key=K) is THE stable sort by K under `<` (py3_sort: insertion sort; any stable sort gives the same
    list -- indeed any sorted permutation is that list, Props/T_listing2.v T_sort_unique); the sorted list is also the dict's value (aliasing), which is
    sound to ignore because the dict is not read again (pinned: D occurs only as `D = ...`, `D[k].append`, `D.items()`);
  * defaultdict(list): D[k].append(x) creates the key at the end if absent; items() in insertion order;
  * self.symbols.items() is abstracted to the list of (key, awaited address) -- `for name, (_, addr)` with `_` unused
    (pinned) --, internal_prefix_to_state to the association list prefix -> state["filename"]; wait(addr) is an int;
  * int(s): the decimal value of a non-empty run of ASCII digits, ValueError otherwise (the keys are f".internal{n}.");
  * oct(z) is gen_pure's py_oct read as a byte string; s.rjust(w, c) pads on the left to width w.
"""
import ast
import importlib.util
import os

from translate import parse, need, coq_string, HEADER


def _load(modname, fname):
    spec = importlib.util.spec_from_file_location(modname, os.path.join(os.path.dirname(os.path.abspath(__file__)), fname))
    mod = importlib.util.module_from_spec(spec)
    spec.loader.exec_module(mod)
    return mod


G2 = _load("gens_gen_pure2_for_pure3", "gen_pure2.py")      # private instance: patched below, the real plug-in is untouched
GP = G2.GP
locate, plain_params, zlit, wrap = GP.locate, GP.plain_params, GP.zlit, G2.wrap
INT, BOOL = G2.INT, G2.BOOL

PRELUDE = r'''From Coq Require Import DecimalString Decimal DecimalN.
From Verif Require Import Base.Res Base.Bytes Gen.GenPure.
Open Scope list_scope.
Open Scope Z_scope.

(* ---- constant text: the meaning of the Python str / dict / sort operations generate_listing uses (see the reading
   of Python in tools/gens/gen_pure3.py; cross-checked by tools/t_check3.py against the real function). *)
Definition py3_startswith (s p : string) : bool := String.prefix p s.
Fixpoint drop3 (n : nat) (s : string) : string :=
  match n, s with
  | O, _ => s
  | S n', String _ r => drop3 n' r
  | S _, EmptyString => EmptyString
  end.
(* s[n:] for a literal n >= 0 *)
Definition py3_drop (s : string) (n : Z) : string := drop3 (Z.to_nat n) s.
(* s.partition(c) for a one-character c *)
Fixpoint py3_partition (s : string) (c : ascii) : string * string * string :=
  match s with
  | EmptyString => (EmptyString, EmptyString, EmptyString)
  | String a r => if Ascii.eqb a c then (EmptyString, String c EmptyString, r)
                  else let '(h, sep, t) := py3_partition r c in (String a h, sep, t)
  end.
Definition py3_part0 (p : string * string * string) : string := fst (fst p).
Definition py3_part1 (p : string * string * string) : string := snd (fst p).
Definition py3_part2 (p : string * string * string) : string := snd p.
(* int(s): a non-empty run of ASCII decimal digits; anything else is reported as the ValueError *)
Definition py3_int (s : string) (site : string) : res Z :=
  match s with
  | EmptyString => Crash site
  | _ => match NilEmpty.uint_of_string s with Some u => Ok (Z.of_N (N.of_uint u)) | None => Crash site end
  end.
(* M[k] for the prefix map (k -> state, a state read only through state["filename"]) *)
Fixpoint py3_lookup (m : list (Z * string)) (k : Z) (site : string) : res string :=
  match m with
  | [] => Crash site
  | (k', f) :: r => if Z.eqb k' k then Ok f else py3_lookup r k site
  end.
(* defaultdict(list): D[k].append(x) *)
Fixpoint py3_dd_append {V} (d : list (string * list V)) (k : string) (x : V) : list (string * list V) :=
  match d with
  | [] => [(k, [x])]
  | (g, l) :: r => if String.eqb g k then (g, l ++ [x]) :: r else (g, l) :: py3_dd_append r k x
  end.
(* "<" on str (code points) and on pairs (lexicographic) *)
Fixpoint py3_str_ltb (s t : string) : bool :=
  match s, t with
  | _, EmptyString => false
  | EmptyString, String _ _ => true
  | String a s', String b t' =>
      if (N_of_ascii a <? N_of_ascii b)%N then true
      else if (N_of_ascii b <? N_of_ascii a)%N then false
      else py3_str_ltb s' t'
  end.
Definition py3_pair_ltb {A B} (lta : A -> A -> bool) (eqa : A -> A -> bool) (ltb : B -> B -> bool) (x y : A * B) : bool :=
  lta (fst x) (fst y) || (eqa (fst x) (fst y) && ltb (snd x) (snd y)).
(* list.sort(key=K): stable; x (earlier in the input) goes before the first y with not (K y < K x) *)
Fixpoint py3_insert {A K} (lt : K -> K -> bool) (key : A -> K) (x : A) (l : list A) : list A :=
  match l with
  | [] => [x]
  | y :: r => if lt (key y) (key x) then y :: py3_insert lt key x r else x :: y :: r
  end.
Fixpoint py3_sort {A K} (lt : K -> K -> bool) (key : A -> K) (l : list A) : list A :=
  match l with
  | [] => []
  | x :: r => py3_insert lt key x (py3_sort lt key r)
  end.
(* oct(z) as a byte string *)
Definition py3_oct (z : Z) : string := string_of_list_ascii (map ascii_of_N (GenPure.py_oct z)).
Fixpoint repeat3 (c : ascii) (n : nat) : string :=
  match n with O => EmptyString | S k => String c (repeat3 c k) end.
Definition py3_rjust (s : string) (w : Z) (c : ascii) : string :=
  (repeat3 c (Z.to_nat (w - Z.of_nat (String.length s))) ++ s)%string.
(* b"".join(F(x) for x in xs): F on the elements in order, the first exception ends it *)
Fixpoint py3_join_map (f : Z -> res (list Z)) (l : list Z) : res (list Z) :=
  match l with
  | [] => Ok []
  | x :: r => do a <- f x; do b <- py3_join_map f r; Ok (a ++ b)
  end.
'''

STR3, ITEM, LITEM, DD, DDITEMS, LSYM, PMAP, STATE, PART3 = "bytestr", "(str,int)", "list[(str,int)]", "defaultdict[str,list[(str,int)]]", "dict_items", "symbols.items()", "prefix map", "state", "partition result"
G2.COQTY.update({STR3: "string", ITEM: "(string * Z)", LITEM: "list (string * Z)", DD: "list (string * list (string * Z))",
                 DDITEMS: "list (string * list (string * Z))", LSYM: "list (string * Z)", PMAP: "list (Z * string)", STATE: "string",
                 PART3: "(string * string * string)"})
G2.ELEM.update({LITEM: (STR3, INT), LSYM: (STR3, INT), DDITEMS: (STR3, LITEM)})
_base_tr_e, _base_tr_block, _base_assigned = G2.tr_e, G2.tr_block, G2.assigned_names
LT = {INT: ("Z.ltb", "Z.eqb"), STR3: ("py3_str_ltb", "String.eqb")}


def coq_str3(s):
    if all(32 <= ord(c) < 127 for c in s):
        return coq_string(s) + "%string"
    need(all(ord(c) < 128 for c in s), f"non-ASCII string literal {s!r}")
    t = '""%string'
    for c in reversed(s):
        t = f"(String (ascii_of_N {ord(c)}) {t})"
    return t


def char_lit(cx, node, what):
    need(isinstance(node, ast.Constant) and isinstance(node.value, str) and len(node.value) == 1 and 32 < ord(node.value) < 127 and node.value != '"',
         f"{cx.fname}: {what}: a one-character printable literal is expected")
    return f'"{node.value}"%char'


def int_lit(cx, node, what, lo=None):
    need(isinstance(node, ast.Constant) and isinstance(node.value, int) and not isinstance(node.value, bool) and (lo is None or node.value >= lo),
         f"{cx.fname}: {what}: an int literal is expected")
    return node.value


def tr3_e(cx, node):
    d = ast.dump(node)
    src = ast.unparse(node)[:80]
    if d in cx.atoms:
        return [], cx.atoms[d][0], cx.atoms[d][1]
    if isinstance(node, ast.Constant) and isinstance(node.value, str):
        return [], coq_str3(node.value), STR3
    if isinstance(node, ast.IfExp):
        b1, t1, ty1 = tr3_e(cx, node.test)
        b2, t2, ty2 = tr3_e(cx, node.body)
        b3, t3, ty3 = tr3_e(cx, node.orelse)
        need(ty1 == BOOL and ty2 == ty3 and not b2 and not b3, f"{cx.fname}: conditional expression {src}")
        return b1, f"(if {t1} then {t2} else {t3})", ty2
    if isinstance(node, ast.BinOp) and isinstance(node.op, ast.Add):
        b1, t1, ty1 = tr3_e(cx, node.left)
        b2, t2, ty2 = tr3_e(cx, node.right)
        if ty1 == STR3 or ty2 == STR3:
            need(ty1 == STR3 and ty2 == STR3, f"{cx.fname}: + on {ty1} / {ty2}: {src}")
            return b1 + b2, f"({t1} ++ {t2})%string", STR3
        need(ty1 == INT and ty2 == INT, f"{cx.fname}: + on {ty1} / {ty2}: {src}")
        return b1 + b2, f"(Z.add {t1} {t2})", INT
    if isinstance(node, ast.Compare) and len(node.ops) == 1 and isinstance(node.ops[0], ast.Lt):
        b1, t1, ty1 = tr3_e(cx, node.left)
        b2, t2, ty2 = tr3_e(cx, node.comparators[0])
        need(ty1 == INT and ty2 == INT, f"{cx.fname}: < on {ty1} / {ty2}: {src}")
        return b1 + b2, f"(Z.ltb {t1} {t2})", BOOL
    if isinstance(node, ast.Call) and not node.keywords:
        f, a = node.func, node.args
        if isinstance(f, ast.Name) and f.id in ("abs", "oct", "int") and len(a) == 1:
            b, t, ty = tr3_e(cx, a[0])
            if f.id == "abs":
                need(ty == INT, f"{cx.fname}: abs of a {ty}")
                return b, f"(Z.abs {t})", INT
            if f.id == "oct":
                need(ty == INT, f"{cx.fname}: oct of a {ty}")
                return b, f"(py3_oct {t})", STR3
            need(ty == STR3, f"{cx.fname}: int() of a {ty}: {src}")
            v = cx.fresh()
            return b + [(v, f"py3_int {t} {coq_string('ValueError: int() in ' + FUNC_NAME[cx.fname])}")], v, INT
        if isinstance(f, ast.Name) and f.id == "isinstance" and len(a) == 2:
            b, t, ty = tr3_e(cx, a[0])
            need(ty == INT and isinstance(a[1], ast.Name) and a[1].id == "int" and not b, f"{cx.fname}: only isinstance(<int-typed>, int): {src}")
            return [], "true", BOOL
        if isinstance(f, ast.Attribute):
            if f.attr == "startswith" and len(a) == 1:
                b, t, ty = tr3_e(cx, f.value)
                need(ty == STR3 and isinstance(a[0], ast.Constant) and isinstance(a[0].value, str), f"{cx.fname}: startswith: {src}")
                return b, f"(py3_startswith {t} {coq_str3(a[0].value)})", BOOL
            if f.attr == "partition" and len(a) == 1:
                b, t, ty = tr3_e(cx, f.value)
                need(ty == STR3, f"{cx.fname}: partition of a {ty}: {src}")
                return b, f"(py3_partition {t} {char_lit(cx, a[0], 'partition')})", PART3
            if f.attr == "rjust" and len(a) == 2:
                b, t, ty = tr3_e(cx, f.value)
                need(ty == STR3, f"{cx.fname}: rjust of a {ty}: {src}")
                return b, f"(py3_rjust {t} {zlit(int_lit(cx, a[0], 'rjust width'))} {char_lit(cx, a[1], 'rjust fill')})", STR3
            if f.attr == "items" and not a:
                b, t, ty = tr3_e(cx, f.value)
                need(ty == DD, f"{cx.fname}: items() of a {ty}: {src}")
                return b, t, DDITEMS
    if isinstance(node, ast.Subscript):
        b1, t1, ty1 = tr3_e(cx, node.value)
        sl = node.slice
        if ty1 == STR3:
            need(isinstance(sl, ast.Slice) and sl.upper is None and sl.step is None and sl.lower is not None, f"{cx.fname}: only s[n:] on a str: {src}")
            return b1, f"(py3_drop {t1} {zlit(int_lit(cx, sl.lower, 'slice start', 0))})", STR3
        if ty1 == PART3:
            k = int_lit(cx, sl, "index of a partition result", 0)
            need(k <= 2, f"{cx.fname}: index {k} of a partition result")
            return b1, f"(py3_part{k} {t1})", STR3
        if ty1 == ITEM:
            k = int_lit(cx, sl, "index of a pair", 0)
            need(k <= 1, f"{cx.fname}: index {k} of a pair")
            return b1, f"({'fst' if k == 0 else 'snd'} {t1})", (STR3, INT)[k]
        if ty1 == PMAP:
            b2, t2, ty2 = tr3_e(cx, sl)
            need(ty2 == INT, f"{cx.fname}: prefix map key of type {ty2}: {src}")
            v = cx.fresh()
            return b1 + b2 + [(v, f"py3_lookup {t1} {t2} {coq_string('KeyError: ' + ast.unparse(node.value).split('.')[-1][:40])}")], v, STATE
        if ty1 == STATE:
            need(isinstance(sl, ast.Constant) and sl.value == "filename", f"{cx.fname}: a state is only read through [\"filename\"]: {src}")
            return b1, t1, STR3
    return _base_tr_e(cx, node)


def sort_call(s):
    """L.sort(key=lambda x: K) -> (L, x, K) or None"""
    if not (isinstance(s, ast.Expr) and isinstance(s.value, ast.Call)):
        return None
    c = s.value
    if not (isinstance(c.func, ast.Attribute) and c.func.attr == "sort" and isinstance(c.func.value, ast.Name) and not c.args
            and len(c.keywords) == 1 and c.keywords[0].arg == "key" and isinstance(c.keywords[0].value, ast.Lambda)):
        return None
    lam = c.keywords[0].value
    la = lam.args
    if la.vararg or la.kwarg or la.kwonlyargs or la.defaults or la.posonlyargs or len(la.args) != 1:
        return None
    return c.func.value.id, la.args[0].arg, lam.body


def key_term(cx, node):
    """a sort key: an int / str expression or a tuple of them -> (term, ltb term, eqb term)"""
    if isinstance(node, ast.Tuple):
        need(len(node.elts) == 2, f"{cx.fname}: a sort key tuple of {len(node.elts)} components")
        t1, l1, e1 = key_term(cx, node.elts[0])
        t2, l2, e2 = key_term(cx, node.elts[1])
        need(e1 is not None, f"{cx.fname}: nested tuple as the first component of a sort key")
        return f"({t1}, {t2})", f"(py3_pair_ltb {l1} {e1} {l2})", None
    b, t, ty = tr3_e(cx, node)
    need(not b and ty in LT, f"{cx.fname}: sort key component of type {ty}")
    return t, LT[ty][0], LT[ty][1]


def tr3_block(cx, stmts, tail, toplevel):
    if not stmts:
        return _base_tr_block(cx, stmts, tail, toplevel)
    s, rest = stmts[0], stmts[1:]
    src = ast.unparse(s)[:80]
    if isinstance(s, ast.AugAssign) and isinstance(s.op, ast.Add) and isinstance(s.target, ast.Name) and cx.vars.get(s.target.id) == STR3:
        new = ast.Assign(targets=[ast.Name(id=s.target.id, ctx=ast.Store())], value=ast.BinOp(left=ast.Name(id=s.target.id, ctx=ast.Load()), op=ast.Add(), right=s.value))
        ast.copy_location(new, s)
        ast.fix_missing_locations(new)
        return tr3_block(cx, [new] + rest, tail, toplevel)
    if isinstance(s, ast.Assign) and len(s.targets) == 1 and isinstance(s.targets[0], ast.Name) and ast.dump(s.value) == ast.dump(ast.parse("collections.defaultdict(list)", mode="eval").body):
        name = s.targets[0].id
        need(name not in cx.vars, f"{cx.fname}: {name} is rebound to a defaultdict")
        cx.vars[name] = DD
        body = tr3_block(cx, rest, tail, toplevel)
        return f"let v_{name} := (@nil (string * list (string * Z))) in {body}"
    if isinstance(s, ast.Expr) and isinstance(s.value, ast.Call) and isinstance(s.value.func, ast.Attribute) and s.value.func.attr == "append" \
            and isinstance(s.value.func.value, ast.Subscript) and isinstance(s.value.func.value.value, ast.Name) and cx.vars.get(s.value.func.value.value.id) == DD:
        c = s.value
        name = c.func.value.value.id
        need(len(c.args) == 1 and not c.keywords and isinstance(c.args[0], ast.Tuple) and len(c.args[0].elts) == 2, f"{cx.fname}: only D[k].append((a, b)): {src}")
        bk, tk, tyk = tr3_e(cx, c.func.value.slice)
        ba, ta, tya = tr3_e(cx, c.args[0].elts[0])
        bb, tb, tyb = tr3_e(cx, c.args[0].elts[1])
        need(tyk == STR3 and (tya, tyb) == (STR3, INT), f"{cx.fname}: append of ({tya}, {tyb}) under a key of type {tyk}: {src}")
        body = tr3_block(cx, rest, tail, toplevel)
        return wrap(bk + ba + bb, f"let v_{name} := py3_dd_append v_{name} {tk} ({ta}, {tb}) in {body}")
    sc = sort_call(s)
    if sc is not None:
        name, arg, key = sc
        need(id(s) in cx.sort_ok and cx.vars.get(name) == LITEM, f"{cx.fname}: L.sort(key=...) is only recognised directly in the body of the `for` that binds L: {src}")
        need(arg not in cx.vars, f"{cx.fname}: the lambda parameter {arg} shadows a local")
        cx.vars[arg] = ITEM
        kt, lt, _ = key_term(cx, key)
        del cx.vars[arg]
        body = tr3_block(cx, rest, tail, toplevel)
        return f"let v_{name} := py3_sort {lt} (fun v_{arg} : string * Z => {kt}) v_{name} in {body}"
    if isinstance(s, ast.If) and not s.orelse and not rest and tail is not None:
        need(not any(isinstance(n, (ast.Return, ast.For, ast.While, ast.Break, ast.Continue)) for x in s.body for n in ast.walk(x)),
             f"{cx.fname}: return / loop inside an `if`: {src}")
        b, t, ty = tr3_e(cx, s.test)
        need(ty == BOOL, f"{cx.fname}: `if` on a {ty}: {src}")
        saved, sd = dict(cx.vars), set(cx.digits)
        a_ = tr3_block(cx, list(s.body), tail, toplevel)
        cx.vars, cx.digits = saved, sd
        return wrap(b, f"(if {t} then {a_} else {tail})")
    return _base_tr_block(cx, stmts, tail, toplevel)


def assigned3(stmts):
    """as gen_pure2.assigned_names, but a recognised L.sort(...) does not count (it rebinds the loop target L inside
    the loop body only: checked in tr3_block through cx.sort_ok)"""
    pruned = []
    for s in stmts:
        if sort_call(s) is not None:
            continue
        pruned.append(s)
    return _base_assigned(pruned)      # a sort deeper than the direct body is seen by the base function (and refused there)


G2.tr_e, G2.tr_block, G2.assigned_names = tr3_e, tr3_block, assigned3
FUNC_NAME = {}


def gen3_function(coq_name, py_name, src_desc, stmts, params, atoms):
    ptys = dict(params)
    cx = G2.Cx(coq_name, {ast.dump(ast.parse(src, mode="eval").body): (p, ptys[p]) for src, p in atoms.items()})
    FUNC_NAME[coq_name] = py_name
    cx.params = [(p, G2.COQTY[t]) for p, t in params]
    stmts = list(stmts)
    need(not any(isinstance(n, (ast.FunctionDef, ast.While, ast.Try, ast.With, ast.Global, ast.Nonlocal, ast.Delete)) for s in stmts for n in ast.walk(s)),
         f"{coq_name}: nested def / while / try / with / del")
    # a lambda only as the key of a recognised sort; such a sort only directly in the body of the `for` binding its list
    cx.sort_ok = set()
    lambdas_ok = set()
    for n in [x for s in stmts for x in ast.walk(s)]:
        if isinstance(n, ast.For):
            tnames = [e.id for e in ast.walk(n.target) if isinstance(e, ast.Name)]
            for st in n.body:
                sc = sort_call(st)
                if sc is not None and sc[0] in tnames:
                    cx.sort_ok.add(id(st))
                    lambdas_ok.add(id(st.value.keywords[0].value))
    for n in [x for s in stmts for x in ast.walk(s)]:
        need(not isinstance(n, ast.Lambda) or id(n) in lambdas_ok, f"{coq_name}: lambda outside `L.sort(key=lambda ...)` of a loop target L")
    body = tr3_block(cx, stmts, None, True)
    binder = " ".join(f"({p} : {t})" for p, t in cx.params)
    return "".join(t + "\n" for t in cx.loops) + f"(* {src_desc} *)\nDefinition {coq_name} {binder} : res ({G2.COQTY[cx.ret]}) :=\n  {body}.\n"


# ------------------------------------------------------------------------------------------------
def units_listing3():
    tree, _ = parse("pdpy11/compiler.py")
    fn = locate(tree, ["Compiler", "generate_listing"], "compiler.py")
    need(plain_params(fn, "generate_listing") == ["self"], "generate_listing takes parameters")
    stmts = list(fn.body)
    # `for name, (_, addr) in self.symbols.items()` with `_` unused: the table is read as (key, awaited address)
    loops = [s for s in stmts if isinstance(s, ast.For) and ast.dump(s.iter) == ast.dump(ast.parse("self.symbols.items()", mode="eval").body)]
    need(len(loops) == 1, "generate_listing: exactly one loop over self.symbols.items() is expected")
    lp = loops[0]
    t = lp.target
    need(isinstance(t, ast.Tuple) and len(t.elts) == 2 and isinstance(t.elts[0], ast.Name) and isinstance(t.elts[1], ast.Tuple) and len(t.elts[1].elts) == 2
         and all(isinstance(e, ast.Name) for e in t.elts[1].elts), "generate_listing: `for name, (_, addr) in self.symbols.items()` expected")
    unused = t.elts[1].elts[0].id
    need(sum(1 for n in ast.walk(fn) if isinstance(n, ast.Name) and n.id == unused) == 1, f"generate_listing: the first component `{unused}` of a symbol's value is used")
    lp.target = ast.Tuple(elts=[t.elts[0], t.elts[1].elts[1]], ctx=ast.Store())
    ast.copy_location(lp.target, t)
    # `self` only as self.symbols.items() / self.internal_prefix_to_state
    selfs = [n for n in ast.walk(fn) if isinstance(n, ast.Attribute) and isinstance(n.value, ast.Name) and n.value.id == "self"]
    need(sum(1 for n in ast.walk(fn) if isinstance(n, ast.Name) and n.id == "self") == len(selfs) and all(a.attr in ("symbols", "internal_prefix_to_state") for a in selfs),
         "generate_listing: self is used other than as self.symbols / self.internal_prefix_to_state")
    # the defaultdict is only bound, appended to and iterated once (so sorting its lists in place is not observable)
    dds = [s.targets[0].id for s in stmts if isinstance(s, ast.Assign) and len(s.targets) == 1 and isinstance(s.targets[0], ast.Name)
           and ast.dump(s.value) == ast.dump(ast.parse("collections.defaultdict(list)", mode="eval").body)]
    for d in dds:
        uses = [n for n in ast.walk(fn) if isinstance(n, ast.Name) and n.id == d]
        need(len(uses) == 3, f"generate_listing: the defaultdict {d} is expected to occur exactly as `{d} = ...`, `{d}[k].append(...)`, `{d}.items()`")
    return [gen3_function("g_generate_listing", "generate_listing", "pdpy11/compiler.py Compiler.generate_listing", stmts,
                          [("symbols", LSYM), ("pm", PMAP)], {"self.symbols.items()": "symbols", "self.internal_prefix_to_state": "pm"})]


# ------------------------------------------------------------------------------------------------
# .byte / .word / .dword: the whole bodies (odd-address prefix, implicit operand, the b"".join over the operands)
#   statements   x = b"..." | if wait(state["emit_address"]) % 2 == 1: (x = b"..." | reports.error/warning("id", ...))* |
#                if not <operands>: reports...; return <bytes> | def encode_i32 (the nested def gen_pure translates into
#                Gen/GenPureDirectives.v, referred to) | return <bytes> (last)
#   <bytes>      b"..." | a local | <bytes> + <bytes> | b"".join(F(x) for x in <operands>) with F = struct.pack("<B"|"<H", .)
#                or the nested def
#   The generated function returns res (reports in order as (kind, identifier), bytes); an exception (struct.error)
#   is a Crash.  reports.error / reports.warning record and continue (gen_pure's reading); the message arguments are data.
#   b"".join(<generator>) evaluates F on the operands in order and raises at the first failure (py3_join_map).
def bytes_lit(v):
    return "[" + "; ".join(str(b) for b in v) + "]" if v else "(@nil Z)"


def dump_e(src):
    return ast.dump(ast.parse(src, mode="eval").body)


def report_call(s, what):
    """reports.error / reports.warning("id", <anything>) -> (kind, id)"""
    need(isinstance(s, ast.Expr) and isinstance(s.value, ast.Call) and isinstance(s.value.func, ast.Attribute) and ast.dump(s.value.func.value) == dump_e("reports")
         and s.value.func.attr in ("error", "warning") and len(s.value.args) == 2 and not s.value.keywords
         and isinstance(s.value.args[0], ast.Constant) and isinstance(s.value.args[0].value, str), f"{what}: reports.error / reports.warning(\"id\", ...) expected: {ast.unparse(s)[:60]}")
    return s.value.func.attr, s.value.args[0].value


def gen_directive(tree, py_name, coq_name):
    what = f"metacommands.py {py_name}"
    fn = locate(tree, [py_name], "metacommands.py")
    a = fn.args
    need([x.arg for x in a.args] == ["state"] and a.vararg is not None and not a.kwarg and not a.kwonlyargs and not a.defaults and not a.posonlyargs, f"{what}: (state, *operands) expected")
    ops = a.vararg.arg
    bvars, funcs, binds = set(), {}, [0]

    def tr_bytes(node):
        """-> (bindings, term)"""
        if isinstance(node, ast.Constant) and isinstance(node.value, bytes):
            return [], bytes_lit(node.value)
        if isinstance(node, ast.Name):
            need(node.id in bvars, f"{what}: unknown bytes local {node.id}")
            return [], "v_" + node.id
        if isinstance(node, ast.BinOp) and isinstance(node.op, ast.Add):
            b1, t1 = tr_bytes(node.left)
            b2, t2 = tr_bytes(node.right)
            return b1 + b2, f"({t1} ++ {t2})"
        if isinstance(node, ast.Call) and isinstance(node.func, ast.Attribute) and node.func.attr == "join" and isinstance(node.func.value, ast.Constant) and node.func.value.value == b"" \
                and len(node.args) == 1 and not node.keywords and isinstance(node.args[0], ast.GeneratorExp):
            g = node.args[0]
            need(len(g.generators) == 1 and not g.generators[0].ifs and not g.generators[0].is_async and isinstance(g.generators[0].target, ast.Name)
                 and isinstance(g.generators[0].iter, ast.Name) and g.generators[0].iter.id == ops, f"{what}: generator shape {ast.unparse(node)[:70]}")
            x = g.generators[0].target.id
            e = g.elt
            need(isinstance(e, ast.Call) and not e.keywords, f"{what}: generator element {ast.unparse(e)[:60]}")
            if ast.dump(e.func) == dump_e("struct.pack"):
                need(len(e.args) == 2 and isinstance(e.args[0], ast.Constant) and e.args[0].value in ("<B", "<H") and isinstance(e.args[1], ast.Name) and e.args[1].id == x,
                     f"{what}: only struct.pack(\"<B\" | \"<H\", x): {ast.unparse(e)[:60]}")
                f = {"<B": "pack_B", "<H": "pack_H"}[e.args[0].value]
            else:
                need(isinstance(e.func, ast.Name) and e.func.id in funcs and len(e.args) == 1 and isinstance(e.args[0], ast.Name) and e.args[0].id == x, f"{what}: generator element {ast.unparse(e)[:60]}")
                f = funcs[e.func.id]
            binds[0] += 1
            t = f"t{binds[0]}"
            return [(t, f"py3_join_map {f} v_{ops}")], t
        need(False, f"{what}: bytes expression {ast.unparse(node)[:70]}")

    def block(stmts):
        need(stmts, f"{what}: a path falls off the end")
        s, rest = stmts[0], stmts[1:]
        src = ast.unparse(s)[:70]
        if isinstance(s, ast.Return):
            need(not rest and s.value is not None, f"{what}: return is not last: {src}")
            b, t = tr_bytes(s.value)
            return wrap(b, f"Ok (v_reports, {t})")
        if isinstance(s, ast.Assign):
            need(len(s.targets) == 1 and isinstance(s.targets[0], ast.Name) and isinstance(s.value, ast.Constant) and isinstance(s.value.value, bytes), f"{what}: only x = b\"...\": {src}")
            bvars.add(s.targets[0].id)
            return f"let v_{s.targets[0].id} := {bytes_lit(s.value.value)} in\n  {block(rest)}"
        if isinstance(s, ast.FunctionDef):
            # the nested def of dword that gen_pure translates (same path) into Gen.GenPureDirectives
            need(py_name == "dword" and s.name == "encode_i32" and s is locate(tree, ["dword", "encode_i32"], "metacommands.py"), f"{what}: nested def {s.name}")
            funcs[s.name] = "GenPureDirectives.encode_i32"
            return block(rest)
        if isinstance(s, ast.Expr) and isinstance(s.value, ast.Call):
            kind, ident = report_call(s, what)
            return f"let v_reports := v_reports ++ [({coq_string(kind)}, {coq_string(ident)})] in\n  {block(rest)}"
        if isinstance(s, ast.If):
            need(not s.orelse, f"{what}: if/else: {src}")
            if ast.dump(s.test) == dump_e(f"not {ops}"):
                # the branch ends in a return: no join
                need(isinstance(s.body[-1], ast.Return), f"{what}: `if not {ops}:` is expected to end in a return")
                saved = set(bvars)
                a_ = block(list(s.body))
                bvars.clear()
                bvars.update(saved)
                return f"if (match v_{ops} with [] => true | _ => false end) then\n    ({a_})\n  else\n  {block(rest)}"
            need(ast.dump(s.test) == dump_e('wait(state["emit_address"]) % 2 == 1'), f"{what}: `if` test {ast.unparse(s.test)[:60]}")
            changed, body = [], []
            for x in s.body:
                if isinstance(x, ast.Assign):
                    need(len(x.targets) == 1 and isinstance(x.targets[0], ast.Name) and x.targets[0].id in bvars and isinstance(x.value, ast.Constant) and isinstance(x.value.value, bytes),
                         f"{what}: only x = b\"...\" of an earlier local inside the `if`: {ast.unparse(x)[:60]}")
                    body.append(f"let v_{x.targets[0].id} := {bytes_lit(x.value.value)} in")
                    if x.targets[0].id not in changed:
                        changed.append(x.targets[0].id)
                else:
                    kind, ident = report_call(x, what)
                    body.append(f"let v_reports := v_reports ++ [({coq_string(kind)}, {coq_string(ident)})] in")
            tup = "(" + ", ".join(["v_reports"] + ["v_" + c for c in changed]) + ")"
            return f"let '{tup} := if (Z.eqb (Z.modulo emit_address 2) 1) then ({' '.join(body)} {tup}) else {tup} in\n  {block(rest)}"
        need(False, f"{what}: statement shape {src}")

    need(sum(1 for n in ast.walk(fn) if isinstance(n, ast.Name) and n.id == "state") == sum(1 for n in ast.walk(fn) if ast.dump(n) in (dump_e('state["emit_address"]'), dump_e('state["insn"]'))),
         f"{what}: state is used other than as state[\"emit_address\"] / state[\"insn\"]")
    body = block(list(fn.body))
    return (f"(* pdpy11/metacommands.py def {py_name}(state, *{ops}): the whole body; operands already cooked by the wrapper *)\n"
            f"Definition {coq_name} (emit_address : Z) (v_{ops} : list Z) : res (list (string * string) * list Z) :=\n  let v_reports := (@nil (string * string)) in\n  {body}.\n")


def units_directives3():
    tree, _ = parse("pdpy11/metacommands.py")
    return [gen_directive(tree, n, "g_" + n + "_body") for n in ("byte", "word", "dword")]


DIR_HEAD = """From Verif Require Import Base.Res Base.Bytes Gen.GenPure Gen.GenPureDirectives Gen.GenPure3.
Open Scope list_scope.
Open Scope Z_scope.
Open Scope bool_scope.

(* translated from the source: every Definition below is regenerated on each run *)
"""


def gen_pure3_directives():
    return {"GenPure3Directives.v": HEADER.format(src="pdpy11/metacommands.py (byte, word, dword) by tools/gens/gen_pure3.py") + DIR_HEAD + "\n".join(units_directives3())}


gen_pure3_directives.outputs = ["GenPure3Directives.v"]

GROUP_HEAD = """From Verif Require Import Base.Res Base.Bytes Gen.GenPure Gen.GenPure2 Gen.GenPure3.
Open Scope list_scope.
Open Scope Z_scope.
Open Scope bool_scope.

(* translated from the source: every Definition / Fixpoint below is regenerated on each run *)
"""


def gen_pure3():
    """the constant prelude (no source is read)"""
    return {"GenPure3.v": HEADER.format(src="(constant text) by tools/gens/gen_pure3.py") + PRELUDE}


def gen_pure3_listing():
    return {"GenPure3Listing.v": HEADER.format(src="pdpy11/compiler.py (generate_listing) by tools/gens/gen_pure3.py") + GROUP_HEAD + "\n".join(units_listing3())}


gen_pure3.outputs = ["GenPure3.v"]
gen_pure3_listing.outputs = ["GenPure3Listing.v"]
GENERATORS = [gen_pure3, gen_pure3_listing, gen_pure3_directives]
