"""Translator plug-in for C16: PINS the source of the mechanisms that Model/TreeCache.v mirrors by hand.

hoist() (both branches, with their copy.copy calls), the statement that applies it, wrap_impure, the two
resolve() methods that use it, the fixup_label closure with the condition that guards it, and
metacommands.repeat are compared (ast.dump, i.e. modulo comments and layout) with the text the model was
written against.  Any edit aborts the translator: Gen/GenTreeCachePins.v goes stale, every property whose
files import it (Model/TreeCache.v does) reports a broken obligation and the model-free search runs."""
import ast

from translate import parse, need, find_def, find_class, find_assign, const_int, dump_eq, HEADER

HOIST = r'''
def hoist(token):
    if isinstance(token, operators.InfixOperator) and not isinstance(token, operators.call):
        rhs = hoist(token.rhs)
        if rhs is not token.rhs:
            token = copy.copy(token)
            token.rhs = rhs
        if isinstance(token.rhs, operators.call) and try_as_register(token.rhs.rhs, state) is not None:
            register = token.rhs.rhs
            ctx_end = token.ctx_end
            token = copy.copy(token)
            token.rhs = token.rhs.lhs
            token.ctx_end = token.rhs.ctx_end
            return operators.call(token.ctx_start, ctx_end, token, register)
    elif isinstance(token, operators.PrefixOperator):
        operand = hoist(token.operand)
        if operand is not token.operand:
            token = copy.copy(token)
            token.operand = operand
        if isinstance(token.operand, operators.call) and try_as_register(token.operand.rhs, state) is not None:
            register = token.operand.rhs
            ctx_end = token.ctx_end
            token = copy.copy(token)
            token.operand = token.operand.lhs
            token.ctx_end = token.operand.ctx_end
            return operators.call(token.ctx_start, ctx_end, token, register)
    return token
'''

HOIST_CALL = r'''
operand = hoist(operand)
'''

FIXUP_IF = r'''
if isinstance(operand, Number) and operand.is_valid_label:
    operand = Symbol(operand.ctx_start, operand.ctx_end, operand.representation, is_necessarily_label=True)
elif "(" not in operand.text() and ":" not in operand.text():
    # TODO: the condition of this if being '"(" not in operand.text()'
    # may not work for multiline expressions, e.g.
    #   clr @#1 +  ; comment here (abacaba)
    #   b
    fixup_active = True
    def fixup_label(token):
        nonlocal fixup_active
        if isinstance(token, operators.InfixOperator):
            token.lhs = fixup_label(token.lhs)
            token.rhs = fixup_label(token.rhs)
        elif isinstance(token, (operators.PrefixOperator, operators.PostfixOperator)):
            token.operand = fixup_label(token.operand)
        elif isinstance(token, Number) and token.is_valid_label:
            if fixup_active:
                reports.warning(
                    "label-fixup",
                    (insn.name.ctx_start, insn.name.ctx_end, f"Instruction '{insn.name.name}' takes an offset."),
                    (operand.ctx_start, operand.ctx_end, "It's operand is a complex expression."),
                    (token.ctx_start, token.ctx_end, f"Thus, for compatibility, the first number that can be parsed as a local label is treated as such.\nFor example, '1 + 2' is parsed as 'address of local label 1 plus two'.\nThis may be unintended, so please state your intent explicitly:\n- if you meant numbers to be numbers, add parentheses around the operand: '({operand!r})', and\n- if you wanted '{token!r}' to be a label, add a colon after it: '{token!r}:'.")
                )
                fixup_active = False
                return Symbol(token.ctx_start, token.ctx_end, token.representation, is_necessarily_label=True)
        elif isinstance(token, (Symbol, InstructionPointer)):
            fixup_active = False
        # Any other token (a number that cannot be a label, e.g. '8.' or
        # '-1', a character literal, a bracketed expression) is left as is
        return token
    fixup_label(operand)
'''

WRAP_IMPURE = r'''
def wrap_impure(expr, invoke):
    # The result is cached so that the diagnostics of an impure operator are
    # not repeated, but only for the operand values it was computed from: the
    # same token may be evaluated again with other operands (e.g. '.' in the
    # next iteration of '.repeat').
    def fn(*args):
        if expr.value is not None and len(expr.value_args) == len(args) and all(a is b or (isinstance(a, int) and isinstance(b, int) and a == b) for a, b in zip(expr.value_args, args)):
            return expr.value
        expr.value = invoke(*args)
        expr.value_args = args
        return expr.value
    return fn
'''

INFIX_RESOLVE = r'''
def resolve(self, state):
    lhs = self.lhs.resolve(state)
    rhs = self.rhs.resolve(state)

    # This is a nasty hack: self.fn(lhs, rhs) is the same as
    # type(self).fn(self, lhs, rhs), which is what we need when self.token
    # is True
    invoke = self.fn if self.token else type(self).fn
    if not self.pure:
        invoke = wrap_impure(self, invoke)

    if not isinstance(lhs, BaseDeferred) and not isinstance(rhs, BaseDeferred):
        return invoke(lhs, rhs)
    if self.awaited:
        return Deferred[self.return_type](lambda: invoke(wait(lhs), wait(rhs)))
    else:
        return Deferred[self.return_type](lambda: invoke(lhs, rhs))
'''

UNARY_RESOLVE = r'''
def resolve(self, state):
    operand = self.operand.resolve(state)

    invoke = self.fn if self.token else type(self).fn
    if not self.pure:
        invoke = wrap_impure(self, invoke)

    if not isinstance(operand, BaseDeferred):
        return invoke(operand)
    if self.awaited:
        return Deferred[self.return_type](lambda: invoke(wait(operand)))
    else:
        return Deferred[self.return_type](lambda: invoke(operand))
'''

REPEAT = r'''
def repeat(state, repetitions_count: uint, body: CodeBlock) -> bytes:
    compiler = state["compiler"]
    addr = state["emit_address"]
    chunks = []
    for _ in range(repetitions_count):
        # A program cannot hold more than 64 KiB, so this many repetitions (of
        # all '.repeat' blocks together) cannot be meant: stop instead of
        # looping for hours or running out of memory
        compiler.repetitions_compiled += 1
        if compiler.repetitions_compiled > MAX_REPETITIONS:
            reports.error(
                "value-out-of-bounds",
                (state["insn"].ctx_start, state["insn"].ctx_end, f"Too many repetitions: the '.repeat' blocks of this program are repeated more than {MAX_REPETITIONS} times in total")
            )
            break
        chunk = state["compiler"].compile_block({**state, "context": "repeat"}, body, addr)
        if isinstance(chunk, BaseDeferred):
            addr += chunk.length()
        else:
            addr += len(chunk)
        chunks.append(chunk)
    if not any(isinstance(chunk, BaseDeferred) for chunk in chunks):
        # Joined at once: adding the chunks up one by one copies the result so
        # far every time, which is quadratic in the number of repetitions
        return b"".join(chunks)
    result = b""
    for chunk in chunks:
        result += chunk
    return result
'''


def gen_treecache_pins():
    tree, _ = parse("pdpy11/insns.py")
    enc = find_def(find_class(tree, "RegisterModeOperandStub"), "encode")
    need(len(enc.body) > 2, "RegisterModeOperandStub.encode: body too short")
    dump_eq(enc.body[0], HOIST, "RegisterModeOperandStub.encode: hoist()")
    dump_eq(enc.body[1], HOIST_CALL, "RegisterModeOperandStub.encode: application of hoist")
    copies = sum(1 for n in ast.walk(enc.body[0]) if isinstance(n, ast.Call) and ast.unparse(n.func) == "copy.copy")
    off = find_def(find_class(tree, "OffsetOperandStub"), "encode")
    need(len(off.body) > 2, "OffsetOperandStub.encode: body too short")
    dump_eq(off.body[1], FIXUP_IF, "OffsetOperandStub.encode: label fixup")
    otree, _ = parse("pdpy11/operators.py")
    dump_eq(find_def(otree, "wrap_impure"), WRAP_IMPURE, "operators.wrap_impure")
    dump_eq(find_def(find_class(otree, "InfixOperator"), "resolve"), INFIX_RESOLVE, "InfixOperator.resolve")
    dump_eq(find_def(find_class(otree, "UnaryOperator"), "resolve"), UNARY_RESOLVE, "UnaryOperator.resolve")
    mtree, _ = parse("pdpy11/metacommands.py")
    rep = find_def(mtree, "repeat")
    rep.decorator_list = []
    dump_eq(rep, REPEAT, "metacommands.repeat")
    # the budget of repetitions compiled by all '.repeat' blocks together
    maxrep = find_assign(mtree, "MAX_REPETITIONS")
    need(isinstance(maxrep, ast.BinOp) and isinstance(maxrep.op, ast.Pow), "MAX_REPETITIONS is not a power expression")
    max_repetitions = const_int(maxrep.left, "MAX_REPETITIONS base") ** const_int(maxrep.right, "MAX_REPETITIONS exponent")
    ctree, _ = parse("pdpy11/compiler.py")
    init = find_def(find_class(ctree, "Compiler"), "__init__")
    need(any(ast.unparse(st) == "self.repetitions_compiled = 0" for st in init.body), "Compiler.__init__ no longer starts repetitions_compiled at 0")
    # '.include': nesting limit (the 33rd level is refused with 'recursive-include')
    inc = find_def(mtree, "include")
    maxinc = const_int(find_assign(mtree, "MAX_INCLUDE_DEPTH"), "MAX_INCLUDE_DEPTH")
    guards = [st for st in inc.body if isinstance(st, ast.If) and ast.unparse(st.test) == "compiler.include_depth >= MAX_INCLUDE_DEPTH"]
    need(len(guards) == 1, "include: the depth guard 'compiler.include_depth >= MAX_INCLUDE_DEPTH' is not there exactly once")
    need(any(isinstance(n, ast.Constant) and n.value == "recursive-include" for n in ast.walk(guards[0])), "include: the depth guard no longer reports 'recursive-include'")
    need(isinstance(guards[0].body[-1], ast.Return), "include: the depth guard no longer returns")
    tail = inc.body[inc.body.index(guards[0]) + 1:]
    need([ast.unparse(st).split("\n")[0] for st in tail] == ["compiler.include_depth += 1", "try:", "return code"],
         "include: depth bookkeeping around compile_include changed: " + repr([ast.unparse(st).split("\n")[0] for st in tail]))
    need(any(ast.unparse(st) == "self.include_depth = 0" for st in init.body), "Compiler.__init__ no longer starts include_depth at 0")
    out = HEADER.format(src="pdpy11/insns.py, pdpy11/operators.py, pdpy11/metacommands.py (pins) by tools/gens/gen_treecache.py")
    out += "(* the functions below were compared with the text Model/TreeCache.v was written against *)\n"
    out += "Definition pinned_functions : list string :=\n  [" + "; ".join('"%s"' % n for n in [
        "RegisterModeOperandStub.encode.hoist", "OffsetOperandStub.encode.fixup_label", "operators.wrap_impure",
        "InfixOperator.resolve", "UnaryOperator.resolve", "metacommands.repeat"]) + "].\n"
    out += "(* copy.copy calls in hoist(): rewritten nodes are shallow copies, the shared tree is never written *)\n"
    out += "Definition hoist_copy_calls : nat := %d.\n" % copies
    out += "(* MAX_REPETITIONS: iterations of all '.repeat' blocks of one assembly together (Compiler.repetitions_compiled starts at 0) *)\n"
    out += "Definition max_repetitions : Z := %d%%Z.\n" % max_repetitions
    out += "(* MAX_INCLUDE_DEPTH: an '.include' met at this nesting depth is refused with 'recursive-include' *)\n"
    out += "Definition max_include_depth : nat := %d.\n" % maxinc
    return {"GenTreeCachePins.v": out}


gen_treecache_pins.outputs = ["GenTreeCachePins.v"]
GENERATORS = [gen_treecache_pins]
