"""Translator plug-in: pdpy11/operators.py -> coq/Gen/GenOperators.v   (property C05, DESIGN 2.2a)

Every `@operator(signature, precedence=, associativity=, awaited=, pure=, token=)` becomes a row of
`operator_table` (source order, which is also the order in which the parser's alternatives are tried),
and every decorated function body becomes a Gallina function over Z.

Reading of Python used here (trusted, stated in the generated header as `py_*`):
  * ints are unbounded; `+ - * & | ^ ~` are total and are Z.add/sub/mul/land/lor/lxor/lnot;
  * `a // b`, `a % b` are the floor operations (Z.div / Z.modulo) and raise ZeroDivisionError iff b == 0;
  * `a << b`, `a >> b` raise ValueError iff b < 0, otherwise Z.shiftl / Z.shiftr (arithmetic, floor);
  * `a ** b` on ints is Z.pow for b >= 0 and is *not an int* (a float) for b < 0 -> modelled as Crash;
  * `wait(x)` of an int is x (operators are modelled on integer operands only);
  * `assert c` raises AssertionError iff not c;
  * `try: return E  except ZeroDivisionError: S` runs S exactly when E raised ZeroDivisionError;
  * `reports.error(id, ...)` records an error-severity diagnostic `id` and continues.
Partiality is never totalised: every raising case is an explicit `Crash site`; that no Crash is
reachable is a theorem (C05_ops_no_crash), not an assumption of the translator.

Anything outside this list of shapes aborts (fail closed).
"""
import ast

from translate import parse, need, const_str, const_int, coq_string, dump_eq, HEADER, TranslateAbort  # noqa: F401

PRELUDE = r"""From Verif Require Import Base.Res.
Open Scope Z_scope.

(* ---- meaning of the Python integer operators used by operators.py (trusted reading) ---- *)
Definition py_floordiv (a b : Z) : res Z := if Z.eqb b 0 then Crash "ZeroDivisionError" else Ok (Z.div a b).
Definition py_mod (a b : Z) : res Z := if Z.eqb b 0 then Crash "ZeroDivisionError" else Ok (Z.modulo a b).
Definition py_lshift (a b : Z) : res Z := if Z.ltb b 0 then Crash "ValueError:negative shift count" else Ok (Z.shiftl a b).
Definition py_rshift (a b : Z) : res Z := if Z.ltb b 0 then Crash "ValueError:negative shift count" else Ok (Z.shiftr a b).
Definition py_pow (a b : Z) : res Z := if Z.ltb b 0 then Crash "TypeError:int ** negative int is a float" else Ok (Z.pow a b).
(* try: <r> except ZeroDivisionError: <h> *)
Definition catch_zde {A} (r h : res A) : res A :=
  match r with
  | Crash site => if String.eqb site "ZeroDivisionError" then h else r
  | _ => r
  end.
Definition py_assert {A} (c : bool) (site : string) (k : res A) : res A := if c then k else Crash site.
(* reports.error(id...) for every id of [errs] has happened, then <r> raised: both are kept *)
Definition reported_then {A} (errs : list string) (r : res A) : res A :=
  match r with
  | Crash site => Err (errs ++ [String.append "raised " site])
  | _ => r
  end.

(* value returned by an operator body together with the identifiers it passed to reports.error, in order *)
Definition opres := (Z * list string)%type.

Inductive op_kind := KPrefix | KInfix | KPostfix.
Record op_row := mk_op_row {
  or_char : string;        (* operator characters, as written in the signature *)
  or_kind : op_kind;
  or_prec : nat;
  or_left : bool;          (* associativity == "left" *)
  or_awaited : bool;
  or_pure : bool;
  or_token : bool;
  or_name : string         (* name of the decorated function *)
}.
"""

BINOPS = {
    ast.Add: ("pure", "Z.add"), ast.Sub: ("pure", "Z.sub"), ast.Mult: ("pure", "Z.mul"),
    ast.BitAnd: ("pure", "Z.land"), ast.BitOr: ("pure", "Z.lor"), ast.BitXor: ("pure", "Z.lxor"),
    ast.FloorDiv: ("res", "py_floordiv"), ast.Mod: ("res", "py_mod"),
    ast.LShift: ("res", "py_lshift"), ast.RShift: ("res", "py_rshift"), ast.Pow: ("res", "py_pow"),
}
CMPOPS = {ast.GtE: "Z.geb", ast.Gt: "Z.gtb", ast.LtE: "Z.leb", ast.Lt: "Z.ltb", ast.Eq: "Z.eqb"}


MODULE = {"tree": None, "consts": {}, "helpers": {}, "helper_defs": []}


def const_value(node, what):
    """module-level integer constant expression: literals with + - * ** only"""
    if isinstance(node, ast.Constant) and isinstance(node.value, int) and not isinstance(node.value, bool):
        return node.value
    if isinstance(node, ast.UnaryOp) and isinstance(node.op, ast.USub):
        return -const_value(node.operand, what)
    if isinstance(node, ast.BinOp) and isinstance(node.op, (ast.Add, ast.Sub, ast.Mult, ast.Pow)):
        a, b = const_value(node.left, what), const_value(node.right, what)
        if isinstance(node.op, ast.Pow):
            need(0 <= b <= 64 and abs(a) <= 16, f"{what}: power out of the recognised range")
            return a ** b
        return {ast.Add: a + b, ast.Sub: a - b, ast.Mult: a * b}[type(node.op)]
    need(False, f"{what}: not a constant integer expression: {ast.unparse(node)[:60]}")


def module_const(name):
    """NAME = <constant int expression> at module level, assigned exactly once and never rebound"""
    if name in MODULE["consts"]:
        return MODULE["consts"][name]
    tree = MODULE["tree"]
    hits = [n for n in ast.walk(tree) if isinstance(n, (ast.Assign, ast.AugAssign, ast.AnnAssign))
            and any(isinstance(t, ast.Name) and t.id == name for t in (n.targets if isinstance(n, ast.Assign) else [n.target]))]
    top = [n for n in tree.body if isinstance(n, ast.Assign) and len(n.targets) == 1 and isinstance(n.targets[0], ast.Name) and n.targets[0].id == name]
    need(len(hits) == 1 and len(top) == 1, f"unknown name {name} (not a parameter, not a module constant assigned exactly once)")
    need(not any(isinstance(n, (ast.Global, ast.Nonlocal)) and name in n.names for n in ast.walk(tree)), f"{name} is declared global somewhere")
    v = const_value(top[0].value, name)
    MODULE["consts"][name] = (v, ast.unparse(top[0].value))
    return MODULE["consts"][name]


def tr_helper(name):
    """a plain module-level function of integers called from an operator body:
         [if <cond>: raise Exc()]*  return <expr>      ->  Definition fn_<name> (params : Z) : res Z"""
    if name in MODULE["helpers"]:
        return MODULE["helpers"][name]
    tree = MODULE["tree"]
    fns = [n for n in tree.body if isinstance(n, ast.FunctionDef) and n.name == name]
    need(len(fns) == 1, f"call of {name}: not a module-level function defined exactly once")
    fn = fns[0]
    need(not fn.decorator_list, f"helper {name}: decorated")
    ar = fn.args
    need(not ar.vararg and not ar.kwarg and not ar.kwonlyargs and not ar.defaults and ar.args, f"helper {name}: parameter list shape")
    params = [x.arg for x in ar.args]
    MODULE["helpers"][name] = len(params)     # registered first: recursion is not recognised
    cx = Ctx("helper " + name, params)
    body = [n for n in fn.body if not (isinstance(n, ast.Expr) and isinstance(n.value, ast.Constant))]

    def blk(stmts):
        need(stmts, f"helper {name}: falls off the end")
        st, rest = stmts[0], stmts[1:]
        if isinstance(st, ast.Return):
            need(st.value is not None and not rest, f"helper {name}: return shape")
            b, t = tr_expr(cx, st.value)
            return wrap(b, f"(Ok {t})")
        if isinstance(st, ast.If):
            need(not st.orelse and len(st.body) == 1 and isinstance(st.body[0], ast.Raise), f"helper {name}: only `if c: raise Exc()` is recognised")
            r = st.body[0]
            need(r.cause is None and isinstance(r.exc, ast.Call) and isinstance(r.exc.func, ast.Name) and not r.exc.args and not r.exc.keywords,
                 f"helper {name}: raise shape")
            c = tr_cond(cx, st.test)
            return f"(if {c} then Crash {coq_string(r.exc.func.id)} else {blk(rest)})"
        need(False, f"helper {name}: statement shape {ast.unparse(st)[:80]}")

    need(MODULE["helpers"][name] == len(params), "internal")
    text = blk(body)
    MODULE["helper_defs"].append(f"(* def {name}({', '.join(params)}) *)\nDefinition fn_{name} ({' '.join(params)} : Z) : res Z :=\n  {text}.\n")
    return len(params)


class Ctx:
    def __init__(self, fname, params):
        self.fname = fname
        self.vars = set(params)
        self.n = 0

    def fresh(self):
        self.n += 1
        return f"t{self.n}"


def zlit(v):
    return f"({v})" if v < 0 else str(v)


def tr_expr(cx, node):
    """-> (list of (var, res-term) bindings to run first, pure Z term)."""
    if isinstance(node, ast.Name):
        if node.id not in cx.vars:
            module_const(node.id)          # aborts when it is neither
        return [], node.id
    if isinstance(node, ast.Constant):
        need(isinstance(node.value, int) and not isinstance(node.value, bool), f"{cx.fname}: non-int constant {node.value!r}")
        return [], zlit(node.value)
    if isinstance(node, ast.Call):
        need(isinstance(node.func, ast.Name) and not node.keywords and not any(isinstance(a, ast.Starred) for a in node.args),
             f"{cx.fname}: call shape {ast.unparse(node)[:80]}")
        if node.func.id == "wait":
            need(len(node.args) == 1, f"{cx.fname}: wait() takes one argument")
            return tr_expr(cx, node.args[0])
        need(node.func.id not in cx.vars, f"{cx.fname}: call of a local name")
        arity = tr_helper(node.func.id)
        need(len(node.args) == arity, f"{cx.fname}: {node.func.id} called with {len(node.args)} arguments")
        bs, ts = [], []
        for a in node.args:           # arguments are evaluated left to right, then the call
            b, t = tr_expr(cx, a)
            bs += b
            ts.append(t)
        v = cx.fresh()
        return bs + [(v, f"fn_{node.func.id} " + " ".join(ts))], v
    if isinstance(node, ast.UnaryOp):
        b, t = tr_expr(cx, node.operand)
        if isinstance(node.op, ast.USub):
            return b, f"(Z.opp {t})"
        if isinstance(node.op, ast.UAdd):
            return b, t
        if isinstance(node.op, ast.Invert):
            return b, f"(Z.lnot {t})"
        need(False, f"{cx.fname}: unary operator {type(node.op).__name__}")
    if isinstance(node, ast.BinOp):
        need(type(node.op) in BINOPS, f"{cx.fname}: binary operator {type(node.op).__name__}")
        kind, fn = BINOPS[type(node.op)]
        b1, t1 = tr_expr(cx, node.left)
        b2, t2 = tr_expr(cx, node.right)   # Python evaluates left then right, then applies
        if kind == "pure":
            return b1 + b2, f"({fn} {t1} {t2})"
        v = cx.fresh()
        return b1 + b2 + [(v, f"{fn} {t1} {t2}")], v
    need(False, f"{cx.fname}: expression shape {ast.unparse(node)[:80]}")


def tr_cond(cx, node):
    need(isinstance(node, ast.Compare) and len(node.ops) == 1 and type(node.ops[0]) in CMPOPS,
         f"{cx.fname}: condition shape {ast.unparse(node)[:80]}")
    b1, t1 = tr_expr(cx, node.left)
    b2, t2 = tr_expr(cx, node.comparators[0])
    need(not b1 and not b2, f"{cx.fname}: raising operator inside a condition")
    return f"({CMPOPS[type(node.ops[0])]} {t1} {t2})"


def wrap(bindings, body):
    for v, t in reversed(bindings):
        body = f"(do {v} <- {t}; {body})"
    return body


def is_report(stmt):
    """reports.error("id", ...) as an expression statement -> id, else None."""
    if not (isinstance(stmt, ast.Expr) and isinstance(stmt.value, ast.Call)):
        return None
    f = stmt.value.func
    if isinstance(f, ast.Attribute) and isinstance(f.value, ast.Name) and f.value.id == "reports":
        return f.attr
    return None


def tr_block(cx, stmts, errs):
    """Statements that must end in `return` on every path -> term of type res opres.
    errs: identifiers already reported on this path (static)."""
    need(stmts, f"{cx.fname}: a path falls off the end of the function (returns None)")
    s, rest = stmts[0], stmts[1:]
    if isinstance(s, ast.Return):
        need(s.value is not None, f"{cx.fname}: bare return")
        need(not rest, f"{cx.fname}: code after return")
        b, t = tr_expr(cx, s.value)
        lst = "[" + "; ".join(coq_string(e) for e in errs) + "]"
        body = wrap(b, f"(Ok ({t}, {lst}))")
        if b and errs:
            body = f"(reported_then {lst} {body})"
        return body
    sev = is_report(s)
    if sev is not None:
        need(sev == "error", f"{cx.fname}: reports.{sev} inside an operator body (only reports.error is recognised)")
        call = s.value
        need(call.args and not call.keywords, f"{cx.fname}: reports.error without positional arguments")
        ident = const_str(call.args[0], f"{cx.fname}: report identifier")
        return tr_block(cx, rest, errs + [ident])
    if isinstance(s, ast.Assign):
        need(len(s.targets) == 1 and isinstance(s.targets[0], ast.Name), f"{cx.fname}: assignment target")
        name = s.targets[0].id
        b, t = tr_expr(cx, s.value)
        cx.vars.add(name)
        body = tr_block(cx, rest, errs)
        if t == name:
            return wrap(b, body)
        return wrap(b, f"(let {name} := {t} in {body})")
    if isinstance(s, ast.Assert):
        c = tr_cond(cx, s.test)
        body = tr_block(cx, rest, errs)
        return f"(py_assert {c} {coq_string('AssertionError:' + cx.fname)} {body})"
    if isinstance(s, ast.If):
        need(not rest, f"{cx.fname}: statements after an if/else (every branch must return)")
        c = tr_cond(cx, s.test)
        need(s.orelse, f"{cx.fname}: if without else")
        saved = set(cx.vars)
        a = tr_block(cx, s.body, errs)
        cx.vars = set(saved)
        b = tr_block(cx, s.orelse, errs)
        cx.vars = saved
        return f"(if {c} then {a} else {b})"
    if isinstance(s, ast.Try):
        need(not rest and not s.orelse and not s.finalbody and len(s.handlers) == 1, f"{cx.fname}: try shape")
        h = s.handlers[0]
        need(isinstance(h.type, ast.Name) and h.type.id == "ZeroDivisionError" and h.name is None,
             f"{cx.fname}: only `except ZeroDivisionError:` is recognised")
        need(len(s.body) == 1 and isinstance(s.body[0], ast.Return), f"{cx.fname}: try body must be a single return")
        a = tr_block(cx, s.body, errs)
        b = tr_block(cx, h.body, errs)
        return f"(catch_zde {a} {b})"
    need(False, f"{cx.fname}: statement shape {ast.unparse(s)[:80]}")


def tr_wrap_impure(tree):
    """wrap_impure(expr, invoke): the per-token result cache of the impure operators.
    Recognised: def fn(*args): if <hit>: return expr.value; expr.value = invoke(*args); [expr.value_args = args;] return expr.value
    where <hit> is `expr.value is not None`, optionally and-ed with the comparison of expr.value_args with args
    (same length, and element-wise identical or equal ints).  -> (keyed, records_args)"""
    fns = [n for n in tree.body if isinstance(n, ast.FunctionDef) and n.name == "wrap_impure"]
    need(len(fns) == 1, "def wrap_impure not found exactly once")
    w = fns[0]
    need([a.arg for a in w.args.args] == ["expr", "invoke"] and not w.args.vararg and not w.args.kwarg, "wrap_impure parameters")
    body = [n for n in w.body if not (isinstance(n, ast.Expr) and isinstance(n.value, ast.Constant))]
    need(len(body) == 2 and isinstance(body[0], ast.FunctionDef) and isinstance(body[1], ast.Return), "wrap_impure body shape")
    dump_eq(body[1], "return fn", "wrap_impure result")
    fn = body[0]
    need(not fn.args.args and fn.args.vararg is not None and fn.args.vararg.arg == "args" and not fn.args.kwarg
         and not fn.args.kwonlyargs and not fn.decorator_list, "wrap_impure.fn parameters")
    st = fn.body
    need(len(st) in (3, 4) and isinstance(st[0], ast.If) and not st[0].orelse, "wrap_impure.fn body shape")
    need(len(st[0].body) == 1, "wrap_impure.fn: cache-hit branch")
    dump_eq(st[0].body[0], "return expr.value", "wrap_impure.fn: cache-hit branch")
    dump_eq(st[1], "expr.value = invoke(*args)", "wrap_impure.fn: computing the value")
    dump_eq(st[-1], "return expr.value", "wrap_impure.fn: result")
    records = len(st) == 4
    if records:
        dump_eq(st[2], "expr.value_args = args", "wrap_impure.fn: recording the operands")
    test = st[0].test
    present = "expr.value is not None"
    same_len = "len(expr.value_args) == len(args)"
    same_val = "all(a is b or (isinstance(a, int) and isinstance(b, int) and a == b) for a, b in zip(expr.value_args, args))"
    if isinstance(test, ast.BoolOp):
        need(isinstance(test.op, ast.And) and len(test.values) == 3, "wrap_impure.fn: cache-hit condition")
        dump_eq(test.values[0], present, "wrap_impure.fn: cache-hit condition (1)")
        dump_eq(test.values[1], same_len, "wrap_impure.fn: cache-hit condition (2)")
        dump_eq(test.values[2], same_val, "wrap_impure.fn: cache-hit condition (3)")
        keyed = True
    else:
        dump_eq(test, present, "wrap_impure.fn: cache-hit condition")
        keyed = False
    need(not keyed or records, "wrap_impure.fn compares expr.value_args but never records it")
    # where it is applied: only to operators that are not pure, in both resolve() methods
    for cls in ("InfixOperator", "UnaryOperator"):
        c = [n for n in tree.body if isinstance(n, ast.ClassDef) and n.name == cls]
        need(len(c) == 1, f"class {cls}")
        r = [n for n in c[0].body if isinstance(n, ast.FunctionDef) and n.name == "resolve"]
        need(len(r) == 1, f"{cls}.resolve")
        hits = [n for n in ast.walk(r[0]) if isinstance(n, ast.If) and ast.dump(n.test) == ast.dump(ast.parse("not self.pure", mode="eval").body)]
        need(len(hits) == 1 and len(hits[0].body) == 1 and not hits[0].orelse, f"{cls}.resolve: `if not self.pure:`")
        dump_eq(hits[0].body[0], "invoke = wrap_impure(self, invoke)", f"{cls}.resolve: wrapping")
    return keyed, records


def kw_bool(call, name, default, fname):
    for k in call.keywords:
        if k.arg == name:
            need(isinstance(k.value, ast.Constant) and isinstance(k.value.value, bool), f"{fname}: {name}= is not a bool literal")
            return k.value.value
    return default


def gen_operators():
    tree, _ = parse("pdpy11/operators.py")
    MODULE.update({"tree": tree, "consts": {}, "helpers": {}, "helper_defs": []})
    # the decorator itself: how a signature is split and which defaults apply is checked literally
    deco = [n for n in tree.body if isinstance(n, ast.FunctionDef) and n.name == "operator"]
    need(len(deco) == 1, "def operator(...) not found exactly once")
    a = deco[0].args
    need([x.arg for x in a.args] == ["signature", "precedence", "associativity", "awaited", "pure", "token"]
         and [ast.dump(d) for d in a.defaults] == [ast.dump(ast.Constant(True)), ast.dump(ast.Constant(True)), ast.dump(ast.Constant(False))]
         and not a.vararg and not a.kwarg and not a.kwonlyargs,
         "signature/defaults of operator() changed (expected awaited=True, pure=True, token=False)")
    rows, defs, names = [], [], set()
    seen_char = set()
    for node in tree.body:
        if not isinstance(node, ast.FunctionDef):
            continue
        ops = [d for d in node.decorator_list if isinstance(d, ast.Call) and isinstance(d.func, ast.Name) and d.func.id == "operator"]
        if not ops:
            need(not node.decorator_list, f"{node.name}: unrecognised decorator")
            continue
        need(len(node.decorator_list) == 1, f"{node.name}: more than one decorator")
        call = ops[0]
        fname = node.name
        need(fname not in names, f"duplicate operator function {fname}")
        names.add(fname)
        need(len(call.args) == 1, f"{fname}: @operator positional arguments")
        sig = const_str(call.args[0], f"{fname}: signature")
        kws = {k.arg for k in call.keywords}
        need(kws <= {"precedence", "associativity", "awaited", "pure", "token"} and {"precedence", "associativity"} <= kws,
             f"{fname}: @operator keywords {sorted(kws)}")
        prec = const_int([k.value for k in call.keywords if k.arg == "precedence"][0], f"{fname}: precedence")
        need(0 <= prec < 1000, f"{fname}: precedence out of range")
        assoc = const_str([k.value for k in call.keywords if k.arg == "associativity"][0], f"{fname}: associativity")
        need(assoc in ("left", "right"), f"{fname}: associativity {assoc!r}")
        awaited = kw_bool(call, "awaited", True, fname)
        pure = kw_bool(call, "pure", True, fname)
        token = kw_bool(call, "token", False, fname)
        # operator(): kind and characters from the signature
        need(len(sig) >= 2, f"{fname}: signature too short")
        if sig[0] == "x" and sig[-1] == "x":
            kind, char, arity = "KInfix", sig[1:-1].strip(), 2
        elif sig[-1] == "x":
            kind, char, arity = "KPrefix", sig[:-1].strip(), 1
        elif sig[0] == "x":
            kind, char, arity = "KPostfix", sig[1:].strip(), 1
        else:
            need(False, f"{fname}: signature {sig!r} has no operand")
        need(char and " " not in char, f"{fname}: operator characters {char!r}")
        # the operator dictionaries are case-insensitive and later entries replace earlier ones
        key = (kind, char.lower())
        need(key not in seen_char, f"{fname}: operator {char!r} defined twice for the same kind")
        seen_char.add(key)
        # parameters
        ar = node.args
        need(not ar.vararg and not ar.kwarg and not ar.kwonlyargs and not ar.defaults, f"{fname}: parameter list shape")
        params = [x.arg for x in ar.args]
        if token:
            need(params and params[0] == "token", f"{fname}: token=True but first parameter is not `token`")
            params = params[1:]
        need(len(params) == arity, f"{fname}: {len(params)} value parameters for a {kind} operator")
        need(all(p not in ("token", "wait", "reports") for p in params), f"{fname}: parameter names")
        cx = Ctx(fname, params)
        body = tr_block(cx, list(node.body), [])
        binder = " ".join(params)
        defs.append(f"(* {sig!r} *)\nDefinition body_{fname} ({binder} : Z) : res opres :=\n  {body}.\n")
        b = lambda v: "true" if v else "false"
        rows.append((kind, char.lower(), fname,
                     f"mk_op_row {coq_string(char.lower())} {kind} {prec} {b(assoc == 'left')} {b(awaited)} {b(pure)} {b(token)} {coq_string(fname)}"))
    need(rows, "no @operator found")
    keyed, records = tr_wrap_impure(tree)
    consts = "".join(f"(* {n} = {src} *)\nDefinition {n} : Z := {zlit(v)}.\n" for n, (v, src) in MODULE["consts"].items())
    out = HEADER.format(src="pdpy11/operators.py") + PRELUDE + "\n" + consts + "\n" + "\n".join(MODULE["helper_defs"]) + "\n" + "\n".join(defs) + "\n"
    out += "(* wrap_impure: the value cached on an impure operator's token is reused only when the operands are the ones it\n"
    out += "   was computed from (keyed), and those operands are recorded with it (records_args) *)\n"
    out += f"Definition wrap_impure_keyed : bool := {'true' if keyed else 'false'}.\n"
    out += f"Definition wrap_impure_records_args : bool := {'true' if records else 'false'}.\n\n"
    out += "(* every @operator in source order; characters lower-cased as CaseInsensitiveDict / Parser.literal do *)\n"
    out += "Definition operator_table : list op_row :=\n  [ " + "\n  ; ".join(r[3] for r in rows) + " ].\n\n"
    for kind, nm, ty in (("KInfix", "infix_body", "Z -> Z -> res opres"), ("KPrefix", "prefix_body", "Z -> res opres"),
                         ("KPostfix", "postfix_body", "Z -> res opres")):
        out += f"Definition {nm} (c : string) : option ({ty}) :=\n"
        for k, char, fname, _ in rows:
            if k == kind:
                out += f"  if String.eqb c {coq_string(char)} then Some body_{fname} else\n"
        out += "  None.\n\n"
    return {"GenOperators.v": out}


gen_operators.outputs = ["GenOperators.v"]
GENERATORS = [gen_operators]
