"""Run the real pdpy11 (from /repo's working tree) on abstract cases, in-process, under a watchdog.

Every entry point returns plain JSON-able dicts made of canonical observables only:
outcome class (ok / failed / crash / hang), base, bytes, diagnostics (severity, identifier,
spans as (filename, start offset, end offset, "line:col" of start, "line:col" of end)).
Never message text, never object names.
"""
import os
import signal
import sys
import traceback

REPO = os.environ.get("VERIF_REPO", "/repo")
if sys.path[0] != REPO:
    sys.path.insert(0, REPO)
os.environ.setdefault("PDPY11_VERIF", "1")

WATCHDOG_S = float(os.environ.get("VERIF_WATCHDOG", "10"))


class Hang(BaseException):
    pass


def _alarm(signum, frame):
    raise Hang("".join(traceback.format_stack(frame, limit=6)))


_loaded = None


def load():
    """Import pdpy11 from REPO and return the modules we use."""
    global _loaded
    if _loaded is not None:
        return _loaded
    import pdpy11  # noqa
    assert os.path.realpath(os.path.dirname(pdpy11.__file__)) == os.path.realpath(os.path.join(REPO, "pdpy11")), \
        "pdpy11 resolved outside " + REPO + ": " + pdpy11.__file__
    from pdpy11 import bk_encoding, reports, parser, compiler, deferred, metacommands, devices, formats, insns, radix50, types, operators  # noqa
    _loaded = dict(reports=reports, parser=parser, compiler=compiler, deferred=deferred,
                   metacommands=metacommands, devices=devices, formats=formats, insns=insns,
                   bk_encoding=bk_encoding, radix50=radix50, types=types, operators=operators)
    return _loaded


def reset_global_state():
    """Used between cases by every check except C18 (which is about exactly this state)."""
    m = load()
    m["deferred"].try_compute.depth = 0
    del m["deferred"].Awaiting.awaiting_stack[:]
    if hasattr(m["deferred"].Awaiting, "found_cycles_stack"):
        del m["deferred"].Awaiting.found_cycles_stack[:]
        m["deferred"].Awaiting.known_cycles.clear()
    del m["reports"].handle_reports.handlers_stack[:]


def innermost_pdpy11_frame(tb_or_text):
    if isinstance(tb_or_text, str):
        best = None
        for line in tb_or_text.splitlines():
            line = line.strip()
            if line.startswith("File ") and "/pdpy11/" in line:
                parts = line.split(",")
                fn = parts[0].split("/pdpy11/")[-1].rstrip('"')
                func = parts[2].strip().replace("in ", "") if len(parts) > 2 else "?"
                best = f"{fn}:{func}"
        return best or "?"
    best = None
    for fs in traceback.extract_tb(tb_or_text):
        if "/pdpy11/" in fs.filename:
            best = f"{fs.filename.split('/pdpy11/')[-1]}:{fs.name}"
    return best or "?"


class FakeFS:
    """In-memory files for .include / insert_file: patches `open` in pdpy11.metacommands only."""

    def __init__(self, files):
        self.files = files or {}

    def open(self, path, mode="r", *a, **k):
        import io
        key = path
        if key not in self.files:
            key = os.path.normpath(path)
        if key not in self.files:
            raise FileNotFoundError(path)
        data = self.files[key]
        if data is IsADirectoryError:
            raise IsADirectoryError(path)
        if "b" in mode:
            return io.BytesIO(data if isinstance(data, bytes) else data.encode("utf-8"))
        if isinstance(data, bytes):
            return io.StringIO(data.decode("utf-8"))
        return io.StringIO(data)


def span_of(ctx_start, ctx_end):
    return [ctx_start.filename, ctx_start.pos, ctx_end.pos, repr(ctx_start).rsplit(":", 2)[1] + ":" + repr(ctx_start).rsplit(":", 2)[2],
            repr(ctx_end).rsplit(":", 2)[1] + ":" + repr(ctx_end).rsplit(":", 2)[2], ctx_end.filename]


def _resolve_fn(name):
    """'module:function' (module importable from tools/) or a function of this module."""
    if ":" in name:
        import importlib
        mod, fn = name.split(":", 1)
        return getattr(importlib.import_module(mod), fn)
    return globals()[name]


def assemble(files, charset="bk", fs=None, want_trace=False, want_symbols=False, want_listing=False,
             want_emitted=False, watchdog=None, reset=True, post=None):
    """files: list of (filename, text). fs: dict path -> str/bytes for include/insert_file.

    Returns dict(outcome, base, code(hex), diags=[(sev, ident, spans)], crash=..., trace=...).
    """
    m = load()
    reports, parser, compiler = m["reports"], m["parser"], m["compiler"]
    if reset:
        reset_global_state()
    diags = []

    def handler(priority, identifier, *lst):
        sev = "warning" if priority is reports.warning else ("critical" if priority is reports.critical else "error")
        spans = []
        for item in lst:
            try:
                spans.append(span_of(item[0], item[1]))
            except Exception as ex:  # malformed span: record, the C17 check looks at it
                spans.append(["<bad-span>", -1, -1, repr(ex), "", ""])
        diags.append([sev, identifier, spans])

    res = {"outcome": None, "base": None, "code": None, "diags": diags}
    fake = FakeFS(fs)
    old_open = m["metacommands"].__dict__.get("open")
    if fs is not None:
        m["metacommands"].open = fake.open
    old_handler = signal.signal(signal.SIGALRM, _alarm)
    signal.setitimer(signal.ITIMER_REAL, watchdog or WATCHDOG_S)
    comp = None
    try:
        try:
            with reports.handle_reports(handler):
                parsed = [parser.parse(fn, text) for fn, text in files]
                comp = compiler.Compiler(output_charset=charset)
                base, code = comp.compile_and_link_files(parsed)
                if post is not None:
                    # post-processing that may force deferred values runs inside the report handler
                    res["post"] = _resolve_fn(post)(comp, base, code, parsed)
            signal.setitimer(signal.ITIMER_REAL, 0)
            res["outcome"] = "ok"
            res["base"] = base
            res["code"] = bytes(code).hex()
        except reports.UnrecoverableError:
            signal.setitimer(signal.ITIMER_REAL, 0)
            res["outcome"] = "failed"
        except Hang as h:
            res["outcome"] = "hang"
            res["crash"] = {"exc": "Hang", "frame": innermost_pdpy11_frame(str(h))}
        except RecursionError as ex:
            signal.setitimer(signal.ITIMER_REAL, 0)
            res["outcome"] = "crash"
            res["crash"] = {"exc": "RecursionError", "frame": innermost_pdpy11_frame(ex.__traceback__)}
        except Exception as ex:  # the "unexpected internal compiler error" path
            signal.setitimer(signal.ITIMER_REAL, 0)
            res["outcome"] = "crash"
            res["crash"] = {"exc": type(ex).__name__, "frame": innermost_pdpy11_frame(ex.__traceback__),
                            "msg": str(ex)[:200]}
    finally:
        signal.setitimer(signal.ITIMER_REAL, 0)
        signal.signal(signal.SIGALRM, old_handler)
        if fs is not None:
            if old_open is None:
                m["metacommands"].__dict__.pop("open", None)
            else:
                m["metacommands"].open = old_open
    if comp is not None and res["outcome"] == "ok":
        if want_trace:
            tr = getattr(comp, "verif_trace", None)
            res["trace"] = tr
        if want_symbols:
            syms = []
            for name, (tok, value) in comp.symbols.items():
                try:
                    v = m["deferred"].wait(value)
                except Exception as ex:
                    v = "ERR:" + type(ex).__name__
                syms.append([name, type(tok).__name__, v if isinstance(v, int) else str(v)])
            res["symbols"] = syms
            res["prefix_files"] = {str(k): st["filename"] for k, st in comp.internal_prefix_to_state.items()}
        if want_listing:
            try:
                res["listing"] = comp.generate_listing()
            except Exception as ex:
                res["listing_crash"] = type(ex).__name__
        if want_emitted:
            res["emitted"] = [[e[2], e[3]] + [x.hex() if isinstance(x, bytes) else x for x in e[4:]] for e in comp.emitted_files]
    return res


def _run_one(args):
    fn, a, k = args
    try:
        return _resolve_fn(fn)(*a, **k)
    except BaseException as ex:  # harness-level failure: surface it, never hide
        return {"outcome": "harness-error", "error": type(ex).__name__ + ": " + str(ex)[:300]}


def pmap(fn_name, arglist, procs=None, chunksize=16):
    """Run impl.<fn_name>(*args, **kwargs) for each (args, kwargs) over a process pool."""
    import multiprocessing as mp
    procs = procs or min(16, os.cpu_count() or 4)
    jobs = [(fn_name, a, k) for a, k in arglist]
    if len(jobs) < 8 or procs == 1:
        return _confirm_hangs(jobs, [_run_one(j) for j in jobs])
    ctx = mp.get_context("fork")
    with ctx.Pool(procs) as pool:
        results = pool.map(_run_one, jobs, chunksize=chunksize)
    return _confirm_hangs(jobs, results)


_CONFIRM = {"hangs": 0, "seconds": 0.0}


def _confirm_hangs(jobs, results):
    """A watchdog hit on a loaded machine is not yet a hang: a 'hang' is re-run alone (nothing else running in this
    harness) with a 12x watchdog (at most 120 s) before it is reported.  Keeps starved runs from raising false
    alarms.  Budget per process: three confirmed hangs or 300 s spent confirming (a tree that hangs -- or is merely
    exponentially slow -- on many inputs must not stall the check); after that, watchdog hits are reported as they are."""
    import time
    for i, (job, r) in enumerate(zip(jobs, results)):
        if isinstance(r, dict) and r.get("outcome") == "hang" and job[0] == "assemble":
            if _CONFIRM["hangs"] >= 3 or _CONFIRM["seconds"] >= 300:
                r["hang_not_reconfirmed"] = True
                continue
            fn, a, k = job
            k2 = dict(k)
            k2["watchdog"] = min(120.0, 12 * float(k.get("watchdog") or WATCHDOG_S))
            t0 = time.time()
            r2 = _run_one((fn, a, k2))
            _CONFIRM["seconds"] += time.time() - t0
            if isinstance(r2, dict):
                r2["first_attempt_hit_watchdog"] = True
                if r2.get("outcome") == "hang":
                    _CONFIRM["hangs"] += 1
            results[i] = r2
    return results


if __name__ == "__main__":
    import json
    src = sys.stdin.read()
    print(json.dumps(assemble([("test.mac", src)], want_symbols=True), indent=1))
