"""Direct drives of the real pdpy11 code for C06 (and the announced-size part of C02), each under the
same SIGALRM watchdog tools/impl.py uses.  Only canonical observables leave this module:
diagnostic (severity, identifier) pairs in order, bytes, outcome class."""
import os
import signal

import impl


class _Watch:
    def __init__(self, seconds=None):
        self.seconds = seconds or impl.WATCHDOG_S

    def __enter__(self):
        self.old = signal.signal(signal.SIGALRM, impl._alarm)
        signal.setitimer(signal.ITIMER_REAL, self.seconds)

    def __exit__(self, *a):
        signal.setitimer(signal.ITIMER_REAL, 0)
        signal.signal(signal.SIGALRM, self.old)
        return False


def _handler_into(diags):
    reports = impl.load()["reports"]

    def handler(priority, identifier, *lst):
        sev = "W" if priority is reports.warning else ("C" if priority is reports.critical else "E")
        diags.append([sev, identifier])
    return handler


# ---------------------------------------------------------------------------------------------
def gai(bitness, unsigned, default, value):
    """the real get_as_int on a stub token whose .resolve returns `value`"""
    m = impl.load()
    reports = m["reports"]
    from pdpy11 import metacommand_impl as mi
    impl.reset_global_state()

    class Tok:
        ctx_start = None
        ctx_end = None

        def resolve(self, state):
            return value

        def text(self):
            return "stub"
    diags = []
    res = None
    try:
        with _Watch():
            try:
                with reports.handle_reports(_handler_into(diags)):
                    try:
                        if default is None:
                            r = mi.get_as_int({}, "stub", Tok(), Tok(), bitness=bitness, unsigned=unsigned)
                        else:
                            r = mi.get_as_int({}, "stub", Tok(), Tok(), bitness=bitness, unsigned=unsigned, default=default)
                        res = ["ret", r]
                    except reports.RecoverableError:
                        res = ["raise"]
            except reports.UnrecoverableError:
                pass
    except impl.Hang:
        return {"kind": "other", "why": "hang"}
    except Exception as ex:
        return {"kind": "other", "why": type(ex).__name__}
    errs = [d[1] for d in diags if d[0] != "W"]
    if res is None or len(diags) != len(errs):
        return {"kind": "other", "why": "shape"}
    if res[0] == "ret" and isinstance(res[1], int) and not isinstance(res[1], bool):
        if not errs:
            return {"kind": "ret", "v": res[1]}
        if len(errs) == 1:
            return {"kind": "errret", "id": errs[0], "v": res[1]}
    if res[0] == "raise" and len(errs) == 1:
        return {"kind": "errraise", "id": errs[0]}
    return {"kind": "other", "why": "shape"}


# ---------------------------------------------------------------------------------------------
def meta_table(names):
    """introspection of the Metacommand objects: what the parser and compiler will really use"""
    impl.load()
    from pdpy11 import metacommand_impl as mi
    out = []
    for name in names:
        cmd = mi.metacommands.get(name)
        if cmd is None:
            out.append({"name": name, "missing": True})
            continue
        aliases = [k for k, v in mi.metacommands.items() if v is cmd and k != cmd.name]
        sizes = []
        for n in range(9):
            if callable(cmd.size):
                sizes.append(cmd.size(None, *([0] * n)))
            else:
                sizes.append(cmd.size)
        out.append({"name": cmd.name, "aliases": aliases, "raw": bool(cmd.raw),
                    "hints": [getattr(oi["hint"], "__name__", str(oi["hint"])) for oi in cmd.operand_info],
                    "types": [getattr(oi["type"], "__name__", str(oi["type"])) for oi in cmd.operand_info],
                    "min": cmd.min_operands, "max": None if cmd.max_operands == float("inf") else cmd.max_operands,
                    "sizes": sizes, "takes_code_block": bool(cmd.takes_code_block),
                    "literal_string_operand": bool(cmd.literal_string_operand)})
    return out


# ---------------------------------------------------------------------------------------------
def drive(src, symbols, addr, charset, defer_addr=True):
    """Parse one statement, hand it to the compiler at emit address `addr` and evaluate its bytes.

    symbols: {name: int} injected into the compiler's table *after* compile_insn returned, so that the
    statement's bytes are deferred and the announced size (SizedDeferred) is observable.
    Returns dict(kind=out|raised|crash|hang|parse, diags=[[sev,id]..], bytes=[..], announced=..., strings=[[codepoints]..])
    """
    m = impl.load()
    reports, parser, compiler, deferred, types = m["reports"], m["parser"], m["compiler"], m["deferred"], m["types"]
    impl.reset_global_state()
    diags = []
    res = {"kind": None, "diags": diags}
    try:
        with _Watch():
            try:
                with reports.handle_reports(_handler_into(diags)):
                    file = parser.parse("t.mac", src)
                    insns = file.body.insns
                    if len(insns) != 1:
                        res["kind"] = "parse"
                        res["n_insns"] = len(insns)
                        return res
                    insn = insns[0]
                    # parse-level warnings (layout of the one-line source) are not the directive's: drop them,
                    # keep parse-level errors so that a malformed source cannot pass unnoticed
                    diags[:] = [d for d in diags if d[0] != "W"]
                    # the strings as the parser read them (for .ascii operands)
                    strings = []
                    if isinstance(insn, types.Instruction):
                        for op in insn.operands:
                            chunks = op.chunks if isinstance(op, types.StringConcatenation) else [op]
                            strings.append([[ord(c) for c in ch.string] if isinstance(ch, types.QuotedString) else None for ch in chunks])
                    res["strings"] = strings
                    comp = compiler.Compiler(output_charset=charset)
                    if defer_addr:
                        address = deferred.Deferred[int](lambda: (deferred.not_ready() or addr))
                    else:
                        address = addr
                    state = {"filename": "t.mac", "context": "file", "internal_symbol_prefix": ".internal1.",
                             "compiler": comp, "link_base": {"promise": deferred.Promise[int]("LA"), "set_where": None},
                             "internal_symbols_list": [], "extern_all": None,
                             "insn": insn, "emit_address": address, "local_symbol_prefix": ".local1."}
                    try:
                        if isinstance(insn, types.Instruction):
                            chunk = comp.compile_insn(insn, state)
                        elif isinstance(insn, types.WordList):
                            chunk = comp.compile_word_list(insn, insn.words, state)
                        else:
                            res["kind"] = "parse"
                            res["what"] = type(insn).__name__
                            return res
                        if isinstance(chunk, deferred.SizedDeferred):
                            res["announced"] = ["sized", chunk.length()]
                        elif isinstance(chunk, deferred.BaseDeferred):
                            res["announced"] = ["deferred"]
                        else:
                            res["announced"] = ["eager"]
                        for name, value in symbols.items():
                            comp.symbols[".internal1." + name] = (insn, value)
                        if chunk is None:
                            res["kind"] = "none"
                        else:
                            data = deferred.wait(chunk)
                            res["kind"] = "out"
                            res["bytes"] = list(bytes(data))
                    except reports.RecoverableError:
                        res["kind"] = "raised"
            except reports.UnrecoverableError:
                if res["kind"] is None:
                    res["kind"] = "critical"
    except impl.Hang:
        res["kind"] = "hang"
    except Exception as ex:
        res["kind"] = "crash"
        res["exc"] = type(ex).__name__
    return res


# ---------------------------------------------------------------------------------------------
def scan(quote, text):
    """parser.quoted_string on  quote + text  : the string, the identifiers reported, the rest of the text"""
    m = impl.load()
    reports, parser = m["reports"], m["parser"]
    from pdpy11.context import Context
    impl.reset_global_state()
    diags = []
    res = {"kind": None, "diags": diags}
    code = chr(quote) + "".join(chr(c) for c in text)
    try:
        with _Watch():
            try:
                with reports.handle_reports(_handler_into(diags)):
                    ctx = Context("t.mac", code)
                    tok = parser.quoted_string(ctx)
                    res["kind"] = "ok"
                    res["value"] = [ord(c) for c in tok.string]
                    res["rest"] = [ord(c) for c in code[ctx.pos:]]
            except reports.UnrecoverableError:
                if res["kind"] is None:
                    res["kind"] = "critical"
    except impl.Hang:
        res["kind"] = "hang"
    except Exception as ex:
        res["kind"] = "crash"
        res["exc"] = type(ex).__name__
    return res


def char_classes():
    """exhaustive over all code points: Python's view of whitespace (Context.skip_whitespace) and of the
    letters string_escape recognises after .lower()"""
    recognised = {"n", "r", "t", "x", "\\", '"', "'", "/", "\n"}
    spaces, lowers = [], []
    for c in range(0x110000):
        ch = chr(c)
        if ch.strip() == "":
            spaces.append(c)
        lo = ch.lower()
        if lo in recognised:
            lowers.append([c, ord(lo)])
    return {"spaces": spaces, "lowers": lowers}


# ---------------------------------------------------------------------------------------------
def assemble(files, charset):
    """end to end through tools/impl.py, inside one of this module's memory-limited workers"""
    return impl.assemble(files, charset=charset)


def _run(job):
    fn, args = job
    try:
        return globals()[fn](*args)
    except MemoryError:
        return {"kind": "crash", "outcome": "crash", "exc": "MemoryError", "diags": [], "crash": {"exc": "MemoryError", "frame": "?"}}
    except BaseException as ex:
        return {"kind": "harness-error", "outcome": "harness-error", "error": type(ex).__name__ + ": " + str(ex)[:300]}


MEMORY_LIMIT = 2 << 30


def _limit_memory():
    """worker initializer: a count such as 2**32 must end in MemoryError inside the worker (an observation),
    never in the machine swapping.  Only ever applied to pool workers, never to the checking process itself."""
    import resource
    soft, hard = resource.getrlimit(resource.RLIMIT_AS)
    lim = MEMORY_LIMIT if hard == resource.RLIM_INFINITY else min(MEMORY_LIMIT, hard)
    resource.setrlimit(resource.RLIMIT_AS, (lim, hard))


def pmap(fn, arglist, procs=None, chunksize=32):
    """always through a pool of forked, memory-limited workers (also for a single job)"""
    import multiprocessing as mp
    procs = procs or min(16, os.cpu_count() or 4)
    jobs = [(fn, a) for a in arglist]
    if not jobs:
        return []
    ctx = mp.get_context("fork")
    with ctx.Pool(min(procs, len(jobs)), initializer=_limit_memory) as pool:
        return pool.map(_run, jobs, chunksize=max(1, min(chunksize, len(jobs) // procs + 1)))
