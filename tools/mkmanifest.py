#!/usr/bin/env python3
"""Writes MANIFEST.json from tools/props/*.py metadata (single source of truth)."""
import importlib, json, os, sys
ROOT = os.path.dirname(os.path.dirname(os.path.abspath(__file__)))
sys.path.insert(0, os.path.join(ROOT, "tools"))
ALL = ["C%02d" % i for i in range(1, 20)]
PENDING_REASON = "check not built yet in this round (planned in DESIGN.md section 4); not claimed until its Coq theorems and correspondence run"

def main():
    checks, na = [], []
    for pid in ALL:
        path = os.path.join(ROOT, "tools", "props", pid.lower() + ".py")
        claimed = json.load(open(os.path.join(ROOT, "claimed.json")))
        if not os.path.exists(path) or pid not in claimed:
            na.append({"property_id": pid, "reason": PENDING_REASON})
            continue
        mod = importlib.import_module("props." + pid.lower())
        if getattr(mod, "NOT_CLAIMED", None):
            na.append({"property_id": pid, "reason": mod.NOT_CLAIMED})
            continue
        checks.append({
            "property_id": pid,
            "quick_cmd": f"./check {pid} --tier quick",
            "thorough_cmd": f"./check {pid} --tier thorough",
            "evidence_file": f"/verif/evidence/{pid}.json",
            "replay_cmd_template": f"./check {pid} --replay {{path}}",
            "engine": "coq-proof+correspondence",
            "level_claimed": {"category": "proof", "text": mod.LEVEL_TEXT, "design_ref": "DESIGN.md section 4 " + pid},
            "level_note": mod.LEVEL_NOTE,
            "technique": mod.TECHNIQUE,
        })
    man = {
        "version": 1,
        "setup_cmd": "./check --setup",
        "hooks": {"guard": "PDPY11_VERIF", "enable": "export PDPY11_VERIF=1 (set by ./check); pure Python, no rebuild",
                  "baseline_off_cmd": "cd /repo && env -u PDPY11_VERIF /venv/bin/python -m pytest -ra -q -p no:cacheprovider --timeout=900 --continue-on-collection-errors",
                  "source_commits": json.load(open(os.path.join(ROOT, "hooks.json")))["source_commits"] if os.path.exists(os.path.join(ROOT, "hooks.json")) else [],
                  "add_only": True},
        "engines": [{"name": "coq-proof+correspondence", "path": "/verif/coq + /verif/tools",
                     "serves_properties": [c["property_id"] for c in checks],
                     "kind_free_text": "Coq 8.16 theorems over a model regenerated from /repo (tools/translate.py) and hand models tied by a correspondence check evaluated with vm_compute; failing-input search on the real code"}],
        "checks": checks,
        "not_applicable": na,
        "notes": "See DESIGN.md. known findings: /verif/known_findings.json",
    }
    with open(os.path.join(ROOT, "MANIFEST.json"), "w") as f:
        json.dump(man, f, indent=1)
    print("claimed:", [c["property_id"] for c in checks])

if __name__ == "__main__":
    main()
