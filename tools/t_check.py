#!/usr/bin/env python3
"""Cross-check of the translator tools/gens/gen_pure.py: every function of coq/Gen/GenPure.v (regenerated from the
Python source on each run) is evaluated in coqc (Run/TRun.v) on a boundary sweep of inputs on which the *real* Python
function was driven directly, and must give exactly the implementation's answer (value, reported identifiers in order,
exception or not).  bit 0 of a judge code = Gen differs from the implementation.

    explore_t(rep, tier, seed, pid="T", only=None)     rep: common.Report;  only: subset of GROUPS
    python3 tools/t_check.py [--tier quick|thorough] [--seed N] [--no-build] [group ...]   standalone run

The drivers call pdpy11 in-process under a SIGALRM watchdog (impl.Hang)."""
import os
import random
import signal
import sys

sys.path.insert(0, os.path.dirname(os.path.abspath(__file__)))
import common as C
import impl
import insn_cases as IC

ID = "T"
GROUPS = ["insns", "context", "radix50", "directives", "listing"]
SUFFIX = {"insns": "Insns", "context": "Context", "radix50": "Rad50", "directives": "Directives", "listing": "Listing"}
PROPS_OF = {"insns": "Props/T_insns.v", "context": "Props/T_context.v", "radix50": "Props/T_rad50.v",
            "directives": "Props/T_directives.v", "listing": "Props/T_listing.v"}
PROP_FILES = ["Props/T.v"] + [PROPS_OF[g] for g in GROUPS]
RUN_FILES = ["Run/TRun%s.v" % SUFFIX[g] for g in GROUPS]
PRE = "Open Scope string_scope.\nOpen Scope Z_scope."


# ------------------------------------------------------------------------------------------------
def guarded(fn, seconds=20.0):
    """run fn() under a watchdog; -> (value, exception name or None)"""
    old = signal.signal(signal.SIGALRM, impl._alarm)
    signal.setitimer(signal.ITIMER_REAL, seconds)
    try:
        try:
            return fn(), None
        except impl.Hang:
            return None, "Hang"
        except Exception as ex:   # a Python exception out of the driven function
            return None, type(ex).__name__
    finally:
        signal.setitimer(signal.ITIMER_REAL, 0)
        signal.signal(signal.SIGALRM, old)


def with_reports(fn):
    """-> (value, [error identifiers in order], exception name or None)"""
    m = impl.load()
    reports = m["reports"]
    ids = []

    def handler(priority, identifier, *lst):
        if priority is not reports.warning:
            ids.append(identifier)

    box = []

    def go():
        try:
            with reports.handle_reports(handler):
                box.append(fn())     # the value is kept even when leaving the handler raises for the errors reported
        except reports.UnrecoverableError:
            pass
    impl.reset_global_state()
    _, exc = guarded(go)
    if not exc and not box:
        exc = "UnrecoverableError"  # a critical report inside fn
    return (box[0] if box else None), ids, exc


def strs(ids):
    return "[" + "; ".join(C.coq_str(i) for i in ids) + "]"


def res_rep(val, ids, exc, show=C.zlit, ok=lambda v: isinstance(v, int) and not isinstance(v, bool)):
    if exc:
        return "(Crash %s)" % C.coq_str(exc)
    if not ok(val):
        return "(Crash %s)" % C.coq_str("unexpected value of type " + type(val).__name__)
    return "(Ok (%s, %s))" % (show(val), strs(ids))


def res_plain(val, exc, show=C.zlit, ok=lambda v: isinstance(v, int) and not isinstance(v, bool)):
    if exc:
        return "(Crash %s)" % C.coq_str(exc)
    if not ok(val):
        return "(Crash %s)" % C.coq_str("unexpected value of type " + type(val).__name__)
    return "(Ok %s)" % show(val)


def nlist(s):
    return "[" + "; ".join(str(ord(c)) for c in s) + "]%N"


def b(x):
    return "true" if x else "false"


def judge(rep, pid, group, what, judge_fn, cases, size=1500):
    """cases: [(coq term, description)]"""
    if not cases:
        rep.disagree(what + ": no case could be built", {})
        return
    req = "Base.Res Gen.GenPure Gen.GenPure%s Run.TRun Run.TRun%s" % (SUFFIX[group], SUFFIX[group])
    codes = C.run_case_files(pid, req, PRE, C.shard([t for t, _ in cases], size), judge_expr="map %s cases" % judge_fn)
    flat = [x for sh in codes for x in sh]
    assert len(flat) == len(cases)
    rep.add_eval(len(cases))
    rep.count("T:" + judge_fn, len(cases))
    for (t, d), code in zip(cases, flat):
        if code & 1:
            rep.disagree("Gen.GenPure (translated from the source) vs the real function: " + what, d)


# ------------------------------------------------------------------------------------------------
# insns.py
def stubs_of(cls):
    """[(mnemonic, stub object)] for every instruction that has a stub of this class"""
    m = impl.load()
    out = []
    for name in m["insns"].instructions:
        for st in m["insns"].instructions[name].operands:
            if type(st).__name__ == cls:
                out.append((name, st))
    return out


def pick(stubs, tier, per_group):
    """all distinct (unsigned, bitness) groups; per group a few mnemonics (quick) or all (thorough)"""
    groups = {}
    for name, st in stubs:
        groups.setdefault((bool(st.unsigned), len(st.bit_indexes)), []).append((name, st))
    out = []
    for key in sorted(groups):
        out += groups[key] if tier == "thorough" else groups[key][:per_group]
    return out


def around(points, r):
    s = set()
    for p in points:
        s.update(range(p - r, p + r + 1))
    return sorted(s)


def insns_group(rep, tier, rng, pid):
    m = impl.load()
    wait = m["deferred"].wait
    r = 4 if tier == "quick" else 12
    # OffsetOperandStub.encode.fn
    cases = []
    for name, st in pick(stubs_of("OffsetOperandStub"), tier, 3):
        u, n = bool(st.unsigned), len(st.bit_indexes)
        lo, hi = -2 ** (n + u) + 2 * u, (0 if u else 2 ** n - 2)
        offs = around([lo, hi, 0, -2 ** n, 2 ** n, 2 ** (n + 1), -2 ** (n + 1)], r) + [rng.randrange(-3 * 2 ** n, 3 * 2 ** n) for _ in range(40)] + \
            [2 ** 40, -2 ** 40, 2 ** 40 + 1, -2 ** 40 - 1, 2 ** 16, -2 ** 16]
        for rel in (2, 0o1002, 0o177776, rng.randrange(0, 65536, 2), rng.randrange(1, 65536, 2)):
            state = {"insn": IC._FakeInsn(name), "rel_address": rel, "emit_address": rel - 2}
            for off in offs:
                t = rel + off
                val, ids, exc = with_reports(lambda: wait(st.encode(IC._FakeOperand(t), state)[0]))
                cases.append(("(%s, %d%%nat, %s, %s, %s)" % (b(u), n, C.zlit(t), C.zlit(rel), res_rep(val, ids, exc)),
                              {"function": "OffsetOperandStub.encode.fn", "mnemonic": name, "unsigned": u, "bits": n, "target": t, "rel_address": rel,
                               "impl": [val, ids, exc]}))
                rep.nontrivial(("offset", u, n, off))
    judge(rep, pid, "insns", "OffsetOperandStub.encode.fn vs offset_fn", "judge_offset", cases)
    # ImmediateOperandStub.encode.fn
    cases = []
    for name, st in pick(stubs_of("ImmediateOperandStub"), tier, 3):
        u, n = bool(st.unsigned), len(st.bit_indexes)
        vals = around([0, 2 ** n - 1, -2 ** n + 1, 2 ** n, -2 ** n, 2 ** (n + 1)], r) + [rng.randrange(-3 * 2 ** n, 3 * 2 ** n) for _ in range(40)] + [2 ** 40, -2 ** 40, 65535, 65536, -65536]
        state = {"insn": IC._FakeInsn(name), "rel_address": 0, "emit_address": 0}
        for v in vals:
            val, ids, exc = with_reports(lambda: wait(st.encode(IC._FakeOperand(v), state)[0]))
            cases.append(("(%s, %d%%nat, %s, %s)" % (b(u), n, C.zlit(v), res_rep(val, ids, exc)),
                          {"function": "ImmediateOperandStub.encode.fn", "mnemonic": name, "unsigned": u, "bits": n, "value": v, "impl": [val, ids, exc]}))
            rep.nontrivial(("imm", u, n, v))
    judge(rep, pid, "insns", "ImmediateOperandStub.encode.fn vs imm_fn", "judge_imm", cases)
    # the relative-mode lambdas
    cases = []
    ds = around([0, 2 ** 15, -2 ** 15, 2 ** 16, -2 ** 16, 2 ** 17], r) + [rng.randrange(-2 ** 18, 2 ** 18) for _ in range(60)] + [2 ** 40 + 3, -2 ** 40 - 3]
    for mn, deferred in (("mov", False), ("clr", True), ("tstf", False), ("jmp", True)):
        if mn not in m["insns"].instructions:
            continue
        pairs = []
        for rel in (2, 0o1004, 0o177776, rng.randrange(0, 65536)):
            pairs += [(rel + 2 + d, rel) for d in ds]
        out, exc = guarded(lambda: IC.direct_relative(mn, pairs, deferred), 60)
        if exc:
            rep.disagree("driver of the relative-mode lambdas failed", {"mnemonic": mn, "exception": exc})
            continue
        for t, rel, w in out:
            cases.append(("(%s, %s, %s, %s)" % (b(deferred), C.zlit(t), C.zlit(rel), res_plain(w, None if w is not None else "no word")),
                          {"function": "RegisterModeOperandStub.encode relative lambda", "mnemonic": mn, "deferred": deferred, "target": t, "rel_address": rel, "impl": w}))
            rep.nontrivial(("rel", deferred, t - rel))
    judge(rep, pid, "insns", "relative-mode lambdas vs rel_word_67 / rel_word_77", "judge_rel", cases)
    # rel_address handed to the stubs by Instruction.compile_insn
    cases = []

    class RecStub:
        pattern_char = "s"
        bit_indexes = []

        def __init__(self, k, log):
            self.k, self.log = k, log

        def encode(self, operand, state):
            self.log.append(state["rel_address"])
            return 0, b"\x00" * self.k

    for _ in range(60 if tier == "quick" else 400):
        addr = rng.choice([0, 2, 0o1000, 0o177776, rng.randrange(-10, 70000)])
        ks = [rng.choice([0, 0, 2, 2, 4, 1, 3]) for _ in range(rng.randrange(0, 5))]
        log = []
        ins = m["insns"].Instruction("t", "0" * 16, [RecStub(k, log) for k in ks])
        fake = IC._FakeInsn("t")
        fake.operands = [IC._FakeOperand(0) for _ in ks]
        _, ids, exc = with_reports(lambda: ins.compile_insn({"emit_address": addr, "insn": fake}, fake))
        if exc or ids or len(log) != len(ks):
            rep.disagree("driver of Instruction.compile_insn failed", {"emit_address": addr, "encodings": ks, "exception": exc, "ids": ids})
            continue
        cases.append(("(%s, [%s], %s)" % (C.zlit(addr), "; ".join("%d%%nat" % k for k in ks), C.zlist(log)),
                      {"function": "Instruction.compile_insn rel_address", "emit_address": addr, "encoding lengths": ks, "impl": log}))
        rep.nontrivial(("rel_address", addr, tuple(ks)))
    judge(rep, pid, "insns", "rel_address passed by Instruction.compile_insn vs rel_address_of", "judge_rel_address", cases)


# ------------------------------------------------------------------------------------------------
# context.py
def context_group(rep, tier, rng, pid):
    m = impl.load()
    from pdpy11.context import Context
    cases = []
    texts = ["", "\n", "a", "\t", "ab\ncd", "\n\n\n", "\t\t\n\t", "a\tb\n\tc\td\n", "x\n\ty", "é\n\tЖz\n"]
    for _ in range(30 if tier == "quick" else 300):
        texts.append("".join(rng.choice("ab \t\t\n\n;é") for _ in range(rng.randrange(0, 14))))
    for text in texts:
        fn = rng.choice(["t.mac", "a:b", "", "d/é.mac"])
        for pos in range(-len(text) - 2, len(text) + 3):
            def go():
                ctx = Context(fn, text)
                ctx.pos = pos
                return repr(ctx)
            out, exc = guarded(go)
            lc = None
            if not exc:
                parts = out.rsplit(":", 2)
                try:
                    lc = (int(parts[1]), int(parts[2]))
                    if out != fn + ":" + str(lc[0]) + ":" + str(lc[1]):
                        lc = None
                except (ValueError, IndexError):
                    lc = None
                if lc is None:
                    exc = "repr not of the form file:line:col"
            cases.append(("(%s, %s, %s, %s)" % (nlist(fn), nlist(text), C.zlit(pos),
                                                 res_plain(lc, exc, show=lambda v: "(%s, %s)" % (C.zlit(v[0]), C.zlit(v[1])), ok=lambda v: v is not None)),
                          {"function": "Context.__repr__", "filename": fn, "code": text, "pos": pos, "impl": out if not exc else exc}))
            rep.nontrivial(("context", text, pos))
    judge(rep, pid, "context", "Context.__repr__ vs context_repr", "judge_context", cases)


# ------------------------------------------------------------------------------------------------
# radix50.py / metacommands.rad50
def radix50_group(rep, tier, rng, pid):
    m = impl.load()
    r50 = m["radix50"]
    table = r50.TABLE
    cases = []
    strings = ["", " ", "A", "AB", "ABC", "ABCD", "   ", "999", "$.%", "a", "ab", "A b", "é", "AAAA", "A" * 7, "9 9", "ﬆ", "Z", "0"]
    for _ in range(150 if tier == "quick" else 2000):
        n = rng.choice([0, 1, 2, 3, 3, 3, 4, 5])
        strings.append("".join(rng.choice(table + table + "azЖ_") for _ in range(n)))
    for s_ in strings:
        val, exc = guarded(lambda: r50.pack_to_int(s_))
        cases.append(("(%s, %s)" % (nlist(s_), res_plain(val, exc)), {"function": "radix50.pack_to_int", "string": s_, "impl": val if not exc else exc}))
        rep.nontrivial(("pack_to_int", s_))
    judge(rep, pid, "radix50", "radix50.pack_to_int vs pack_to_int", "judge_pack_to_int", cases)
    cases = []
    for ch in sorted(set(table + "abz_éЖ\x00\x7f@[`{/:")):
        val, exc = guarded(lambda: r50.encode_char(ch))
        cases.append(("(%d%%N, %s)" % (ord(ch), res_plain(val, exc)), {"function": "radix50.encode_char", "char": ch, "impl": val if not exc else exc}))
        rep.nontrivial(("encode_char", ch))
    judge(rep, pid, "radix50", "radix50.encode_char vs encode_char", "judge_encode_char", cases)
    # the packing expression of '.rad50', through the assembler: '.rad50 <a.><b.><c.>'
    triples = [(a, b_, c) for a in (0, 1, 39) for b_ in (0, 38, 39) for c in (0, 1, 39)]
    triples += [(rng.randrange(40), rng.randrange(40), rng.randrange(40)) for _ in range(60 if tier == "quick" else 600)]
    jobs = [(([("t.mac", ".rad50 <%d.><%d.><%d.>\n" % t)],), {}) for t in triples]
    outs = impl.pmap("assemble", jobs, chunksize=8)
    cases = []
    for t, o in zip(triples, outs):
        if o.get("outcome") == "ok":
            r = "(Ok %s)" % C.zlist(list(bytes.fromhex(o["code"])))
        else:
            r = "(Crash %s)" % C.coq_str(str(o.get("outcome")))
        cases.append(("(%d, %d, %d, %s)" % (t + (r,)), {"function": "metacommands.rad50 packing expression", "source": ".rad50 <%d.><%d.><%d.>" % t,
                                                     "impl": {k: o.get(k) for k in ("outcome", "code")}}))
        rep.nontrivial(("rad50_word",) + t)
    judge(rep, pid, "radix50", "'.rad50 <a><b><c>' vs pack_H (rad50_word a b c)", "judge_rad50_word", cases)


# ------------------------------------------------------------------------------------------------
# metacommands.word / dword, Compiler.compile_word_list
def directives_group(rep, tier, rng, pid):
    m = impl.load()
    import pdpy11.metacommand_impl as mi
    wait = m["deferred"].wait
    show_b = lambda v: C.zlist(list(v))      # noqa: E731
    ok_b = lambda v: isinstance(v, (bytes, bytearray))   # noqa: E731
    vals = around([0, 65535, 65536, -1, 2 ** 31, 2 ** 32 - 1, 2 ** 32, -2 ** 31, 32768], 2) + [rng.randrange(-2 ** 33, 2 ** 33) for _ in range(60 if tier == "quick" else 600)]
    addrs = [0, 1, 2, 3, 0o1000, 0o1001, 0o177777, -1, -2, rng.randrange(0, 65536), 2 ** 20 + 1]
    for name, jf in ((".dword", "judge_dword"), (".word", "judge_word")):
        fn = mi.metacommands[name].fn
        cases = []
        for v in vals:
            addr = rng.choice(addrs)
            state = {"emit_address": addr, "insn": IC._FakeInsn(name)}
            val, ids, exc = with_reports(lambda: fn(state, v))
            cases.append(("(%s, %s, %s)" % (C.zlit(addr), C.zlit(v), res_rep(val, ids, exc, show=show_b, ok=ok_b)),
                          {"function": "metacommands" + name, "emit_address": addr, "operand": v, "impl": [list(val) if ok_b(val) else val, ids, exc]}))
            rep.nontrivial((name, addr % 2, v))
        judge(rep, pid, "directives", "metacommands%s(state, v) vs prefix + encoding" % name, jf, cases)
    # compile_word_list: one word is a promise settled afterwards, so that the announced size is observable
    cases = []
    Promise = m["deferred"].Promise

    class PromisedOperand(IC._FakeOperand):
        def resolve(self, state):
            return self.value

    for _ in range(80 if tier == "quick" else 800):
        addr = rng.choice(addrs)
        ws = [rng.choice([0, 1, 65535, 32768, 255, 256, rng.randrange(0, 65536)]) for _ in range(rng.randrange(1, 5))]   # get_as_int(16, signed) is the identity on 0..65535
        state = {"emit_address": addr, "insn": IC._FakeInsn("wl")}

        def go():
            comp = m["compiler"].Compiler()
            pr = Promise[int]("t")
            ops = [PromisedOperand(pr)] + [IC._FakeOperand(w) for w in ws[1:]]
            d = comp.compile_word_list(IC._FakeInsn("wl"), ops, state)
            size = d.length()
            pr.settle(ws[0])
            return size, bytes(wait(d))
        val, ids, exc = with_reports(go)
        if exc or not isinstance(val, tuple):
            rep.disagree("driver of compile_word_list failed", {"emit_address": addr, "words": ws, "exception": exc, "ids": ids})
            continue
        cases.append(("(%s, %s, %s, %s)" % (C.zlit(addr), C.zlist(ws), C.zlit(val[0]), res_rep(val[1], ids, None, show=show_b, ok=ok_b)),
                      {"function": "Compiler.compile_word_list", "emit_address": addr, "words": ws, "impl": [val[0], list(val[1]), ids]}))
        rep.nontrivial(("word_list", addr % 2, tuple(ws)))
    judge(rep, pid, "directives", "compile_word_list vs word_list_size / word_list_prefix", "judge_word_list", cases)


# ------------------------------------------------------------------------------------------------
# Compiler.generate_listing
def listing_group(rep, tier, rng, pid):
    m = impl.load()
    vals = around([0, 8, 64, 0o777777, 0o1000000, 0o7777777, 65535, 65536, -8, -0o777777, -0o1000000, 2 ** 40], 2) + \
        [rng.randrange(-2 ** 20, 2 ** 20) for _ in range(100 if tier == "quick" else 2000)] + [rng.randrange(-2 ** 70, 2 ** 70) for _ in range(10)]
    vals = list(dict.fromkeys(vals))

    def go():
        comp = m["compiler"].Compiler()
        comp.internal_prefix_to_state[1] = {"filename": "f.mac"}
        for i, v in enumerate(vals):
            comp.symbols[".internal1.s%d" % i] = (None, v)
        return comp.generate_listing()
    out, ids, exc = with_reports(go)
    if exc or ids or not isinstance(out, str):
        rep.disagree("driver of generate_listing failed", {"exception": exc, "ids": ids})
        return
    lines = out.split("\n")
    got = {}
    ok = lines[0] == "f.mac" and lines[-2:] == ["", ""] and len(lines) == len(vals) + 3
    for ln in lines[1:-2]:
        text, _, name = ln.rpartition(" ")
        if not name.startswith("s") or not name[1:].isdigit() or name in got:
            ok = False
            break
        got[name] = text
    if not ok or len(got) != len(vals):
        rep.disagree("generate_listing output not of the expected form", {"listing": out[:300]})
        return
    cases = []
    for i, v in enumerate(vals):
        text = got["s%d" % i]
        cases.append(("(%s, Ok %s)" % (C.zlit(v), nlist(text)), {"function": "generate_listing value column", "value": v, "impl": text}))
        rep.nontrivial(("listing", v))
    judge(rep, pid, "listing", "generate_listing value column vs listing_value", "judge_listing_value", cases)


DRIVERS = {"insns": insns_group, "context": context_group, "radix50": radix50_group, "directives": directives_group, "listing": listing_group}


def explore_t(rep, tier, seed, pid=ID, only=None):
    rng = random.Random(seed ^ 0x7C)
    for g in GROUPS:
        if only is not None and g not in only:
            continue
        if g in DRIVERS:
            DRIVERS[g](rep, tier, rng, pid)


def main():
    import argparse
    ap = argparse.ArgumentParser()
    ap.add_argument("groups", nargs="*")
    ap.add_argument("--tier", default="quick")
    ap.add_argument("--seed", type=int, default=int(os.environ.get("VERIF_SEED", "20260927")))
    ap.add_argument("--no-build", action="store_true")
    a = ap.parse_args()
    rep = C.Report(ID, a.tier, a.seed)
    br = None
    if not a.no_build:
        groups = a.groups or GROUPS
        br = C.build(["Props/T.v"] + [PROPS_OF[g] for g in groups], ["Run/TRun%s.v" % SUFFIX[g] for g in groups])
        for l in (br.broken_summary() if not br.ok else []):
            C.log("BROKEN:", l)
        for t in br.theorems:
            C.log("theorem", t, ":", br.assumptions.get(t, "NOT CHECKED").splitlines()[0])
    try:
        explore_t(rep, a.tier, a.seed, only=a.groups or None)
    except RuntimeError as ex:
        rep.disagree("case evaluation failed in coqc (Gen/GenPure.v or Run/TRun.v no longer compiles)", str(ex)[-1500:])
    for d in rep.disagreements[:5]:
        C.log("DISAGREEMENT:", str(d)[:700])
    bad = bool(rep.disagreements) or (br is not None and not br.ok)
    C.log(f"T {a.tier}: evaluations {rep.evaluations}, nontrivial {len(rep.nontrivial_keys)}, disagreements {len(rep.disagreements)}, "
          f"obligations {'-' if br is None else ('ok' if br.ok else 'BROKEN')} {rep.distribution} -> exit {1 if bad else 0}")
    sys.exit(1 if bad else 0)


if __name__ == "__main__":
    main()
