"""C08 -- every input ends in a result or a reported error (DESIGN 4 C08).

Two parts, reported separately in the evidence:
  proof        Props/C08.v: theorems about the fuelled model of wait()/Awaiting/Deferred._wait (termination with an
               explicit fuel bound for every graph, cyclic ones included; flags restored; a DeferredCycle means a
               reachable cycle; values are the unique solution of the dependency equations; acyclic graphs get a
               value) and about the Python partial operations reachable from input, each with the guard the code
               has now.  Tied to the source by Gen files (operators, get_as_int, directive one-liners, pinned
               guarded sites of tools/gens/gen_partial.py) and by running the model against the real deferred.py
               objects on random graphs (Run/C08Run.v).
  exploration  search, not proof: generated texts (tools/c08gen.py) run on the real code, oracle
               "terminates within the watchdog and is ok, or failed with >= 1 error diagnostic; the command line
               never prints the internal-error banner".
"""
import glob
import json
import os
import random
import shutil
import time

import common as C
import impl
import c08run
import c08gen

ID = "C08"
PROP_FILES = ["Props/C08.v"]
RUN_FILES = ["Run/C08Run.v"]
SCRATCH = "/tmp/c08"
CORPUS = os.path.join(C.ROOT, "corpus", "C08")

BOUNDS = (f"resource bound of G (measured by harness-side counters, inputs above it are counted as out-of-domain and not judged): "
          f"<= {c08run.MAX_STMTS} statements compiled counting .repeat/.include multiplicity, "
          f"integers <= 2^{c08run.MAX_BITS.bit_length() - 1} bits (products; shift counts are no longer bounded by the harness: the assembler refuses counts > 2**16 itself), "
          f"<= {c08run.MAX_OPERATORS} operators per expression; counts, sizes, alignments, addresses and include graphs are unbounded "
          f"(the assembler must refuse absurd ones itself); workers run under RLIMIT_AS = 2 GB")
RULE = ("(proof part) wait-model cases: seeded random graphs of 1-12 deferred objects (settled to an int / settled to another object / "
        "fn over 0-3 dependencies returning c+sum or another object, as a Deferred or as a LinearPolynomial subclass / unsettled Promise), cyclic with probability ~1/2, plus fixed shapes "
        "(a=a, mutual, forwarding rings, forwarding chains of N1-2..N1+1 plain objects against the `len(seen) >= N1` bound and of N2-1..N2+2 polynomial objects against the `polynomial_steps >= N2` bound of wait(), both literals read from the source), 1-4 wait() calls each, speculative or not; "
        "the real Deferred/Promise objects are driven through the internal API and value / exception class / is_awaiting flags / settled flags are "
        "compared with Model.WaitModel in coqc; non-trivial = distinct graph with >= 1 fn node. "
        "(exploration part) texts from seven streams of tools/c08gen.py, all seeded: valid (proggen grammar-G programs, 1-3 files), wide (every mnemonic of "
        "the instruction table with every operand form its stubs admit, every directive of metacommands.py incl. aliases, all bracket styles, all literal "
        "spellings, strings with escapes, nested .repeat <= 8, 1-60 statements, 1-3 files, include depth <= 3, 9 charsets), fault (1-3 planted faults from a "
        "catalogue of 68 kinds), mut (<= 3 token/character delete/duplicate/swap/replace/insert from a fixed alphabet incl. \"'/<>()^,;:.\\t and non-ASCII "
        "letters and digits), cyclic (84 self-referential or size-depends-on-later-address shapes in random context, 1 in 5 mutated), deep (chains of 300 additive / 30 non-linear definitions in all orders, plain alias chains of 10-999 links in all orders (must assemble), non-additive rings of 2-10 definitions (must fail with recursive-definition), DAG-shaped definition chains of 20-300 definitions each using earlier-defined-later symbols twice or more (16 forms, reverse/shuffled order: ok or a reported refusal, never a crash or a watchdog hit), include graphs with cycles (self, 2-/3-cycles, with and without .once, './' and 'sub/../' spellings, chains of 3-40, diamonds), huge/boundary/negative values (1 _ 50, 2**32, 65535/65536/65537, -1 ...) in every count/size/alignment/address position incl. nested .repeat and forward-defined counts, "
        "30 address-dependent sizes, 8-deep brackets and .repeat), "
        "limit (every class of value position with a FINITE range -- immediate and offset fields of the instruction table with the bit width read from the table itself "
        "(spl 3, mark/xfc 6, emt/trap/sys 8, branches 8 signed, sob 6 backwards), .rad50 <code> (40), .ascii/.asciz <code> (256), .byte, .word / #imm / index / @#address, .dword, "
        "%register number (8), .link / '. =' / .blkb against the 64 K address space, shift counts against the assembler's own 2**16, BK file names against 16 bytes -- "
        "with 1-6 values per text from the band around the limit L: every value of L-2..L+12, everything up to the farthest misreading of L (its octal / decimal / hex digits read in "
        "another radix, the next power of two, 2L, L/2) and those +-1, negated 1 in 12; written as a literal in any radix, a constant defined before or after the use, or a sum that only "
        "reaches the value after evaluation; for the packed positions (.rad50 triples, string chunks) in every place of the group, after 0-3 and before 0-2 other chunks), "
        "Each text: impl.assemble, then the real main_cli() in process under bare and graphical "
        "report formats with --lst/-o/--implicit-bin/-Wall variants (in-memory files), and for a sample the real CLI in a subprocess. "
        "non-trivial = distinct text (hash of files+charset) that produced >= 1 diagnostic or has >= 3 lines. " + BOUNDS)
ASSUME = ["CPython 3.12 semantics of int, str, struct, chr, open as read by the translator plug-ins (py_* definitions in the Gen files)",
          "the watchdog (10-20 s per text, hangs re-run alone with 6x the time) separates termination from non-termination",
          BOUNDS]
LEVEL_TEXT = ("PARTIAL by nature. Proved in Coq (all closed under the global context): the lazy-evaluation core of deferred.py as a fuelled model "
              "terminates for every finite graph with an explicit fuel bound, restores every is_awaiting flag on every exit path, reports DeferredCycle only when "
              "a cycle is reachable (or a forwarding chain reaches the `seen` bound N1, or contains N2 polynomial-yields-polynomial steps), returns the unique solution of the dependency equations, and gives every closed acyclic "
              "graph a value; the Python partial operations reachable from input (% and // by zero, struct.pack ranges after get_as_int, TABLE.index, chr, "
              "int(s, base), 2**b, dict lookups by pattern letter) cannot raise under the guards the code has now. The model is tied to the source by regenerated "
              "Gen files / pinned source shapes and by model-vs-implementation runs on random graphs. NOT proved: the parser and the statement compiler as a whole; "
              "for 'any source text' the check only searches (generated texts on the real code under a watchdog), which is exploration, reported separately.")
LEVEL_NOTE = ("Trusted: Coq kernel + vm_compute; translator plug-ins gen_partial/gen_operators/gen_meta and their reading of Python; the harness (impl.py, c08run.py: "
              "watchdog, in-memory files, domain counters patched around Compiler.compile_block / the product operator / parser.expression); c08gen.py decides "
              "what is explored (the limit stream takes the ranges of instruction fields from the implementation's own table and the ranges of directive operands from a fixed list in c08gen.limit_classes: a bounded position missing from that list is not swept). Theorems named *_partial say in a comment what is missing.")
TECHNIQUE = "Coq proof of a fuelled model of lazy evaluation and of guarded partial operations + model/implementation correspondence; grammar-directed search with fault planting and mutation on the real code"
TRUSTED = ["tools/c08run.py domain counters (monkey-patched wrappers, nothing in /repo changed)", "tools/c08gen.py (which inputs are explored)",
           "tools/gens/gen_partial.py (pinned source shapes of the guarded sites)"]

STREAM_SHARE = {"valid": 0.12, "wide": 0.22, "fault": 0.22, "mut": 0.22, "cyclic": 0.10, "deep": 0.06, "limit": 0.06}


# ---------------------------------------------------------------------------------------------
# pool helpers: impl.pmap calls functions found in impl's namespace
def _register():
    impl.c08_judge_job = c08run.judge_job
    impl.c08_judge = c08run.judge
    impl.c08_min = c08run.minimise_job
    impl.c08_noop = c08run.noop
    impl.c08_cli = c08run.cli_job
    impl.c08_wait = wait_case_job
    impl.c08_quadratic = c08run.quadratic_witness
    impl.c08_ring = c08run.ring_witness


STALL_S = 500      # a worker that delivers nothing for this long is killed (C-level loops do not see the in-process watchdog)


def _worker(conn, fn, chunk):
    for idx, args in chunk:
        conn.send((idx, impl._run_one((fn, args, {}))))
    conn.close()


def pmap(fn, arglist, chunksize=8):
    """run impl.<fn>(*args) for every args in worker processes (fork), robustly: a worker that dies (memory limit, stack overflow
    in C, kill) or stalls costs exactly the job it was running, which is returned as {"outcome": "worker-died" | "worker-stalled"};
    the rest of its chunk is re-queued.  (multiprocessing.Pool.map never returns when a worker is killed.)"""
    import multiprocessing as mp
    from multiprocessing.connection import wait as conn_wait
    _register()
    n = len(arglist)
    if n == 0:
        return []
    ctx = mp.get_context("fork")
    results = [None] * n
    queue = [[(i, arglist[i]) for i in range(k, min(k + chunksize, n))] for k in range(0, n, chunksize)]
    running = {}      # conn -> [process, chunk, next position in chunk, time of last message]
    nproc = min(16, os.cpu_count() or 4)
    while queue or running:
        while queue and len(running) < nproc:
            chunk = queue.pop(0)
            parent, child = ctx.Pipe(duplex=False)
            pr = ctx.Process(target=_worker, args=(child, fn, chunk), daemon=True)
            pr.start()
            child.close()
            running[parent] = [pr, chunk, 0, time.time()]
        ready = conn_wait(list(running), timeout=5)
        now = time.time()
        for conn in ready:
            st = running[conn]
            try:
                idx, res = conn.recv()
                results[idx] = res
                st[2] += 1
                st[3] = now
                continue
            except (EOFError, OSError):
                pass
            pr, chunk, pos, _ = running.pop(conn)
            pr.join(5)
            conn.close()
            if pos < len(chunk):        # died while running chunk[pos]
                results[chunk[pos][0]] = {"outcome": "worker-died", "exitcode": pr.exitcode}
                if pos + 1 < len(chunk):
                    queue.append(chunk[pos + 1:])
        for conn in [c for c, st in running.items() if now - st[3] > STALL_S]:
            pr, chunk, pos, _ = running.pop(conn)
            pr.kill()
            pr.join(5)
            conn.close()
            if pos < len(chunk):
                results[chunk[pos][0]] = {"outcome": "worker-stalled", "after_s": STALL_S}
                if pos + 1 < len(chunk):
                    queue.append(chunk[pos + 1:])
    return results


def dead_to_verdict(r, case):
    """a job that took its worker down is a finding about the text, not a harness error"""
    if not isinstance(r, dict) or r.get("outcome") not in ("worker-died", "worker-stalled"):
        return r
    died = r["outcome"] == "worker-died"
    sig = "crash:worker-died" if died else "hang"
    what = (f"assembling this text killed the worker process (exit code {r.get('exitcode')}: memory limit, stack overflow or abort inside the interpreter)"
            if died else f"assembling did not come back within {STALL_S} s and did not react to the watchdog signal (a loop inside C code)")
    jc = c08run.jsonable(case)
    return {"p1": "crash" if died else "hang", "ood": None, "verdicts": [{"signature": sig, "what": what, "detail": r}], "diag_ids": [], "exits": [],
            "stream": case.get("stream", "?"), "index": case.get("n", -1), "tags": case.get("tags", []), "hit": [], "size": sum(len(t) for _, t in case["files"]),
            "nlines": 3, "hash": "dead:" + str(hash(json.dumps(jc["files"]))), "case": jc}


# ---------------------------------------------------------------------------------------------
# proof part: WaitModel against the real deferred objects
def seen_bounds():
    """the two literals of deferred.wait as the translator pinned them (Gen/GenPartial.v)"""
    import re
    with open(os.path.join(C.COQ, "Gen", "GenPartial.v"), encoding="utf-8") as f:
        text = f.read()
    m1 = re.search(r"Definition wait_seen_bound : nat := (\d+)%nat", text)
    m2 = re.search(r"Definition wait_poly_bound : nat := (\d+)%nat", text)
    return (int(m1.group(1)) if m1 else 1000), (int(m2.group(1)) if m2 else 64)


def gen_wait_cases(rng, n):
    bound, bound2 = seen_bounds()
    cases = []
    fixed = [
        ([("fn", [], 0, 0)], [(0, 0)]),                                   # a = a
        ([("fn", [1], 1, None), ("fn", [0], 1, None)], [(0, 0), (1, 1)]),  # a = b+1, b = a+1
        ([("fn", [], 0, 1), ("fn", [], 0, 2), ("fn", [], 0, 0)], [(1, 0)]),   # forwarding ring
        ([("fn", [0], 0, None)], [(0, 0), (0, 1)]),                     # waits for itself
        ([("fn", [1, 2], 1, None), ("const", 5), ("fn", [1], 2, None)], [(0, 0), (2, 0), (0, 1)]),
        ([("fn", [1], 0, None), ("unsettled",)], [(0, 1), (0, 0), (0, 1)]),
        ([("constf", 1), ("constf", 2), ("const", 9)], [(0, 0)]),
        ([("fn", [1], 3, 2), ("const", 4), ("fn", [1, 1], 0, None)], [(0, 0)]),
        ([("fn", [1], 0, None), ("fn", [2], 0, None), ("fn", [3], 0, None), ("fn", [1], 0, None)], [(0, 0), (3, 0)]),
    ]
    # the not_ready_yet memo: several speculative waits inside ONE outermost speculation (2 = continue it), then a real one,
    # then a new speculation: memo hits on shared not-ready sub-objects, sub-objects that a hit leaves unsettled
    fixed += [
        ([("fn", [1], 0, None), ("unsettled",), ("fn", [3, 0], 0, None), ("const", 3), ("fn", [3, 1], 1, None)],
         [(0, 1), (2, 2), (4, 2), (0, 0), (2, 1), (2, 2)]),
        ([("fn", [1, 1], 0, None), ("fn", [2, 2], 0, None), ("fn", [3, 3], 0, None), ("unsettled",)], [(0, 1), (0, 2), (1, 2), (0, 1)]),
        ([("fn", [1, 2], 0, None), ("fn", [2], 1, None), ("fn", [0], 0, None)], [(0, 1), (1, 2), (2, 2), (0, 0)]),
        ([("poly", [2], 0, 1), ("poly", [3], 0, None), ("const", 1), ("unsettled",), ("fn", [1, 0], 0, None)], [(4, 1), (0, 2), (1, 2), (4, 2), (4, 0)]),
    ]
    cases += fixed
    # the `len(seen) >= N` bound: forwarding chains of N-2 .. N+1 objects ending in a constant
    for ln in (bound - 2, bound - 1, bound, bound + 1):
        specs = [("constf", k + 1) for k in range(ln)] + [("const", 7)]
        cases.append((specs, [(0, 0), (1, 0), (ln - 3, 0)]))
    # the `polynomial_steps >= N2` bound: chains of N2-1 .. N2+2 polynomial objects each yielding the next (N2-2 .. N2+1 counted
    # steps), the same with every other object a plain Deferred (no counted step), and a polynomial ring
    for ln in (bound2 - 1, bound2, bound2 + 1, bound2 + 2):
        specs = [("poly", [], 0, k + 1) for k in range(ln)] + [("const", 7)]
        cases.append((specs, [(0, 0), (2, 0)]))
    specs = [(("poly" if k % 2 else "fn"), [], 0, k + 1) for k in range(3 * bound2)] + [("const", 3)]
    cases.append((specs, [(0, 0)]))
    specs = [("poly", [], 0, (k + 1) % 5) for k in range(5)]
    cases.append((specs, [(0, 0), (3, 1)]))
    specs = [("poly", [1], 1, None), ("poly", [], 0, 2), ("fn", [3], 2, None), ("poly", [], 0, 4), ("const", 5)]
    cases.append((specs, [(0, 0)]))
    while len(cases) < n:
        k = rng.choice([1, 2, 3, 4, 5, 6, 8, 12])
        acyclic = rng.random() < 0.5
        specs = []
        for i in range(k):
            pool = list(range(i + 1, k)) if acyclic else list(range(k))
            c = rng.random()
            if c < 0.15 or (acyclic and not pool):
                specs.append(("const", rng.randrange(-9, 10)))
            elif c < 0.25 and pool:
                specs.append(("constf", rng.choice(pool)))
            elif c < 0.32:
                specs.append(("unsettled",))
            else:
                deps = [rng.choice(pool) for _ in range(rng.choice([0, 1, 1, 2, 3]))] if pool else []
                fwd = rng.choice(pool) if (pool and rng.random() < 0.25) else None
                specs.append(("poly" if rng.random() < 0.3 else "fn", deps, rng.randrange(-5, 6), fwd))
        steps, prev = [], 0
        for _ in range(rng.choice([1, 2, 3, 4, 6])):
            spn = rng.choice([0, 0, 1, 2, 2]) if prev else rng.choice([0, 0, 1, 1])
            steps.append((rng.randrange(k), spn))
            prev = spn
        cases.append((specs, steps))
    return cases


def wait_case_job(specs, steps):
    """build the real objects and run the wait() calls; returns the observations"""
    import signal
    m = impl.load()
    D = m["deferred"]
    impl.reset_global_state()
    if hasattr(D.try_compute, "not_ready_yet"):
        D.try_compute.not_ready_yet = {}     # a fresh process state for the case (entries of an earlier case are dead objects)

    class FakePoly(D.LinearPolynomial):
        """an object wait() takes for a LinearPolynomial, behaving like an unsettled Deferred with the given fn"""

        def __init__(self, typ):
            D.LinearPolynomial.__init__(self, typ)
            self.fn, self.value, self.settled = None, None, False

        def _wait(self):
            if self.settled:
                return self.value
            self.value = self.fn()
            self.settled = True
            return self.value

    nodes = [None] * len(specs)
    for k, s in enumerate(specs):
        if s[0] == "poly":
            nodes[k] = FakePoly(int)
        elif s[0] == "fn":
            nodes[k] = D.Deferred(int, None)
        elif s[0] == "unsettled":
            nodes[k] = D.Promise(int, f"P{k}")
        elif k % 2 == 0:
            nodes[k] = D.Promise(int, f"P{k}")
        else:
            nodes[k] = D.Deferred(int, None)
    for k, s in enumerate(specs):
        if s[0] == "const":
            val = s[1]
        elif s[0] == "constf":
            val = nodes[s[1]]
        else:
            val = None
        if s[0] in ("const", "constf"):
            if isinstance(nodes[k], D.Promise):
                nodes[k].settle(val)
            else:
                nodes[k].value, nodes[k].settled = val, True
        elif s[0] in ("fn", "poly"):
            def mk(deps, c, fwd):
                def fn():
                    vals = [D.wait(nodes[d]) for d in deps]
                    return nodes[fwd] if fwd is not None else c + sum(vals)
                return fn
            nodes[k].fn = mk(s[1], s[2], s[3])
    obs = []
    old = signal.signal(signal.SIGALRM, impl._alarm)
    try:
        session = False
        for start, spn in steps:
            signal.setitimer(signal.ITIMER_REAL, 10)
            spec = spn != 0
            try:
                # the real context manager: entering at depth 0 empties the memo; the outermost speculation stays open
                # over the steps with spn == 2 (each of them one nested `with try_compute`)
                if session and spn != 2:
                    D.try_compute.__exit__(None, None, None)
                    session = False
                if spec and not session:
                    D.try_compute.__enter__()
                    session = True
                if spec:
                    D.try_compute.__enter__()
                try:
                    v = D.wait(nodes[start])
                    o = ("val", v) if isinstance(v, int) else ("other", type(v).__name__)
                except D.DeferredCycle:
                    o = ("cycle",)
                except D.NotReadyError:
                    o = ("notready",)
                except impl.Hang:
                    o = ("hang",)
                except RecursionError:
                    o = ("other", "RecursionError")
                except Exception as ex:
                    o = ("crash",) if "is not ready" in str(ex) else ("other", type(ex).__name__)
                finally:
                    if spec:
                        D.try_compute.__exit__(None, None, None)
            finally:
                signal.setitimer(signal.ITIMER_REAL, 0)
            flags_clear = not any(nd.is_awaiting for nd in nodes) and not D.Awaiting.awaiting_stack
            sett = [bool(getattr(nd, "settled", False)) if specs[k][0] in ("fn", "poly") else False for k, nd in enumerate(nodes)]
            memo = getattr(D.try_compute, "not_ready_yet", {})
            obs.append((o, flags_clear, sett, [id(nd) in memo for nd in nodes]))
            if o[0] == "hang":
                break
    finally:
        if session:
            D.try_compute.__exit__(None, None, None)
        D.try_compute.depth = 0
        signal.signal(signal.SIGALRM, old)
    return obs


def wait_term(specs, steps, obs):
    def b(x):
        return "true" if x else "false"

    def sp(s):
        if s[0] == "const":
            return f"SConst {C.zlit(s[1])}"
        if s[0] == "constf":
            return f"SConstF {s[1]}%nat"
        if s[0] == "unsettled":
            return "SUnsettled"
        deps = "[" + "; ".join(f"{d}%nat" for d in s[1]) + "]"
        fwd = "None" if s[3] is None else f"(Some {s[3]}%nat)"
        return f"{'SPoly' if s[0] == 'poly' else 'SFn'} {deps} {C.zlit(s[2])} {fwd}"

    def ob(o):
        return {"val": lambda: f"ObsVal {C.zlit(o[1])}", "cycle": lambda: "ObsCycle", "notready": lambda: "ObsNotReady",
                "crash": lambda: "ObsCrash", "hang": lambda: "ObsHang", "other": lambda: "ObsOther"}[o[0]]()
    st = []
    for (start, spn), (o, fc, sett, memo) in zip(steps, obs):
        st.append(f"({start}%nat, {int(spn)}%nat, {ob(o)}, {b(fc)}, [" + "; ".join(b(x) for x in sett) + "], [" + "; ".join(b(x) for x in memo) + "])")
    return "([" + "; ".join(sp(s) for s in specs) + "], [" + "; ".join(st) + "])"


def wait_part(rep, rng, tier):
    n = 300 if tier == "quick" else 3000
    cases = gen_wait_cases(rng, n)
    observed = pmap("c08_wait", [(s, st) for s, st in cases], chunksize=16)
    terms = []
    for (specs, steps), obs in zip(cases, observed):
        if isinstance(obs, dict):
            raise RuntimeError("wait harness error: " + str(obs))
        rep.add_eval()
        rep.count("wait:" + obs[0][0][0])
        if any(s[0] in ("fn", "poly") for s in specs):
            rep.nontrivial(("wait", json.dumps(specs)))
        terms.append(wait_term(specs, steps[:len(obs)], obs))
    rep.traces_validated += len(terms)
    rep.sample({"wait_case": {"nodes": cases[4][0], "steps": cases[4][1], "observed": observed[4]}})
    # long chains make big terms: keep them in their own small shards
    big = [t for t in terms if len(t) > 20000]
    small = [t for t in terms if len(t) <= 20000]
    shards = C.shard(small, 150) + [[t] for t in big]
    codes = C.run_case_files(ID, "Run.C08Run", "Open Scope Z_scope.", shards, judge_expr="map judge cases")
    flat = [c for sh in codes for c in sh]
    order = [i for i, t in enumerate(terms) if len(t) <= 20000] + [i for i, t in enumerate(terms) if len(t) > 20000]
    for idx, code in zip(order, flat):
        specs, steps = cases[idx]
        short = {"nodes": specs if len(specs) < 40 else f"{len(specs)} nodes: {specs[:2]} ... {specs[-2:]}", "steps": steps}
        if code & 1:
            rep.disagree("wait(): Model.WaitModel vs the real deferred.py objects", short, impl=observed[idx])
        if code & 2:
            rep.violate("wait:" + str(observed[idx][-1][0][0]), "wait() on a graph of Deferred/Promise objects hung, raised an unexpected exception class or left is_awaiting flags set "
                        "(judged in Coq: Run.C08Run.prop)", short, impl=observed[idx], replay="tools/props/c08.py: wait_case_job(nodes, steps)")


# ---------------------------------------------------------------------------------------------
# exploration part
def load_corpus():
    out = []
    for p in sorted(glob.glob(os.path.join(CORPUS, "*.json"))):
        with open(p, encoding="utf-8") as f:
            d = json.load(f)
        d["path"] = p
        out.append(d)
    return out


def confirm_hangs(results, watchdog):
    """a hang verdict under load is re-run (in a pool of its own, 6x the time) before it counts.  At most three
    batches of 16, smallest texts first; once a batch confirms a hang the remaining candidates keep their verdict
    unexamined (one confirmed witness is enough), otherwise unexamined candidates are dropped and counted."""
    def is_hang(v):
        return v["signature"] in ("hang", "cli-hang")
    idx = [i for i, r in enumerate(results) if any(is_hang(v) for v in r.get("verdicts", [])) and r.get("case") is not None]
    idx.sort(key=lambda i: results[i].get("size", 0))
    slow, confirmed, examined = 0, 0, 0
    for b in range(3):
        batch = idx[b * 16:(b + 1) * 16]
        if not batch or confirmed:
            break
        again = pmap("c08_judge", [(results[i]["case"], watchdog * 6) for i in batch], chunksize=1)
        for i, a in zip(batch, again):
            examined += 1
            r = results[i]
            if "p1" not in a or any(is_hang(v) for v in a.get("verdicts", [])):
                confirmed += 1
                if isinstance(a, dict) and a.get("outcome") in ("worker-died", "worker-stalled"):
                    results[i] = dead_to_verdict(a, results[i]["case"])
                continue
            slow += 1
            keep = {k: r[k] for k in ("stream", "index", "tags", "hit", "size", "nlines", "hash", "case") if k in r}
            results[i] = {**a, **keep, "slow": True}
    if not confirmed:
        for i in idx[examined:]:
            r = results[i]
            r["verdicts"] = [v for v in r["verdicts"] if not is_hang(v)]
            r["unexamined_hang"] = True
    return {"hang_candidates": len(idx), "slow_not_hung": slow, "confirmed_hangs": confirmed, "unexamined": max(0, len(idx) - examined)}


def explore_texts(rep, seed, total, watchdog, label="explore"):
    _register()
    jobs = []
    for stream in c08gen.STREAMS:
        n = max(8, int(total * STREAM_SHARE[stream]))
        jobs += [(stream, seed, i, watchdog) for i in range(n)]
    random.Random(seed).shuffle(jobs)      # spread the slow streams over the pool
    t0 = time.time()
    results = pmap("c08_judge_job", jobs, chunksize=8)
    for k, (r, job) in enumerate(zip(results, jobs)):
        if isinstance(r, dict) and r.get("outcome") in ("worker-died", "worker-stalled"):
            case = c08gen.Gen(random.Random(f"{job[1]}:{job[0]}:{job[2]}")).case(job[0])
            case["n"] = job[2]
            results[k] = dead_to_verdict(r, case)
    hang_info = confirm_hangs(results, watchdog)
    info = {"texts": len(jobs), "wall_s": round(time.time() - t0, 1), **hang_info}
    return results, info


def account(rep, results, prefix=""):
    found = {}
    ood = {}
    hit = set()
    for r in results:
        if "p1" not in r:
            rep.violate("harness-error", "the harness itself failed on a generated text (never hidden)", r)
            continue
        rep.add_eval()
        rep.count(f"{prefix}{r.get('stream', 'corpus')}:{r['p1']}")
        for t in r.get("tags", []):
            rep.count("tag:" + t.split(":")[0] + ":" + t.split(":")[1] if t.count(":") >= 1 else "tag:" + t)
        hit.update(r.get("hit", []))
        if r.get("ood"):
            ood[r["ood"]] = ood.get(r["ood"], 0) + 1
            continue
        if r.get("diag_ids") or r.get("nlines", 0) >= 3:
            rep.nontrivial(("text", r.get("hash")))
        for v in r["verdicts"]:
            found.setdefault(v["signature"], []).append((r, v))
    return found, ood, hit


def report_found(rep, found):
    """minimise one witness per signature (in worker processes) and file the violations"""
    items = []
    for sig, lst in sorted(found.items()):
        r, v = min(lst, key=lambda rv: rv[0].get("size", 10 ** 9))
        items.append((sig, r, v, len(lst)))
    # 'spurious-cycle-report' rests on the input being acyclic by construction: shrinking the text would void that
    mins = pmap("c08_min", [(r["case"], sig) if sig not in ("spurious-cycle-report", "unexpected-outcome", c08run.KNOWN_QUADRATIC, c08run.KNOWN_RING) else (r["case"], "<keep>") for sig, r, v, n in items], chunksize=1) if items else []
    for (sig, r, v, n), mres in zip(items, mins):
        if isinstance(mres, dict):      # harness error inside the minimiser: keep the unminimised witness
            mcase, trials = r["case"], -1
        else:
            mcase, trials = mres
        C.log(f"  C08 finding [{sig}] x{n}: {v['what']}; minimised input: {json.dumps(mcase['files'], ensure_ascii=False)[:300]}"
              + (f" fs={json.dumps(mcase['fs'], ensure_ascii=False)[:120]}" if mcase.get("fs") else "") + f" charset={mcase.get('charset')}")
        rep.violate(sig, v["what"], mcase, detail=v.get("detail"), occurrences=n, stream=r.get("stream"), tags=r.get("tags"),
                    original_size=r.get("size"), minimiser_trials=trials,
                    replay="./check C08 --replay <this file>  (tools/props/c08.py: replay -> c08run.judge(input))")


def cli_sample(rep, seed, results, n):
    """the real command line in a subprocess (both report formats) on a sample of judged texts"""
    picks = [r for r in results if r.get("p1") in ("ok", "failed") and not r.get("ood") and not r.get("verdicts")]
    rng = random.Random(seed + 7)
    rng.shuffle(picks)
    # prefer variety: half failed, half ok
    fl = [r for r in picks if r["p1"] == "failed"][: n // 2]
    ok = [r for r in picks if r["p1"] == "ok"][: n - len(fl)]
    picks = fl + ok
    jobs = []
    for k, r in enumerate(picks):
        g = c08gen.Gen(random.Random(f"{seed}:{r['stream']}:{r['index']}"))
        case = g.case(r["stream"])
        if any("~" in t for _, t in case["files"]):
            continue
        case = c08run.jsonable(case)
        case["argv"] = [[], ["--lst"], ["-o", "out.bin"], ["--implicit-bin"]][k % 4]
        for fmt in ("bare", "graphical"):
            jobs.append((case, fmt, os.path.join(SCRATCH, f"cli-{os.getpid()}", f"{k}-{fmt}"), r))
    outs = pmap("c08_cli", [(c, f, d) for c, f, d, _ in jobs], chunksize=1)
    nrun = 0
    for (case, fmt, d, r), o in zip(jobs, outs):
        if "exit" not in o:
            rep.violate("harness-error", "CLI sample harness error", o)
            continue
        nrun += 1
        rep.add_eval()
        rep.count(f"cli-subprocess:{fmt}:exit{o['exit']}")
        inp = {**case, "format": fmt}
        if o.get("timeout"):
            rep.violate("cli-subprocess-timeout", "the real command line did not finish within 60 s", inp)
        elif c08run.BANNER in o["err"]:
            info = c08run.banner_info(o["err"])
            rep.violate(c08run.sig_of("cli-crash", info), "the real command line printed the 'unexpected internal compiler error' banner", inp, detail=info)
        elif o["exit"] not in (0, 1):
            rep.violate(f"cli-exit:{o['exit']}", "unexpected exit status of the real command line", inp, stderr=o["err"][-400:])
        elif o["exit"] == 1 and not c08run.explained(o):
            rep.violate("cli-silent-failure", "the real command line exited 1 without an error message", inp, stderr=o["err"][-400:])
        elif r["p1"] == "failed" and o["exit"] == 0:
            rep.violate("cli-failure-not-signalled", "assembling failed in process but the real command line exited 0", inp)
    return nrun


def run_corpus(rep, watchdog):
    corpus = load_corpus()
    cases = []
    for d in corpus:
        c = {"files": d["files"], "fs": d.get("fs") or {}, "charset": d.get("charset", "bk"), "n": 0}
        if d.get("argv") is not None:
            c["argv"] = d["argv"]
        if d.get("acyclic"):
            c["acyclic"] = True
        if d.get("expect"):
            c["expect"] = d["expect"]
        cases.append(c)
    res = pmap("c08_judge", [(c, watchdog) for c in cases], chunksize=1)
    res = [dead_to_verdict(r, c) for r, c in zip(res, cases)]
    out = []
    for d, c, r in zip(corpus, cases, res):
        if "p1" in r:
            r = dict(r)
            r.update(stream="corpus", tags=["corpus:" + d["name"]], hit=[], size=sum(len(t) for _, t in c["files"]),
                     nlines=3, hash="corpus:" + d["name"], case=c08run.jsonable(c))
        out.append(r)
    confirm_hangs(out, watchdog)
    return out


def coverage_notes(rep, hit, tier):
    uni = c08gen.coverage_universe()
    miss_d = [d for d in uni["directives"] if "d:" + d.lower() not in hit]
    miss_m = [m for m in uni["mnemonics"] if "m:" + m.lower() not in hit]
    rep.extra.setdefault("exploration", {})["coverage"] = {
        "directives_hit": len(uni["directives"]) - len(miss_d), "directives_total": len(uni["directives"]), "directives_missed": miss_d,
        "mnemonics_hit": len(uni["mnemonics"]) - len(miss_m), "mnemonics_total": len(uni["mnemonics"]), "mnemonics_missed": miss_m[:40]}


def explore(rep, br, tier, seed):
    rng = random.Random(seed)
    os.makedirs(SCRATCH, exist_ok=True)
    watchdog = float(os.environ.get("C08_WATCHDOG", "20"))
    # ---- proof part: model vs implementation
    try:
        wait_part(rep, rng, tier)
    except RuntimeError as ex:
        # the model / Run file no longer evaluates: a broken correspondence; the exploration below still runs
        rep.disagree("wait(): case evaluation failed in coqc (Model/WaitModel.v or Run/C08Run.v no longer compiles)", str(ex)[-1500:])
    # ---- exploration part
    t0 = time.time()
    found_all = {}
    corpus_res = run_corpus(rep, watchdog)
    found, ood, hit = account(rep, corpus_res, prefix="")
    for k, v in found.items():
        found_all.setdefault(k, []).extend(v)
    total = int(os.environ.get("C08_N", "0")) or (2000 if tier == "quick" else 48000)
    results, info = explore_texts(rep, seed, total, watchdog)
    found, ood2, hit2 = account(rep, results)
    for k, v in found.items():
        found_all.setdefault(k, []).extend(v)
    for k, v in ood2.items():
        ood[k] = ood.get(k, 0) + v
    hit |= hit2
    coverage_notes(rep, hit, tier)
    shown = [r for r in results if r.get("case") and not r.get("verdicts")][:3]
    for r in shown:
        rep.sample({"stream": r["stream"], "files": r["case"]["files"], "charset": r["case"]["charset"], "outcome": r["p1"], "diagnostics": r["diag_ids"], "cli_exits": r["exits"]})
    # the known finding deferred-repeat-quadratic, made visible on every run by a cheap measurement
    qw = pmap("c08_quadratic", [()], chunksize=1)[0]
    rep.extra.setdefault("exploration", {})["quadratic_witness"] = qw
    if isinstance(qw, dict) and qw.get("ratio", 0) >= 8:
        rep.add_eval()
        found_all.setdefault(c08run.KNOWN_QUADRATIC, []).append((
            {"case": {"files": [["q.mac", ".repeat 1600. { .even }\n"]], "fs": {}, "charset": "bk"}, "size": 25, "stream": "witness", "tags": ["witness"]},
            {"signature": c08run.KNOWN_QUADRATIC, "what": f"'.repeat 1600. {{ .even }}' takes {qw[1600]:.1f} s, '.repeat 400. {{ .even }}' {qw[400]:.2f} s (ratio {qw['ratio']:.1f} for 4x the count: quadratic)", "detail": qw}))
    rw = pmap("c08_ring", [()], chunksize=1)[0]
    rep.extra.setdefault("exploration", {})["ring_witness"] = rw
    if isinstance(rw, dict) and rw.get("ratio", 0) >= 6:
        rep.add_eval()
        text = "\n".join([".word x24"] + [f"x{i} = x{i - 1}*x{i - 1}-x{i - 1}*x{i - 1}+x{i - 1}" for i in range(24, 0, -1)] + ["x0 = x21 + 1"]) + "\n"
        found_all.setdefault(c08run.KNOWN_RING, []).append((
            {"case": {"files": [["r.mac", text]], "fs": {}, "charset": "bk"}, "size": len(text), "stream": "witness", "tags": ["witness"]},
            {"signature": c08run.KNOWN_RING, "what": f"a ring through 24 steps 'x*x-x*x+x' is reported after {rw[24]:.1f} s, through 12 steps after {rw[12]:.2f} s (ratio {rw['ratio']:.1f} for 2x the length: ~N^{__import__('math').log2(max(rw['ratio'], 1)):.1f})", "detail": rw}))
    ncli = cli_sample(rep, seed, results, 40 if tier == "quick" else 300)
    report_found(rep, found_all)
    ex = rep.extra.setdefault("exploration", {})
    ex.update({"level": "exploration (search on the real code, not proof)", "corpus_inputs": len(corpus_res), **info,
               "out_of_domain": ood, "out_of_domain_total": sum(ood.values()), "cli_subprocess_runs": ncli,
               "distinct_signatures_found": sorted(found_all), "watchdog_s": watchdog, "bounds": BOUNDS,
               "wall_total_s": round(time.time() - t0, 1)})
    rep.notes.append("C08 is partial: theorems cover the lazy-evaluation core and the guarded partial operations; 'any source text' is explored, not proved")
    shutil.rmtree(os.path.join(SCRATCH, f"cli-{os.getpid()}"), ignore_errors=True)   # per process: concurrent checks (try_mutant) must not share it


def search_without_model(rep, tier, seed):
    search(rep, None, tier, seed)


def search(rep, br, tier, seed):
    """an obligation or the correspondence broke: look harder for a concrete failing text on the real code"""
    watchdog = float(os.environ.get("C08_WATCHDOG", "20"))
    found_all = {}
    if not any(k.startswith("corpus") for k in rep.distribution):
        f, _, _ = account(rep, run_corpus(rep, watchdog))
        found_all.update(f)
    total = 6000 if tier == "quick" else 60000
    results, info = explore_texts(rep, seed + 1, total, watchdog, label="search")
    found, ood, hit = account(rep, results, prefix="search:")
    for k, v in found.items():
        found_all.setdefault(k, []).extend(v)
    report_found(rep, found_all)
    rep.extra.setdefault("exploration", {})["search"] = info


def replay(data):
    inp = data.get("input")
    if not isinstance(inp, dict) or "files" not in inp:
        print(json.dumps(data, indent=1, ensure_ascii=False)[:3000])
        return False
    r = c08run.judge(inp, float(os.environ.get("C08_WATCHDOG", "20")))
    print("input files:", json.dumps(inp["files"], ensure_ascii=False)[:1500])
    print("outcome:", r["p1"], "out-of-domain:", r["ood"], "diagnostics:", r["diag_ids"], "cli exits:", r["exits"])
    for v in r["verdicts"]:
        print("  verdict:", v["signature"], "-", v["what"], json.dumps(v.get("detail"), ensure_ascii=False, default=str)[:300])
    return not r["verdicts"]


# --- P, the character-level model of parser.py (Model/StmtParse.v; tables regenerated by gens/gen_parser_tables.py):
# Props/P.v holds P_parse_total (for every text, fuel 8*len+7 suffices and no partial operation of the parser -- indexing, int(), chr(), pop(), the assert -- is reachable); explore_p runs the model in coqc on the same texts as pdpy11.parser.parse and
# compares the whole tree with every ctx_start/ctx_end offset and every diagnostic (severity, identifier, spans), plus the
# model-free oracle "every offset lies within the file"
import p_corr  # noqa: E402
PROP_FILES = PROP_FILES + ["Props/P.v"]
RUN_FILES = RUN_FILES + ["Run/PRun.v"]
LEVEL_TEXT = LEVEL_TEXT + (" P (character-level parser model, Model/StmtParse.v): P_parse_total closes the parser part of this property at model level for every text (no length bound): the result is POk or PCritical, never a crash site and never out of fuel; tie = p_corr correspondence (whole tree + diagnostics) and the regenerated tables; CPython's recursion limit on deep nesting stays outside.")
_explore_without_p = explore
_replay_without_p = replay


def explore(rep, br, tier, seed):
    _explore_without_p(rep, br, tier, seed)
    p_corr.explore_p(rep, tier, seed)


def replay(data):
    inp = data.get("input") or {}
    if set(inp) <= {"text", "stream"} and "text" in inp:      # a finding of explore_p
        kind, ser, info = p_corr.impl_parse(inp["text"])
        oob = sorted(set(p_corr.LAST_OOB))
        ans = p_corr.run_model([(inp["text"], p_corr.hash_ser(ser))]) if kind != "ood" else [0]
        print("pdpy11.parser.parse:", kind, info[:200] if isinstance(info, str) else "", "| offsets outside the file:", oob[:6],
              "| model agrees:", not (ans[0] & 1))
        return kind != "exc" and not oob and not (ans[0] & 1)
    return _replay_without_p(data)
