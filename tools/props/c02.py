"""C02 -- addresses the program sees equal where its bytes land (DESIGN 4 C02)."""
import glob
import os
import random
import common as C
import impl
import proggen

ID = "C02"
PROP_FILES = ["Props/C02.v"]
RUN_FILES = ["Run/C02Run.v"]
RULE = ("generated: grammar-G programs (tools/proggen.py; instructions, data, strings, reserved blocks, alignment, '. =' skips, "
        "nested .repeat, insert_file, .include, 1-3 linked files, forward-referenced sizes and counts, even/odd bases, with and "
        "without a leading .link) + the 21 practice-corpus programs; each is assembled by the real code with the PDPY11_VERIF hook; "
        "every compile_block invocation is one case: (start, per statement ready/announced/produced/address, end); judged in Coq: "
        "bit0 Model.Block recurrence = observed addresses, bit1 announced = produced and address = start + bytes before; image "
        "placement (bytes at addr-base = statement's bytes) judged in Coq for images <= 3000 bytes and re-checked in Python for all. "
        "non-trivial = distinct block containing >= 1 statement that was still deferred when its address was committed")
LEVEL_TEXT = ("Coq theorems over the running-address model of compile_block/.repeat/.include/linking: under 'announced size = final size' "
              "every statement at every nesting depth is told base + bytes-before, the image slice at that address is its bytes, image "
              "length = sum of sizes (induction over nested statement lists, unbounded); sensitivity theorem shows the hypothesis is "
              "what the invariant depends on. The hypothesis and the model are tied to the code by the hook-trace correspondence on "
              "generated programs and the practice corpus (every chunk of every run).")
LEVEL_NOTE = ("Trusted: Coq kernel + vm_compute; the 6-site PDPY11_VERIF hook in compiler.py; tools/c02_worker.py trace reader; proggen. "
              "The per-directive discharge of 'announced = final' is C06's announce_eq_emit (regenerated size lambdas) and C01's "
              "instruction length lemma; here it is checked on each real chunk. D2: blocks of an included file that sets its own "
              "link base are excluded (their addresses deliberately differ from where the bytes land). All theorems closed under "
              "the global context.")
TECHNIQUE = "Coq proof (induction over nested blocks) + hook-trace model/implementation correspondence"
ASSUME = ["the hook records exactly the (statement, address, chunk) triples compile_block uses", "CPython bytes/len semantics"]
TRUSTED = ["/repo hook commits (PDPY11_VERIF): compile_block records statement/address/chunk, block enter/exit, labels"]

CORPUS = sorted(glob.glob(os.path.join(C.REPO, "tests", "practice", "*", "code.mac")))


def profiles(rng):
    P = proggen.Profile
    return [
        P(n_files=(1, 3), link="maybe"),
        P(n_files=(1, 1), link="never", n_stmts=(6, 40)),
        P(n_files=(1, 2), link="always", n_stmts=(6, 30)),
        P(n_files=(2, 3), link="maybe", n_stmts=(3, 12)),
    ]


def gen_cases(rng, n):
    profs = profiles(rng)
    out = []
    for i in range(n):
        p = proggen.gen_program(rng, profs[i % len(profs)])
        out.append(("gen", p.files, p.fs, p.meta))
    return out


def special_cases():
    """hand-written shapes that stress announced-vs-produced sizes"""
    S = []
    def one(src, fs=None):
        S.append(("special", [("s.mac", src)], fs or {}, {}))
    one(".word a, b, c\n.byte a\n.even\nx: .word x\na = 1\nb = 2\nc = 3\n")
    one(".blkb n\nx: .word x\n.repeat n { .byte n\n.even\n }\ny: .word y\nn = 4\n")
    one(".byte 1\n.even\n.byte 2\n.odd\n  .byte 3\n.align 10\nz: .word z\n")
    one(".link 1001\n.even\na: .word a\n.byte 1\n.align 4\nb: .word b\n")
    one(".link 2000\n.blkb k\n. = . + 5\n.even\nq: .word q\nk = 3\n")
    one("mov #later, r0\nmov later(r1), @later+2(r2)\nlater: .word later\n")
    one(".repeat 3 { .repeat 2 { .byte 1\n.even\n.word . } }\ne: .word e\n")
    one(".dword big\n.word big2\nbig = 70000\nbig2 = 7\nt: .word t\n")
    one('.ascii "abc" <n> "d"\n.asciz /x/ <n>\n.rad50 /abcd/ <n>\n.even\nw: .word w\nn = 5\n')
    one('.include "i.mac"\nafter: .word after\n', {"i.mac": ".blkb m\n.even\nil: .word il\nm = 3\n"})
    one('insert_file "b.bin"\n.even\nafter: .word after\n', {"b.bin": bytes(range(7))})
    # a skip target written as a negative / wrapped value: the addresses after it are still base + bytes before
    one(".link 1000\nnop\n. = -176730\nl: .word l, .\nm: .word m\n")
    one("nop\n. = -176730\nl: .word l, .\n.byte 1\n.even\nm: .word m\n")
    one(".link 1000\n.blkb n\n. = -176700\nl: .word l, .\nn = 3\n")
    # a path that is only known after a later definition: the statement stays deferred, its size must still count
    one('.include "i" <n> ".mac"\nafter: .word after, .\nn = 67\n', {"i7.mac": ".byte 1,2,3,4\n"})
    one('.byte 1\n.even\n.include "i" <n> ".mac"\n.even\nafter: .word after, .\nn = 60 + k\nk = 7\n', {"i7.mac": ".ascii /abcde/\n.even\n.word .\n"})
    one('insert_file "b" <60+n> ".bin"\n.even\nafter: .word after, .\nn = 3\n', {"b3.bin": bytes(range(9))})
    one('.link 2000\ninsert_file "b" <n> ".bin"\n.include "i" <n> ".mac"\n.even\nafter: .word after, .\nn = 63\n', {"b3.bin": bytes(range(5)), "i3.mac": ".byte 7\n.even\n.word .\n"})
    one('.include "t.mac"\n.byte 1\n.include "t.mac"\n.repeat 2 { .include "./t.mac"\n }\n.even\nafter: .word after, .\n', {"t.mac": ".even\n.word ., 125252\n.byte 5\n"})
    one("a, b\n1, 2, 3\n.even\nl: .word l\na = 1\nb = 2\n")
    one(".word\n.byte\n.even\n.dword\nl: .word l\n")
    one(".link 1000\n.word\n.byte\n.even\n.dword\nl: .word l\n")
    return S


def multi_include_cases(rng, n):
    """One file included several times (directly, inside .repeat, through another spelling of its path, from a second
    included file): every copy is compiled at its own address, so position-dependent content ('.word .', alignment
    fill) differs between the copies.  The included file defines no global label (that would be a duplicate)."""
    out = []
    def body():
        ls = []
        for _ in range(rng.randint(1, 6)):
            ls.append(rng.choice([".word .", ".word ., 125252", ".byte %d" % rng.randint(0, 255), ".even", ".align 4", ".blkb %d" % rng.randint(1, 3),
                                  ".word . + 2", "mov #., r0", ".byte 1\n.even", "1: br 1", ".ascii /ab/\n.even", ".word . - 2"]))
        if rng.random() < 0.5:
            ls.insert(0, ".even")
        return "\n".join(ls) + "\n"
    for i in range(n):
        fs = {"t.mac": body()}
        names = ["t.mac", "./t.mac"] if rng.random() < 0.5 else ["t.mac"]
        if rng.random() < 0.3:
            fs["u.mac"] = '.even\n.word .\n.include "t.mac"\n.byte 7\n.include "t.mac"\n'
            names.append("u.mac")
        main = []
        if rng.random() < 0.5:
            main.append(rng.choice([".link 4000", ". = 177000", ".link 1001", ".link 2000"]))
        for _ in range(rng.randint(2, 5)):
            inc = '.include "%s"' % rng.choice(names)
            k = rng.random()
            if k < 0.3:
                main.append(".repeat %d { %s\n }" % (rng.randint(2, 3), inc))
            else:
                main.append(inc)
            main.append(rng.choice([".byte 3", ".word 1", ".even", ".blkb 3", "nop", ".byte 1, 2, 3"]))
        main.append(".even\nlast: .word last, .")
        out.append(("multi-include", [("m.mac", "\n".join(main) + "\n")], fs, {}))
    return out


def probe_cases(rng, n):
    """Programs that are EXPECTED to be refused on a correct tree (word data at an odd address): they are run
    anyway, because a change that wrongly accepts them must still keep addresses and bytes in step.
    Origin 'probe': a failed assembly is fine, an accepted one is judged like any other."""
    out = []
    def one(src):
        out.append(("probe", [("p.mac", src)], {}, {}))
    one('.ascii "abc"\nfirst, second\n.byte 1, 2, 3\nfinal: .word final, first, second\nfirst = 1\nsecond = 2\n')
    one('.byte 1\n1, 2, 3\nl: .word l\n')
    one('.byte 1\n.word 5\nl: .word l\n')
    one('.byte 1\n.dword 5\nl: .word l\n')
    one('.byte 1\nmov #l, r0\nl: .word l\n')
    one('.link 1001\n1, 2\nl: .word l\n')
    prof = proggen.Profile(n_files=(1, 2), link="maybe", n_stmts=(4, 16))
    for i in range(n):
        p = proggen.gen_program(rng, prof)
        files = [(fn, "\n".join(l for l in t.split("\n") if l.strip() != ".even")) for fn, t in p.files]
        fs = {k: (v if not isinstance(v, str) else "\n".join(l for l in v.split("\n") if l.strip() != ".even")) for k, v in p.fs.items()}
        out.append(("probe", files, fs, {}))
    return out


def run_impl(cases):
    jobs = [((files,), {"fs": fs, "post": "c02_worker:post"}) for _, files, fs, _ in cases]
    return impl.pmap("assemble", jobs)


def block_term(b):
    recs = "; ".join("(%s, %s, %d, %s)" % ("true" if r["ready"] else "false",
                                           "None" if r["ann"] is None else "Some %s" % C.zlit(r["ann"]),
                                           r["n"], C.zlit(r["a"])) for r in b["recs"])
    return "(%s, [%s], %s)" % (C.zlit(b["start"]), recs, C.zlit(b["end"]))


def py_block_ok(b):
    a = b["start"]
    for r in b["recs"]:
        if r["a"] != a:
            return False, r
        if not r["ready"] and r["ann"] is not None and r["ann"] != r["n"]:
            return False, r
        a += r["n"]
    return (b["end"] == a), None


def explore(rep, br, tier, seed):
    rng = random.Random(seed)
    n = 320 if tier == "quick" else 6000
    cases = (special_cases() + gen_cases(rng, n) + multi_include_cases(rng, 40 if tier == "quick" else 600)
             + probe_cases(rng, 60 if tier == "quick" else 600))
    for path in CORPUS:
        with open(path, encoding="utf-8") as f:
            cases.append(("corpus", [(path, f.read())], None, {}))
    outs = run_impl(cases)
    block_terms, block_refs = [], []
    image_terms, image_refs = [], []
    tiling_terms, tiling_refs = [], []
    for ci, ((origin, files, fs, meta), o) in enumerate(zip(cases, outs)):
        rep.add_eval()
        rep.count(f"{origin}:{o['outcome']}")
        for k, v in (meta.get("kinds") or {}).items():
            rep.count("stmt:" + k, v)
        if o["outcome"] == "harness-error":
            rep.disagree("harness error while running the implementation", {"files": files}, impl=o.get("error"))
            continue
        if o["outcome"] != "ok":
            if origin not in ("gen", "probe", "multi-include"):
                rep.violate(f"not-ok:{origin}:{files[0][0]}", "a corpus/special program no longer assembles", {"files": files},
                            impl={k: o.get(k) for k in ("outcome", "crash", "diags")})
            continue
        post = o.get("post") or {}
        if "error" in post or post.get("anomalies"):
            rep.disagree("hook trace unusable", {"files": files}, impl=post.get("error") or post.get("anomalies"))
            continue
        rep.traces_validated += 1
        base, image = o["base"], bytes.fromhex(o["code"])
        chunks = []
        for bi, b in enumerate(post["blocks"]):
            if b["own_base"]:
                rep.count("block:excluded-D2-own-base")
                continue
            rep.count("block:" + ("top-level-file" if b["top"] else ("included-file" if b["context"] == "file" else "repeat-copy")))
            deferred = [r for r in b["recs"] if not r["ready"]]
            if deferred:
                rep.nontrivial(("blk", b["start"], tuple((r["ready"], r["ann"], r["n"]) for r in b["recs"])))
                for r in deferred:
                    rep.count("deferred:" + r["k"].split(":")[0] + (":sized" if r["ann"] is not None else ":unsized"))
            block_terms.append(block_term(b))
            block_refs.append((ci, bi))
            for r in b["recs"]:
                if r["n"]:
                    chunks.append((r["a"], r["bytes"], r["t"]))
            ok, bad = py_block_ok(b)
            if not ok:
                what = "address given to a statement differs from base + bytes before it (or announced size != produced size)"
                rep.violate("addr:" + (bad["k"] if bad else "block-end"), what,
                            {"files": files, "fs": {k: (v if isinstance(v, str) else v.hex()) for k, v in (fs or {}).items()}},
                            statement=bad, block={"start": b["start"], "end": b["end"], "file": b["file"], "context": b["context"]},
                            judged_by="python pre-check; Coq judge_block confirms below")
        # image placement
        total = sum(r["n"] for b in post["blocks"] if b["top"] for r in b["recs"])
        for a, hx, t in chunks:
            bs = bytes.fromhex(hx)
            if image[a - base:a - base + len(bs)] != bs or a - base < 0:
                rep.violate("placement:" + t.split()[0][:12], "the bytes found in the image at the address a statement was given are not the bytes it produced",
                            {"files": files, "fs": {k: (v if isinstance(v, str) else v.hex()) for k, v in (fs or {}).items()}}, statement=t, address=a, base=base)
                break
        # the value '.' evaluated to: a statement that stores '.' must hold the address it was given (model-free)
        for b in post["blocks"]:
            for r in b["recs"]:
                t = " ".join(r["t"].split()).lower()
                if t in (".word .", ".word ., 125252") and r["n"] >= 2:
                    rep.count("dot-probe")
                    got = int.from_bytes(bytes.fromhex(r["bytes"])[:2], "little")
                    if got != r["a"] % 65536:
                        rep.violate("dot-value", "'.word .' stored a value that is not the address the statement was given: '.' is not base + bytes before this point",
                                    {"files": files, "fs": {k: (v if isinstance(v, str) else v.hex()) for k, v in (fs or {}).items()}},
                                    statement=r["t"], address=r["a"], stored=got, block={"file": b["file"], "context": b["context"]})
                        break
        # tiling: leaf statements of all blocks cover the image exactly once
        PARENTS = ("insn:.repeat", "insn:repeat", "insn:.include", "insn:include")
        if not any(b["own_base"] for b in post["blocks"]):
            leaves = sorted((r["a"], r["n"]) for b in post["blocks"] for r in b["recs"] if r["n"] and r["k"] not in PARENTS)
            pos = base
            okt = True
            for a, nn in leaves:
                if a != pos:
                    okt = False
                    break
                pos += nn
            if okt and pos != base + len(image):
                okt = False
            tiling_terms.append("(%s, %d, [%s])" % (C.zlit(base), len(image), "; ".join("(%s, %d)" % (C.zlit(a), nn) for a, nn in leaves)))
            tiling_refs.append(ci)
            if not okt:
                rep.violate("tiling", "the statements' (address, size) ranges do not tile the image exactly once (overlap or gap): some statement was told an address where its bytes do not lie",
                            {"files": files, "fs": {k: (v if isinstance(v, str) else v.hex()) for k, v in (fs or {}).items()}}, first_bad_address=pos, base=base)
        else:
            rep.count("program:tiling-skipped-D2")
        if post["nfiles"] >= 1 and total != len(image) and not any(b["own_base"] for b in post["blocks"]):
            rep.violate("length", "image length differs from the sum of the top-level statement sizes", {"files": files}, total=total, image_len=len(image))
        if len(image) <= 3000 and chunks:
            image_terms.append("(%s, %s, [%s])" % (C.zlit(base), C.zlist(image), "; ".join("(%s, %s)" % (C.zlit(a), C.zlist(bytes.fromhex(h))) for a, h, _ in chunks)))
            image_refs.append(ci)
        if ci % 37 == 0 and post["blocks"]:
            b = post["blocks"][-1]
            rep.sample({"origin": origin, "block": {"start": b["start"], "end": b["end"], "context": b["context"],
                                                      "statements": [(r["t"], r["a"], r["ready"], r["ann"], r["n"]) for r in b["recs"][:8]]}})
    # Coq judgement
    codes = C.run_case_files(ID, "Run.C02Run Model.Block", "Open Scope Z_scope.", C.shard(block_terms, 400), judge_expr="map judge_block cases", cases_type="list obs_block")
    flat = [c for sh in codes for c in sh]
    for (ci, bi), code in zip(block_refs, flat):
        origin, files, fs, _ = cases[ci]
        if code & 1:
            rep.disagree("Model.Block.flat_block_addrs vs addresses observed through the hook", {"files": files, "block": bi})
        if code & 2:
            rep.violate(f"addr-coq:{origin}", "Coq judge_block: announced size != produced size, or an address is not start + bytes before",
                        {"files": files, "fs": {k: (v if isinstance(v, str) else v.hex()) for k, v in (fs or {}).items()}}, block=outs[ci]["post"]["blocks"][bi])
    wd = os.path.join(C.WORK, ID)
    for f in glob.glob(os.path.join(wd, "cases_*")):
        os.rename(f, f.replace("cases_", "blocks_"))
    codes = C.run_case_files(ID + "img", "Run.C02Run", "Open Scope Z_scope.", C.shard(image_terms, 60), judge_expr="map judge_image cases", cases_type="list (Z * list Z * list (Z * list Z))")
    flat = [c for sh in codes for c in sh]
    for ci, code in zip(image_refs, flat):
        if code & 2:
            origin, files, fs, _ = cases[ci]
            rep.violate(f"placement-coq:{origin}", "Coq judge_image: image slice at a statement's address differs from its bytes", {"files": files})
    codes = C.run_case_files(ID + "til", "Run.C02Run", "Open Scope Z_scope.", C.shard(tiling_terms, 100), judge_expr="map judge_tiling cases", cases_type="list (Z * Z * list (Z * Z))")
    flat = [c for sh in codes for c in sh]
    for ci, code in zip(tiling_refs, flat):
        if code & 2:
            origin, files, fs, _ = cases[ci]
            rep.violate(f"tiling-coq:{origin}", "Coq judge_tiling: statement ranges do not tile the image", {"files": files, "fs": {k: (v if isinstance(v, str) else v.hex()) for k, v in (fs or {}).items()}})
    rep.extra["tilings_judged_in_coq"] = len(tiling_terms)
    rep.extra["images_judged_in_coq"] = len(image_terms)
    rep.extra["blocks_judged_in_coq"] = len(block_terms)
    rep.notes.append("corpus images larger than 3000 bytes: placement re-checked in Python only (block addresses still judged in Coq)")


def replay(data):
    inp = data["input"]
    fs = {k: (bytes.fromhex(v) if k.endswith(".bin") else v) for k, v in (inp.get("fs") or {}).items()}
    o = impl.assemble([tuple(f) for f in inp["files"]], fs=fs or None, post="c02_worker:post")
    if o["outcome"] != "ok":
        print("outcome now:", o["outcome"], o.get("crash"))
        return False
    ok = True
    base, image = o["base"], bytes.fromhex(o["code"])
    for b in o["post"]["blocks"]:
        if b["own_base"]:
            continue
        good, bad = py_block_ok(b)
        if not good:
            print("block", b["file"], b["context"], "start", b["start"], "bad statement:", bad)
            ok = False
        for r in b["recs"]:
            bs = bytes.fromhex(r["bytes"])
            if bs and image[r["a"] - base:r["a"] - base + len(bs)] != bs:
                print("misplaced:", r["t"], "given", r["a"])
                ok = False
    return ok


# --- R, the end-to-end reference assembler (Model/Asm.v): Props/R.v composes C02 with C01, C05, C06 on whole programs;
# explore_r assembles generated programs and the practice corpus with the Coq model and compares with the implementation
import r_corr  # noqa: E402
PROP_FILES = PROP_FILES + ["Props/R.v", "Props/R_reloc.v"]  # R_reloc: byte-level relocation law on whole programs (C09 on R)
RUN_FILES = RUN_FILES + ["Run/RRun.v"]
_explore_without_r = explore


def explore(rep, br, tier, seed):
    _explore_without_r(rep, br, tier, seed)
    r_corr.explore_r(rep, tier, seed)


# --- PA: the text -> tree -> program -> bytes pipeline entirely in Gallina (Model/StmtParse.parse_file, Model/ParseAsm.to_asm,
# Model/Asm + AsmRel assemble), evaluated in coqc and compared with pdpy11's bytes and with tools/ast2coq.py's conversion
import pa_corr  # noqa: E402
RUN_FILES = RUN_FILES + ["Run/PARun.v"]
_explore_without_pa = explore


def explore(rep, br, tier, seed):
    _explore_without_pa(rep, br, tier, seed)
    pa_corr.explore_pa(rep, tier, seed)
