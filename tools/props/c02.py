"""C02 -- addresses the program sees equal where its bytes land (DESIGN 4 C02)."""
import glob
import os
import random
import common as C
import impl
import proggen

ID = "C02"
PROP_FILES = ["Props/C02.v"]
RUN_FILES = ["Run/C02Run.v"]
RULE = ("generated: grammar-G programs (tools/proggen.py; instructions, data, strings, reserved blocks, alignment, '. =' skips, "
        "nested .repeat, insert_file, .include, 1-3 linked files, forward-referenced sizes and counts, even/odd bases, with and "
        "without a leading .link) + the 21 practice-corpus programs; each is assembled by the real code with the PDPY11_VERIF hook; "
        "every compile_block invocation is one case: (start, per statement ready/announced/produced/address, end); judged in Coq: "
        "bit0 Model.Block recurrence = observed addresses, bit1 announced = produced and address = start + bytes before; image "
        "placement (bytes at addr-base = statement's bytes) judged in Coq for images <= 3000 bytes and re-checked in Python for all. "
        "non-trivial = distinct block containing >= 1 statement that was still deferred when its address was committed. "
        "loaded-image stream: programs that request output containers (make_bin, make_bk0010_rom, make_wav, make_turbo_wav, make_raw, with and "
        "without path / tape name, 1-3 requests at any position) at even AND odd link bases over the whole 16-bit range ('.link B', '. = B', "
        "'.link <expr>', default base; byte-only programs, and programs with word data behind .even; grammar-G programs with a request "
        "appended); the containers are produced by the real Compiler.emit_files (open_device replaced by an in-memory writer) and by "
        "file_formats[bin|raw](base, code) as the command line's -o does, read back by independent readers (bin header; BK tape pulse "
        "widths, normal and turbo) and judged against THE CONTAINER'S OWN load address: every statement's bytes must lie at (address it "
        "was given - load address) in the payload (Coq judge_image, and Python), label values stored byte-wise in the image must point at "
        "their marker bytes (model-free read-back), payload length = announced length = sum of sizes. non-trivial there = distinct "
        "(format, route, base, image)")
LEVEL_TEXT = ("Coq theorems over the running-address model of compile_block/.repeat/.include/linking: under 'announced size = final size' "
              "every statement at every nesting depth is told base + bytes-before, the image slice at that address is its bytes, image "
              "length = sum of sizes (induction over nested statement lists, unbounded); sensitivity theorem shows the hypothesis is "
              "what the invariant depends on. The hypothesis and the model are tied to the code by the hook-trace correspondence on "
              "generated programs and the practice corpus (every chunk of every run).")
LEVEL_NOTE = ("Trusted: Coq kernel + vm_compute; the 6-site PDPY11_VERIF hook in compiler.py; tools/c02_worker.py trace reader; proggen. "
              "The per-directive discharge of 'announced = final' is C06's announce_eq_emit (regenerated size lambdas) and C01's "
              "instruction length lemma; here it is checked on each real chunk. D2: blocks of an included file that sets its own "
              "link base are excluded (their addresses deliberately differ from where the bytes land). All theorems closed under "
              "the global context. Loaded-image stream: the container readers in tools/c02_worker.py (bin header, BK tape demodulator) are "
              "trusted Python written from the format descriptions, used only to recover (load address, length, payload); the well-formedness "
              "of the containers themselves (RIFF header, checksum, tape name, output path) is C13's and is not judged here; the -o route is "
              "exercised as the call _cli.py makes, not through a subprocess.")
TECHNIQUE = "Coq proof (induction over nested blocks) + hook-trace model/implementation correspondence"
ASSUME = ["the hook records exactly the (statement, address, chunk) triples compile_block uses", "CPython bytes/len semantics"]
TRUSTED = ["/repo hook commits (PDPY11_VERIF): compile_block records statement/address/chunk, block enter/exit, labels"]

CORPUS = sorted(glob.glob(os.path.join(C.REPO, "tests", "practice", "*", "code.mac")))


def profiles(rng):
    P = proggen.Profile
    return [
        P(n_files=(1, 3), link="maybe"),
        P(n_files=(1, 1), link="never", n_stmts=(6, 40)),
        P(n_files=(1, 2), link="always", n_stmts=(6, 30)),
        P(n_files=(2, 3), link="maybe", n_stmts=(3, 12)),
    ]


def gen_cases(rng, n):
    profs = profiles(rng)
    out = []
    for i in range(n):
        p = proggen.gen_program(rng, profs[i % len(profs)])
        out.append(("gen", p.files, p.fs, p.meta))
    return out


def special_cases():
    """hand-written shapes that stress announced-vs-produced sizes"""
    S = []
    def one(src, fs=None):
        S.append(("special", [("s.mac", src)], fs or {}, {}))
    one(".word a, b, c\n.byte a\n.even\nx: .word x\na = 1\nb = 2\nc = 3\n")
    one(".blkb n\nx: .word x\n.repeat n { .byte n\n.even\n }\ny: .word y\nn = 4\n")
    one(".byte 1\n.even\n.byte 2\n.odd\n  .byte 3\n.align 10\nz: .word z\n")
    one(".link 1001\n.even\na: .word a\n.byte 1\n.align 4\nb: .word b\n")
    one(".link 2000\n.blkb k\n. = . + 5\n.even\nq: .word q\nk = 3\n")
    one("mov #later, r0\nmov later(r1), @later+2(r2)\nlater: .word later\n")
    one(".repeat 3 { .repeat 2 { .byte 1\n.even\n.word . } }\ne: .word e\n")
    one(".dword big\n.word big2\nbig = 70000\nbig2 = 7\nt: .word t\n")
    one('.ascii "abc" <n> "d"\n.asciz /x/ <n>\n.rad50 /abcd/ <n>\n.even\nw: .word w\nn = 5\n')
    one('.include "i.mac"\nafter: .word after\n', {"i.mac": ".blkb m\n.even\nil: .word il\nm = 3\n"})
    one('insert_file "b.bin"\n.even\nafter: .word after\n', {"b.bin": bytes(range(7))})
    # a skip target written as a negative / wrapped value: the addresses after it are still base + bytes before
    one(".link 1000\nnop\n. = -176730\nl: .word l, .\nm: .word m\n")
    one("nop\n. = -176730\nl: .word l, .\n.byte 1\n.even\nm: .word m\n")
    one(".link 1000\n.blkb n\n. = -176700\nl: .word l, .\nn = 3\n")
    # a path that is only known after a later definition: the statement stays deferred, its size must still count
    one('.include "i" <n> ".mac"\nafter: .word after, .\nn = 67\n', {"i7.mac": ".byte 1,2,3,4\n"})
    one('.byte 1\n.even\n.include "i" <n> ".mac"\n.even\nafter: .word after, .\nn = 60 + k\nk = 7\n', {"i7.mac": ".ascii /abcde/\n.even\n.word .\n"})
    one('insert_file "b" <60+n> ".bin"\n.even\nafter: .word after, .\nn = 3\n', {"b3.bin": bytes(range(9))})
    one('.link 2000\ninsert_file "b" <n> ".bin"\n.include "i" <n> ".mac"\n.even\nafter: .word after, .\nn = 63\n', {"b3.bin": bytes(range(5)), "i3.mac": ".byte 7\n.even\n.word .\n"})
    one('.include "t.mac"\n.byte 1\n.include "t.mac"\n.repeat 2 { .include "./t.mac"\n }\n.even\nafter: .word after, .\n', {"t.mac": ".even\n.word ., 125252\n.byte 5\n"})
    one("a, b\n1, 2, 3\n.even\nl: .word l\na = 1\nb = 2\n")
    one(".word\n.byte\n.even\n.dword\nl: .word l\n")
    one(".link 1000\n.word\n.byte\n.even\n.dword\nl: .word l\n")
    return S


def multi_include_cases(rng, n):
    """One file included several times (directly, inside .repeat, through another spelling of its path, from a second
    included file): every copy is compiled at its own address, so position-dependent content ('.word .', alignment
    fill) differs between the copies.  The included file defines no global label (that would be a duplicate)."""
    out = []
    def body():
        ls = []
        for _ in range(rng.randint(1, 6)):
            ls.append(rng.choice([".word .", ".word ., 125252", ".byte %d" % rng.randint(0, 255), ".even", ".align 4", ".blkb %d" % rng.randint(1, 3),
                                  ".word . + 2", "mov #., r0", ".byte 1\n.even", "1: br 1", ".ascii /ab/\n.even", ".word . - 2"]))
        if rng.random() < 0.5:
            ls.insert(0, ".even")
        return "\n".join(ls) + "\n"
    for i in range(n):
        fs = {"t.mac": body()}
        names = ["t.mac", "./t.mac"] if rng.random() < 0.5 else ["t.mac"]
        if rng.random() < 0.3:
            fs["u.mac"] = '.even\n.word .\n.include "t.mac"\n.byte 7\n.include "t.mac"\n'
            names.append("u.mac")
        main = []
        if rng.random() < 0.5:
            main.append(rng.choice([".link 4000", ". = 177000", ".link 1001", ".link 2000"]))
        for _ in range(rng.randint(2, 5)):
            inc = '.include "%s"' % rng.choice(names)
            k = rng.random()
            if k < 0.3:
                main.append(".repeat %d { %s\n }" % (rng.randint(2, 3), inc))
            else:
                main.append(inc)
            main.append(rng.choice([".byte 3", ".word 1", ".even", ".blkb 3", "nop", ".byte 1, 2, 3"]))
        main.append(".even\nlast: .word last, .")
        out.append(("multi-include", [("m.mac", "\n".join(main) + "\n")], fs, {}))
    return out


def probe_cases(rng, n):
    """Programs that are EXPECTED to be refused on a correct tree (word data at an odd address): they are run
    anyway, because a change that wrongly accepts them must still keep addresses and bytes in step.
    Origin 'probe': a failed assembly is fine, an accepted one is judged like any other."""
    out = []
    def one(src):
        out.append(("probe", [("p.mac", src)], {}, {}))
    one('.ascii "abc"\nfirst, second\n.byte 1, 2, 3\nfinal: .word final, first, second\nfirst = 1\nsecond = 2\n')
    one('.byte 1\n1, 2, 3\nl: .word l\n')
    one('.byte 1\n.word 5\nl: .word l\n')
    one('.byte 1\n.dword 5\nl: .word l\n')
    one('.byte 1\nmov #l, r0\nl: .word l\n')
    one('.link 1001\n1, 2\nl: .word l\n')
    prof = proggen.Profile(n_files=(1, 2), link="maybe", n_stmts=(4, 16))
    for i in range(n):
        p = proggen.gen_program(rng, prof)
        files = [(fn, "\n".join(l for l in t.split("\n") if l.strip() != ".even")) for fn, t in p.files]
        fs = {k: (v if not isinstance(v, str) else "\n".join(l for l in v.split("\n") if l.strip() != ".even")) for k, v in p.fs.items()}
        out.append(("probe", files, fs, {}))
    return out


def run_impl(cases):
    jobs = [((files,), {"fs": fs, "post": "c02_worker:post"}) for _, files, fs, _ in cases]
    return impl.pmap("assemble", jobs)


def block_term(b):
    recs = "; ".join("(%s, %s, %d, %s)" % ("true" if r["ready"] else "false",
                                           "None" if r["ann"] is None else "Some %s" % C.zlit(r["ann"]),
                                           r["n"], C.zlit(r["a"])) for r in b["recs"])
    return "(%s, [%s], %s)" % (C.zlit(b["start"]), recs, C.zlit(b["end"]))


def py_block_ok(b):
    a = b["start"]
    for r in b["recs"]:
        if r["a"] != a:
            return False, r
        if not r["ready"] and r["ann"] is not None and r["ann"] != r["n"]:
            return False, r
        a += r["n"]
    return (b["end"] == a), None


def explore(rep, br, tier, seed):
    rng = random.Random(seed)
    n = 320 if tier == "quick" else 6000
    cases = (special_cases() + gen_cases(rng, n) + multi_include_cases(rng, 40 if tier == "quick" else 600)
             + probe_cases(rng, 60 if tier == "quick" else 600))
    for path in CORPUS:
        with open(path, encoding="utf-8") as f:
            cases.append(("corpus", [(path, f.read())], None, {}))
    outs = run_impl(cases)
    block_terms, block_refs = [], []
    image_terms, image_refs = [], []
    tiling_terms, tiling_refs = [], []
    for ci, ((origin, files, fs, meta), o) in enumerate(zip(cases, outs)):
        rep.add_eval()
        rep.count(f"{origin}:{o['outcome']}")
        for k, v in (meta.get("kinds") or {}).items():
            rep.count("stmt:" + k, v)
        if o["outcome"] == "harness-error":
            rep.disagree("harness error while running the implementation", {"files": files}, impl=o.get("error"))
            continue
        if o["outcome"] != "ok":
            if origin not in ("gen", "probe", "multi-include"):
                rep.violate(f"not-ok:{origin}:{files[0][0]}", "a corpus/special program no longer assembles", {"files": files},
                            impl={k: o.get(k) for k in ("outcome", "crash", "diags")})
            continue
        post = o.get("post") or {}
        if "error" in post or post.get("anomalies"):
            rep.disagree("hook trace unusable", {"files": files}, impl=post.get("error") or post.get("anomalies"))
            continue
        rep.traces_validated += 1
        base, image = o["base"], bytes.fromhex(o["code"])
        chunks = []
        for bi, b in enumerate(post["blocks"]):
            if b["own_base"]:
                rep.count("block:excluded-D2-own-base")
                continue
            rep.count("block:" + ("top-level-file" if b["top"] else ("included-file" if b["context"] == "file" else "repeat-copy")))
            deferred = [r for r in b["recs"] if not r["ready"]]
            if deferred:
                rep.nontrivial(("blk", b["start"], tuple((r["ready"], r["ann"], r["n"]) for r in b["recs"])))
                for r in deferred:
                    rep.count("deferred:" + r["k"].split(":")[0] + (":sized" if r["ann"] is not None else ":unsized"))
            block_terms.append(block_term(b))
            block_refs.append((ci, bi))
            for r in b["recs"]:
                if r["n"]:
                    chunks.append((r["a"], r["bytes"], r["t"]))
            ok, bad = py_block_ok(b)
            if not ok:
                what = "address given to a statement differs from base + bytes before it (or announced size != produced size)"
                rep.violate("addr:" + (bad["k"] if bad else "block-end"), what,
                            {"files": files, "fs": {k: (v if isinstance(v, str) else v.hex()) for k, v in (fs or {}).items()}},
                            statement=bad, block={"start": b["start"], "end": b["end"], "file": b["file"], "context": b["context"]},
                            judged_by="python pre-check; Coq judge_block confirms below")
        # image placement
        total = sum(r["n"] for b in post["blocks"] if b["top"] for r in b["recs"])
        for a, hx, t in chunks:
            bs = bytes.fromhex(hx)
            if image[a - base:a - base + len(bs)] != bs or a - base < 0:
                rep.violate("placement:" + t.split()[0][:12], "the bytes found in the image at the address a statement was given are not the bytes it produced",
                            {"files": files, "fs": {k: (v if isinstance(v, str) else v.hex()) for k, v in (fs or {}).items()}}, statement=t, address=a, base=base)
                break
        # the value '.' evaluated to: a statement that stores '.' must hold the address it was given (model-free)
        for b in post["blocks"]:
            for r in b["recs"]:
                t = " ".join(r["t"].split()).lower()
                if t in (".word .", ".word ., 125252") and r["n"] >= 2:
                    rep.count("dot-probe")
                    got = int.from_bytes(bytes.fromhex(r["bytes"])[:2], "little")
                    if got != r["a"] % 65536:
                        rep.violate("dot-value", "'.word .' stored a value that is not the address the statement was given: '.' is not base + bytes before this point",
                                    {"files": files, "fs": {k: (v if isinstance(v, str) else v.hex()) for k, v in (fs or {}).items()}},
                                    statement=r["t"], address=r["a"], stored=got, block={"file": b["file"], "context": b["context"]})
                        break
        # tiling: leaf statements of all blocks cover the image exactly once
        PARENTS = ("insn:.repeat", "insn:repeat", "insn:.include", "insn:include")
        if not any(b["own_base"] for b in post["blocks"]):
            leaves = sorted((r["a"], r["n"]) for b in post["blocks"] for r in b["recs"] if r["n"] and r["k"] not in PARENTS)
            pos = base
            okt = True
            for a, nn in leaves:
                if a != pos:
                    okt = False
                    break
                pos += nn
            if okt and pos != base + len(image):
                okt = False
            tiling_terms.append("(%s, %d, [%s])" % (C.zlit(base), len(image), "; ".join("(%s, %d)" % (C.zlit(a), nn) for a, nn in leaves)))
            tiling_refs.append(ci)
            if not okt:
                rep.violate("tiling", "the statements' (address, size) ranges do not tile the image exactly once (overlap or gap): some statement was told an address where its bytes do not lie",
                            {"files": files, "fs": {k: (v if isinstance(v, str) else v.hex()) for k, v in (fs or {}).items()}}, first_bad_address=pos, base=base)
        else:
            rep.count("program:tiling-skipped-D2")
        if post["nfiles"] >= 1 and total != len(image) and not any(b["own_base"] for b in post["blocks"]):
            rep.violate("length", "image length differs from the sum of the top-level statement sizes", {"files": files}, total=total, image_len=len(image))
        if len(image) <= 3000 and chunks:
            image_terms.append("(%s, %s, [%s])" % (C.zlit(base), C.zlist(image), "; ".join("(%s, %s)" % (C.zlit(a), C.zlist(bytes.fromhex(h))) for a, h, _ in chunks)))
            image_refs.append(ci)
        if ci % 37 == 0 and post["blocks"]:
            b = post["blocks"][-1]
            rep.sample({"origin": origin, "block": {"start": b["start"], "end": b["end"], "context": b["context"],
                                                      "statements": [(r["t"], r["a"], r["ready"], r["ann"], r["n"]) for r in b["recs"][:8]]}})
    # Coq judgement
    codes = C.run_case_files(ID, "Run.C02Run Model.Block", "Open Scope Z_scope.", C.shard(block_terms, 400), judge_expr="map judge_block cases", cases_type="list obs_block")
    flat = [c for sh in codes for c in sh]
    for (ci, bi), code in zip(block_refs, flat):
        origin, files, fs, _ = cases[ci]
        if code & 1:
            rep.disagree("Model.Block.flat_block_addrs vs addresses observed through the hook", {"files": files, "block": bi})
        if code & 2:
            rep.violate(f"addr-coq:{origin}", "Coq judge_block: announced size != produced size, or an address is not start + bytes before",
                        {"files": files, "fs": {k: (v if isinstance(v, str) else v.hex()) for k, v in (fs or {}).items()}}, block=outs[ci]["post"]["blocks"][bi])
    wd = os.path.join(C.WORK, ID)
    for f in glob.glob(os.path.join(wd, "cases_*")):
        os.rename(f, f.replace("cases_", "blocks_"))
    codes = C.run_case_files(ID + "img", "Run.C02Run", "Open Scope Z_scope.", C.shard(image_terms, 60), judge_expr="map judge_image cases", cases_type="list (Z * list Z * list (Z * list Z))")
    flat = [c for sh in codes for c in sh]
    for ci, code in zip(image_refs, flat):
        if code & 2:
            origin, files, fs, _ = cases[ci]
            rep.violate(f"placement-coq:{origin}", "Coq judge_image: image slice at a statement's address differs from its bytes", {"files": files})
    codes = C.run_case_files(ID + "til", "Run.C02Run", "Open Scope Z_scope.", C.shard(tiling_terms, 100), judge_expr="map judge_tiling cases", cases_type="list (Z * Z * list (Z * Z))")
    flat = [c for sh in codes for c in sh]
    for ci, code in zip(tiling_refs, flat):
        if code & 2:
            origin, files, fs, _ = cases[ci]
            rep.violate(f"tiling-coq:{origin}", "Coq judge_tiling: statement ranges do not tile the image", {"files": files, "fs": {k: (v if isinstance(v, str) else v.hex()) for k, v in (fs or {}).items()}})
    rep.extra["tilings_judged_in_coq"] = len(tiling_terms)
    rep.extra["images_judged_in_coq"] = len(image_terms)
    rep.extra["blocks_judged_in_coq"] = len(block_terms)
    rep.notes.append("corpus images larger than 3000 bytes: placement re-checked in Python only (block addresses still judged in Coq)")


def replay(data):
    inp = data["input"]
    fs = {k: (bytes.fromhex(v) if k.endswith(".bin") else v) for k, v in (inp.get("fs") or {}).items()}
    o = impl.assemble([tuple(f) for f in inp["files"]], fs=fs or None, post="c02_worker:post_emit")
    if o["outcome"] != "ok":
        print("outcome now:", o["outcome"], o.get("crash"))
        return False
    ok = True
    base, image = o["base"], bytes.fromhex(o["code"])
    for c in o["post"].get("containers", []):
        if "refused" in c or "err" in c or any(b["own_base"] for b in o["post"]["blocks"]):
            continue
        load, payload = (base if c["load"] is None else c["load"]), bytes.fromhex(c["payload"])
        for b in o["post"]["blocks"]:
            for r in b["recs"]:
                bs = bytes.fromhex(r["bytes"])
                if bs and (r["a"] < load or payload[r["a"] - load:r["a"] - load + len(bs)] != bs):
                    print("container %s (%s) loaded from %#o: statement %r given %#o is not there" % (c["fmt"], c["via"], load, r["t"], r["a"]))
                    ok = False
                    break
        if c["length"] != len(payload) or len(payload) != len(image):
            print("container %s (%s): announced %d, carries %d, image %d" % (c["fmt"], c["via"], c["length"], len(payload), len(image)))
            ok = False
    for b in o["post"]["blocks"]:
        if b["own_base"]:
            continue
        good, bad = py_block_ok(b)
        if not good:
            print("block", b["file"], b["context"], "start", b["start"], "bad statement:", bad)
            ok = False
        for r in b["recs"]:
            bs = bytes.fromhex(r["bytes"])
            if bs and image[r["a"] - base:r["a"] - base + len(bs)] != bs:
                print("misplaced:", r["t"], "given", r["a"])
                ok = False
    return ok


# --- loaded image: the containers the program asks for (make_bin, make_bk0010_rom, make_wav, make_turbo_wav, make_raw) and the
# ones the command line builds (-o x.bin / x.raw) say where the bytes are loaded; the addresses the statements were given
# must be addresses of THAT image, for every link base, even or odd
ODD_BASES = [1, 3, 0o777, 0o1001, 0o1003, 0o2001, 0o40001, 0o40003, 0o77777, 0o100001, 0o157775, 0o177001]
EVEN_BASES = [0, 2, 0o1000, 0o2000, 0o40000, 0o100000, 0o157776, 0o177000]
EMITTERS = ['make_bin "o%d.bin"', "make_bin", 'make_bk0010_rom "r%d.bin"', 'make_wav "w%d.wav"', 'make_wav "w%d.wav", "TAPE%d"',
            'make_turbo_wav "t%d.wav"', 'make_turbo_wav "t%d.wav", "T%d"', 'make_raw "x%d.raw"', "make_wav", "make_turbo_wav"]


def emit_cases(rng, n):
    """Programs that request output containers.  Half are byte-only (no word-sized statement, no alignment: every address
    keeps the parity of the base, so an odd base stays legal), half mix in word data and instructions behind .even.  The
    first statement is a table of label values stored byte-wise, each label marks two marker bytes (252, k): the values
    can be read back from the loaded image without the hook.  Bases: explicit '.link B' / '. = B' / '.link <expr>' / none,
    B even and odd over the whole 16-bit range; 1-3 output requests per program at any position."""
    out = []
    for i in range(n):
        odd = i % 3 != 2
        byte_only = rng.random() < 0.5
        form = rng.choice(["link", "link", "dot", "expr", "none"])
        if rng.random() < 0.25:
            base = rng.randrange(0, 0o177000) | (1 if odd else 0)
            base -= 0 if odd else base % 2
        else:
            base = rng.choice(ODD_BASES if odd else EVEN_BASES)
        if form == "none":
            base, head = 0o1000, []
        elif form == "link":
            head = [".link %o" % base]
        elif form == "dot":
            head = [". = %o" % base]
        else:
            head = [".link %o + %o" % (base - base % 8, base % 8)]
        nl = rng.randint(1, 4)
        labels = ["L%d" % k for k in range(nl)]
        body = ["tab: .byte " + ", ".join("<%s & 377>, <%s / 400>" % (l, l) for l in labels)]
        fs = {}
        fwd = []
        todo = list(labels)
        nst = rng.randint(nl + 2, nl + 12)
        for j in range(nst):
            if todo and (rng.random() < 0.35 or nst - j <= len(todo)):
                l = todo.pop(0)
                body.append("%s: .byte 252, %d" % (l, labels.index(l) + 1))
                continue
            c = rng.random()
            if c < 0.2:
                body.append(".byte " + ", ".join("%o" % rng.randint(0, 251) for _ in range(rng.randint(1, 5))))
            elif c < 0.32:
                body.append(rng.choice(['.ascii "%s"', ".asciz /%s/", ".ascii /%s/ <15>"]) % "".join(rng.choice("abcXYZ 019") for _ in range(rng.randint(1, 7))))
            elif c < 0.42:
                body.append(".blkb %o" % rng.randint(1, 9))
            elif c < 0.5:
                name = "n%d" % len(fwd)
                fwd.append("%s = %d" % (name, rng.randint(1, 5)))
                body.append(rng.choice([".blkb %s", ".repeat %s { .byte 7 }"]) % name)
            elif c < 0.6:
                body.append(".repeat %d { .byte %o\n .ascii /q/ }" % (rng.randint(1, 4), rng.randint(0, 200)))
            elif c < 0.68:
                fn = "b%d.bin" % len(fs)
                fs[fn] = bytes(rng.randint(0, 251) for _ in range(rng.randint(1, 9)))
                body.append('insert_file "%s"' % fn)
            elif c < 0.74 and form != "none":
                body.append(". = . + %d" % rng.randint(0, 5))
            elif c < 0.8:
                body.append(".byte . & 377")
            elif byte_only:
                body.append(".byte %o" % rng.randint(0, 251))
            else:
                body.append(".even\n" + rng.choice([".word ., 125252", ".word %s" % rng.choice(labels), "mov #%s, r0" % rng.choice(labels), "nop",
                                                    ".align 4", ".dword 1", "%d: br %d" % (j + 1, j + 1), "%o, %o" % (rng.randint(0, 9), rng.randint(0, 9))]))
        for l in todo:
            body.append("%s: .byte 252, %d" % (l, labels.index(l) + 1))
        for k in range(rng.randint(1, 3)):
            e = rng.choice(EMITTERS)
            e = e % ((i,) * e.count("%d"))
            body.insert(rng.randint(0, len(body)), e)
        out.append(("emit", [("e.mac", "\n".join(head + body + fwd) + "\n")], fs, {"base": base, "labels": labels, "byte_only": byte_only, "form": form}))
    # grammar-G programs (always with an explicit base, 1-2 files) that also request containers
    prof = proggen.Profile(n_files=(1, 2), link="always", n_stmts=(4, 20))
    for i in range(n // 4):
        p = proggen.gen_program(rng, prof)
        files = list(p.files)
        e = rng.choice(EMITTERS)
        files[-1] = (files[-1][0], files[-1][1].rstrip("\n") + "\n" + e % ((i,) * e.count("%d")) + "\n")
        out.append(("emit-gen", files, p.fs, {"labels": []}))
    return out


def explore_emit(rep, tier, seed):
    rng = random.Random(seed * 7 + 2)
    cases = emit_cases(rng, 150 if tier == "quick" else 2000)
    jobs = [((files,), {"fs": fs, "post": "c02_worker:post_emit"}) for _, files, fs, _ in cases]
    outs = impl.pmap("assemble", jobs)
    terms, refs = [], []
    for ci, ((origin, files, fs, meta), o) in enumerate(zip(cases, outs)):
        rep.add_eval()
        rep.count(f"{origin}:{o['outcome']}")
        inp = {"files": files, "fs": {k: (v if isinstance(v, str) else v.hex()) for k, v in (fs or {}).items()}}
        if o["outcome"] == "harness-error":
            rep.disagree("harness error while running the implementation", {"files": files}, impl=o.get("error"))
            continue
        if o["outcome"] != "ok":
            if origin == "emit":
                rep.violate(f"not-ok:emit:{meta['form']}:{'odd' if meta['base'] % 2 else 'even'}:{'bytes' if meta['byte_only'] else 'mixed'}",
                            "a well-formed program (word-sized statements only behind .even) was refused", inp,
                            impl={k: o.get(k) for k in ("outcome", "crash", "diags")})
            continue
        post = o.get("post") or {}
        if "error" in post or post.get("anomalies"):
            rep.disagree("hook trace unusable", {"files": files}, impl=post.get("error") or post.get("anomalies"))
            continue
        if any(b["own_base"] for b in post["blocks"]):
            rep.count("program:emit-skipped-D2")
            continue
        base, image = o["base"], bytes.fromhex(o["code"])
        if origin == "emit" and base != meta["base"]:
            rep.violate("emit-base", "the link base is not the one the program set", inp, expected=meta["base"], got=base)
        if post["requested"] != post["written"]:
            rep.disagree("a requested container was not written", inp, impl={"requested": post["requested"], "written": post["written"]})
        chunks = [(r["a"], r["bytes"], r["t"]) for b in post["blocks"] for r in b["recs"] if r["n"]]
        for b in post["blocks"]:
            ok, bad = py_block_ok(b)
            if not ok:
                rep.violate("addr:" + (bad["k"] if bad else "block-end"), "address given to a statement differs from base + bytes before it", inp, statement=bad)
        for c in post["containers"]:
            if "refused" in c:
                rep.count("container:refused:" + c["fmt"])
                continue
            key = "%s:%s:%s" % (c["fmt"], c["via"], "odd" if base % 2 else "even")
            rep.count("container:" + key)
            if "err" in c:
                rep.disagree("container not readable by the C02 reader (its format is C13's)", inp, impl=c)
                continue
            load = base if c["load"] is None else c["load"]   # raw carries no address: the bytes start at the link base
            payload = bytes.fromhex(c["payload"])
            rep.nontrivial(("emit", c["fmt"], c["via"], base, o["code"]))
            what = None
            for a, hx, t in chunks:
                bs = bytes.fromhex(hx)
                if a - load < 0 or payload[a - load:a - load + len(bs)] != bs:
                    what = ("placement", "the container says its bytes are loaded from %#o, but the bytes found there at the address %#o a statement was given "
                            "are not the bytes that statement produced" % (load, a), {"statement": t, "address": a})
                    break
            if what is None and origin == "emit":
                # model-free: label values read back from the loaded image must point at the labels' marker bytes
                for k, l in enumerate(meta["labels"]):
                    v = payload[2 * k] | (payload[2 * k + 1] << 8)
                    if payload[v - load:v - load + 2] != bytes([0o252, k + 1]) or v < load:
                        what = ("label-readback", "label value %#o stored in the image does not point (image loaded from %#o) at the bytes of the labelled statement"
                                % (v, load), {"label": l, "value": v})
                        break
            if what is None and (c["length"] != len(payload) or len(payload) != len(image)):
                what = ("length", "container length differs from the sum of the statement sizes", {"announced": c["length"], "carried": len(payload), "image": len(image)})
            if what is not None:
                rep.violate("loaded-image:%s:%s:%s" % (what[0], c["fmt"], "odd-base" if base % 2 else "even-base"), what[1], inp,
                            container={k: c[k] for k in ("fmt", "via", "path", "load", "length")}, link_base=base, **what[2])
            if len(payload) <= 3000 and chunks:
                terms.append("(%s, %s, [%s])" % (C.zlit(load), C.zlist(payload), "; ".join("(%s, %s)" % (C.zlit(a), C.zlist(bytes.fromhex(h))) for a, h, _ in chunks)))
                refs.append((ci, c))
    codes = C.run_case_files(ID + "emit", "Run.C02Run", "Open Scope Z_scope.", C.shard(terms, 80), judge_expr="map judge_image cases", cases_type="list (Z * list Z * list (Z * list Z))")
    flat = [c for sh in codes for c in sh]
    for (ci, c), code in zip(refs, flat):
        if code & 2:
            origin, files, fs, _ = cases[ci]
            rep.violate("loaded-image-coq:%s:%s" % (c["fmt"], "odd-base" if outs[ci]["base"] % 2 else "even-base"),
                        "Coq judge_image: the slice of the container's payload at (statement address - container load address) differs from the statement's bytes",
                        {"files": files, "fs": {k: (v if isinstance(v, str) else v.hex()) for k, v in (fs or {}).items()}},
                        container={k: c[k] for k in ("fmt", "via", "path", "load", "length")}, link_base=outs[ci]["base"])
    rep.extra["containers_judged_in_coq"] = len(terms)


_explore_core = explore


def explore(rep, br, tier, seed):
    _explore_core(rep, br, tier, seed)
    explore_emit(rep, tier, seed)


# --- R, the end-to-end reference assembler (Model/Asm.v): Props/R.v composes C02 with C01, C05, C06 on whole programs;
# explore_r assembles generated programs and the practice corpus with the Coq model and compares with the implementation
import r_corr  # noqa: E402
PROP_FILES = PROP_FILES + ["Props/R.v", "Props/R_reloc.v"]  # R_reloc: byte-level relocation law on whole programs (C09 on R)
RUN_FILES = RUN_FILES + ["Run/RRun.v"]
_explore_without_r = explore


def explore(rep, br, tier, seed):
    _explore_without_r(rep, br, tier, seed)
    r_corr.explore_r(rep, tier, seed)


# --- PA: the text -> tree -> program -> bytes pipeline entirely in Gallina (Model/StmtParse.parse_file, Model/ParseAsm.to_asm,
# Model/Asm + AsmRel assemble), evaluated in coqc and compared with pdpy11's bytes and with tools/ast2coq.py's conversion
import pa_corr  # noqa: E402
RUN_FILES = RUN_FILES + ["Run/PARun.v"]
_explore_without_pa = explore


def explore(rep, br, tier, seed):
    _explore_without_pa(rep, br, tier, seed)
    pa_corr.explore_pa(rep, tier, seed)

# session-7 addition to the claimed level (MANIFEST text only)
LEVEL_TEXT = LEVEL_TEXT + " " + 'Whole-program additions: Props/R_reloc.v (R_relocation_bytes: byte-level relocation law on the reference assembler) is an obligation of this check; a loaded-image stream judges statement placement against the load address the written bin / BK-wav containers state, at odd and even bases.'
