"""C13 -- output containers carry exactly the image (DESIGN 4 C13)."""
import concurrent.futures
import hashlib
import os
import pathlib
import random
import shutil
import signal
import struct
import subprocess
import sys
import time

import common as C
import impl

ID = "C13"
PROP_FILES = ["Props/C13.v", "Props/R_container.v", "Props/R_bytes.v"]  # R_container: C13 on the image of the reference assembler
RUN_FILES = ["Run/C13Run.v", "Run/C13Oracle.v"]
RULE = ("file_formats[bin|raw|bk_wav|bk_turbo_wav] of the real code on: an image of every length 0-300 (all four containers), "
        "images summing to k*65535, k*65536 and neighbours (257 x 0xFF ...), seeded random images up to 4096 bytes, bases 0, 0o1000, "
        "0o177776, 0o177777 and out-of-range values, tape names of 0-20 bytes; the returned bytes are compared with the Coq model "
        "(byte for byte, or by a (length, sum, sum of prefix sums, sum of those) for large outputs) and decoded by the Spec readers "
        "(parse_bin / parse_wav + demod + cksum_spec) inside coqc.  Paths: os.path/resolve_relative_path on generated path strings, "
        "every make_xxx directive x path form x tape-name form x source-name form through the assembler (Compiler.emitted_files), "
        "make_xxx inside `.include`d files (depth 1-2, sub-directories, relative/absolute/non-normal operands) x working directory "
        "{source dir, parent, sibling, scratch root}, sources with 2-4 make_xxx directives (several of the same container with different paths and explicit/inferred tape names, "
        "mixed containers, the same path twice, together with -o), "
        "tape names under every output charset of {bk, koi8-r, cp1251, cp866, utf-8, utf-16-le, utf-16 (BOM), latin-1, ascii} (Compiler(output_charset=...)): names over ASCII, "
        "Russian, Latin-1, 3-byte and astral (4-byte) alphabets and their mixtures built to ENCODE to 2..32 bytes with every length around 16 (15, 16, 17, 18) "
        "and names of 15/16/17 CHARACTERS, given explicitly or inferred from a path (.wav/.WAV/no extension, behind directories) or from the source name; "
        "the expectation (encoded name space-padded to 16 bytes; more than 16 BYTES = too-long-string; not encodable = invalid-character; nothing else) is judged "
        "in coqc (Run.C13Oracle.prop_otcase) on the name encoded by CPython's own codec, and the same names through `python -m pdpy11 --charset <cs>` with the WAV files demodulated, "
        "and real `python -m pdpy11` runs in scratch directories for every output selector and the full cross product "
        "{-o bin/raw/other/stdout, none; last components '-', '-.ext', '-x', 'x-', '.bin', dotted, upper-case behind no / ./ / sub/ / absolute directory part} x {--implicit-bin} x {no / one / several make_xxx} x {--lst} (files found = files expected and nothing else, "
        "contents decoded by the Spec readers).  non-trivial = distinct (container, base, image, name) with a non-empty image, "
        "distinct path triple, distinct directive case, distinct (directive, name source, name, charset) whose encoded length differs from its character count, distinct CLI scenario")
LEVEL_TEXT = ("Coq theorems over tables regenerated from bk_wav.py/formats.py on every run: raw identity, bin layout incl. struct.error "
              "partiality, RIFF well-formedness for every image, checksum = end-around-carry fold for every byte list, bit-level "
              "structure of encode_data_bits, demodulator round trip for every image of every length (normal and turbo), tape-name "
              "padding (pad_name over the ENCODED bytes of the name), default-path derivation.  Paths actually written are tied by CLI correspondence; "
              "the encoding of a name under --charset is CPython's codec and is tied by correspondence only (tape-name stream).")
LEVEL_NOTE = ("Trusted: Coq kernel + vm_compute, tools/gens/gen_bkwav.py, the harness, Spec/Riff.v Spec/BkTape.v Spec/BinFile.v, CPython "
              "struct/os.path/codecs (str.encode of the output charset states the expected tape-name bytes; pdpy11's own 'bk' charset is "
              "restated as KOI8-R on ASCII + Russian letters, C14). Print Assumptions: closed under the global context for every theorem.")
TECHNIQUE = "Coq proof over regenerated envelopes + model/implementation correspondence + Spec readers on real output files"
ASSUME = ["Python's bytes, struct.pack, os.path (posixpath) and open() behave as documented",
          "Spec/BkTape.v states the BK-0010 tape rules (pulse classes relative to the pilot, >=512 pilot periods, marker, LSB first); "
          "the turbo format is judged by high-run widths only",
          "file names and tape names in the path, directive and CLI path cases are printable ASCII (str.lower / bk charset identity on ASCII, C14); "
          "non-ASCII tape names are covered by the tape-name stream over the fixed alphabets and 9 charsets, where CPython's codecs define the encoding",
          "hash-compared large outputs: equal (length, sum, sum of prefix sums, sum of those) is taken as equal bytes"]
TRUSTED = ["tools/gens/gen_bkwav.py (translator plug-in)", "Run/C13Oracle.v expand_rep/hash glue and tools/props/c13.py compress/pyhash",
           "pathlib/os.path.realpath used to state where a file is expected"]

SCRATCH = "/tmp/c13"
OPENS = "Open Scope string_scope.\nOpen Scope list_scope.\nOpen Scope Z_scope."
KINDS = {"bin": "KBin", "raw": "KRaw", "bk_wav": "KWav", "bk_turbo_wav": "KTurbo"}
DIRS = {"make_bin": "DBin", "make_bk0010_rom": "DRom", "make_raw": "DRaw", "make_wav": "DWav", "make_turbo_wav": "DTurbo"}
DIR_KIND = {"make_bin": "bin", "make_bk0010_rom": "bin", "make_raw": "raw", "make_wav": "bk_wav", "make_turbo_wav": "bk_turbo_wav"}
DIR_EXT = {"make_bin": ".bin", "make_bk0010_rom": ".bin", "make_raw": "", "make_wav": ".wav", "make_turbo_wav": ".wav"}


# ---------------------------------------------------------------------------------------------
# glue: compression of byte strings into (chunk, repeat) pairs, hash
def compress(b):
    out, lit, i, n = [], [], 0, len(b)
    periods = (1, 2, 3, 4, 5, 6, 8, 12, 16, 24)
    while i < n:
        best = (0, 0, 0)
        for p in periods:
            if i + 2 * p > n:
                break
            chunk = b[i:i + p]
            if b[i + p:i + 2 * p] != chunk:
                continue
            k = 2
            while b[i + k * p:i + (k + 1) * p] == chunk:
                k += 1
            if (k - 1) * p > best[0]:
                best = ((k - 1) * p, p, k)
        if best[0] >= 3:
            if lit:
                out.append((lit, 1))
                lit = []
            out.append((list(b[i:i + best[1]]), best[2]))
            i += best[1] * best[2]
        else:
            lit.append(b[i])
            i += 1
    if lit:
        out.append((lit, 1))
    return out


def expand(rep):
    return b"".join(bytes(c) * k for c, k in rep)


def rep_term(b):
    r = compress(b)
    assert expand(r) == bytes(b)
    return "[" + "; ".join("(%s, %d%%N)" % (C.zlist(c), k) for c, k in r) + "]"


def pyhash(b):
    n = s1 = s2 = s3 = 0
    for x in b:
        n += 1
        s1 += x
        s2 += s1
        s3 += s2
    return (n, s1, s2, s3)


def opt(term):
    return "None" if term is None else "(Some %s)" % term


def cstr(s):
    return C.coq_str(s)


# ---------------------------------------------------------------------------------------------
# the implementation, under a watchdog
class _Hang(BaseException):
    pass


def _with_watchdog(fn, seconds=20):
    def alarm(signum, frame):
        raise _Hang()
    old = signal.signal(signal.SIGALRM, alarm)
    signal.setitimer(signal.ITIMER_REAL, seconds)
    try:
        return fn()
    except _Hang:
        return {"outcome": "hang"}
    finally:
        signal.setitimer(signal.ITIMER_REAL, 0)
        signal.signal(signal.SIGALRM, old)


def c13_format(kind, base, code_hex, name_hex, full):
    """file_formats[kind](base, code[, name]) -> outcome, hash, bytes (hex) if full"""
    m = impl.load()
    code = bytes.fromhex(code_hex)
    args = [base, code] + ([bytes.fromhex(name_hex)] if name_hex is not None else [])

    def go():
        try:
            out = m["formats"].file_formats[kind](*args)
        except struct.error:
            return {"outcome": "struct.error"}
        except Exception as ex:
            return {"outcome": "crash", "exc": type(ex).__name__ + ": " + str(ex)[:200]}
        if not isinstance(out, (bytes, bytearray)):
            return {"outcome": "crash", "exc": "returned " + type(out).__name__}
        r = {"outcome": "ok", "hash": pyhash(out), "len": len(out)}
        if full:
            r["out"] = bytes(out).hex()
        return r
    return _with_watchdog(go)


def c13_resolve(rel, base):
    m = impl.load()
    return _with_watchdog(lambda: {"outcome": "ok", "res": m["devices"].resolve_relative_path(rel, base),
                                   "dir": os.path.dirname(base), "norm": os.path.normpath(rel)})


def c13_emitted(files, fs=None, charset="bk"):
    """assemble and return Compiler.emitted_files even when the assembly failed; fs: path -> text of .include'd files;
    charset: the output charset (--charset)"""
    m = impl.load()
    reports, parser, compiler = m["reports"], m["parser"], m["compiler"]
    impl.reset_global_state()
    diags = []

    def handler(priority, identifier, *lst):
        sev = "warning" if priority is reports.warning else ("critical" if priority is reports.critical else "error")
        diags.append([sev, identifier])

    def go():
        comp = None
        res = {"outcome": None, "base": None, "code": None}
        try:
            with reports.handle_reports(handler):
                parsed = [parser.parse(fn, text) for fn, text in files]
                comp = compiler.Compiler(output_charset=charset)
                base, code = comp.compile_and_link_files(parsed)
            res.update(outcome="ok", base=base, code=bytes(code).hex())
        except reports.UnrecoverableError:
            res["outcome"] = "failed"
        except Exception as ex:
            res.update(outcome="crash", exc=type(ex).__name__ + ": " + str(ex)[:200])
        res["diags"] = diags
        if comp is not None:
            res["emitted"] = [[e[2], e[3]] + [x.hex() if isinstance(x, bytes) else x for x in e[4:]] for e in comp.emitted_files]
        return res
    if fs is None:
        return _with_watchdog(go)
    mc = m["metacommands"]
    old_open = mc.__dict__.get("open")
    mc.open = impl.FakeFS(fs).open
    try:
        return _with_watchdog(go)
    finally:
        if old_open is None:
            mc.__dict__.pop("open", None)
        else:
            mc.open = old_open


# impl.pmap looks functions up in impl's globals
impl.c13_format = c13_format
impl.c13_resolve = c13_resolve
impl.c13_emitted = c13_emitted


# ---------------------------------------------------------------------------------------------
# case generation: file_formats
BASES = [0, 0o1000, 0o177776, 0o177777, 0o40000, 1, 255, 256, 0o100000]


def rand_name(rng, n=16):
    style = rng.randrange(4)
    if style == 0:
        return bytes(rng.randrange(256) for _ in range(n))
    if style == 1:
        return bytes(rng.choice(b"ABCDEFGHIJKLMNOPQRSTUVWXYZ0123456789. ") for _ in range(n))
    if style == 2:
        k = rng.randrange(n + 1)
        return (bytes(rng.choice(b"abcxyz") for _ in range(k))).ljust(n, b" ")
    return bytes([rng.choice([0, 255, 32, 128])]) * n


def rand_code(rng, n):
    style = rng.randrange(6)
    if style == 0:
        return bytes([rng.choice([0, 255, 1, 128, 0x55, 0xAA])]) * n
    if style == 1:
        return bytes(rng.choice([0, 255]) for _ in range(n))
    return bytes(rng.randrange(256) for _ in range(n))


def code_with_sum(rng, target):
    """a byte string whose sum is exactly target, of varying composition"""
    out = []
    left = target
    while left > 0:
        b = min(left, rng.choice([255, 255, 255, rng.randrange(1, 256)]))
        out.append(b)
        left -= b
    rng.shuffle(out)
    for _ in range(rng.randrange(4)):
        out.insert(rng.randrange(len(out) + 1), 0)
    return bytes(out)


def gen_format_cases(rng, tier):
    cases = []

    def add(kind, base, code, name=None, full=False, why=""):
        cases.append({"type": "format", "kind": kind, "base": base, "code": code, "name": name, "full": full, "why": why})

    full_limit = 20 if tier == "quick" else 64
    for n in range(301):
        code = rand_code(rng, n)
        base = BASES[n % len(BASES)] if rng.random() < 0.7 else rng.randrange(65536)
        add("bin", base, code, full=True, why="len")
        add("raw", base, code, full=True, why="len")
        wavs = ["bk_wav", "bk_turbo_wav"] if (tier != "quick" or n <= 64) else [["bk_wav", "bk_turbo_wav"][n % 2]]
        for k in wavs:
            add(k, base, code, rand_name(rng), full=(n <= full_limit), why="len")
    # byte sums around the multiples of 65535 and 65536
    sums = [65535, 2 * 65535, 65536, 65534, 65537, 2 * 65536, 3 * 65535, 131071, 65535 + 65536]
    if tier != "quick":
        sums += [4 * 65535, 3 * 65536, 5 * 65535, 196606, 196609, 8 * 65535, 15 * 65535, 16 * 65535 - 1]
    first = True
    for t in sums:
        variants = [bytes([255]) * (t // 255) + (bytes([t % 255]) if t % 255 else b"")]
        variants.append(code_with_sum(rng, t))
        if tier != "quick":
            variants.append(code_with_sum(rng, t))
        for v in variants:
            if len(v) > 4096 + 64:
                continue
            for k in ("bk_wav", "bk_turbo_wav"):
                add(k, rng.choice(BASES), v, rand_name(rng), full=(first and k == "bk_wav") or (t == 65535 and v == variants[0]), why="sum")
            first = False
    # random images up to 4096 bytes
    for i in range(10 if tier == "quick" else 400):
        n = rng.choice([301, 512, 1000, 1024, 2048, 4095, 4096, rng.randrange(301, 4097)])
        code = rand_code(rng, n)
        k = ["bk_wav", "bk_turbo_wav"][i % 2]
        add(k, rng.randrange(65536), code, rand_name(rng), why="random")
        if i % 3 == 0:
            add("bin", rng.randrange(65536), code, full=True, why="random")
            add("raw", rng.randrange(65536), code, full=True, why="random")
    # tape names of every length 0..20 passed straight to file_formats
    for n in list(range(0, 18)) + [20]:
        for k in ("bk_wav", "bk_turbo_wav"):
            add(k, 0o1000, bytes([1, 2, 3, n]), rand_name(rng, n), full=True, why="name")
    # every base of the list, and the limits of struct.pack
    small = bytes([0o240, 0, 0o207, 0])
    for b in BASES + [65535, 65536, -1, 1 << 20]:
        for k in KINDS:
            add(k, b, small, rand_name(rng) if "wav" in k else None, full=True, why="base")
    for n in (65535, 65536):
        code = bytes([n & 255]) * n
        add("bin", 0o1000, code, full=True, why="length-limit")
        add("raw", 0o1000, code, full=True, why="length-limit")
    for k in ("bk_wav", "bk_turbo_wav"):
        add(k, 0o1000, bytes(65536), rand_name(rng), full=True, why="length-limit")
    return cases


def run_format_cases(cases):
    jobs = [((c["kind"], c["base"], c["code"].hex(), c["name"].hex() if c["name"] is not None else None, c["full"]), {}) for c in cases]
    outs = impl.pmap("c13_format", jobs, chunksize=4)
    for c, o in zip(cases, outs):
        c["obs"] = o


def ocase_term(c, with_obs=True):
    o = c["obs"]
    if o["outcome"] == "ok" and with_obs:
        obs = "(Some %s)" % rep_term(bytes.fromhex(o["out"]))
    else:
        obs = "None"
    name = opt(C.zlist(c["name"])) if c["name"] is not None else "None"
    return ("{| oc_kind := %s; oc_base := %s; oc_code := %s; oc_name := %s; oc_obs := %s |}"
            % (KINDS[c["kind"]], C.zlit(c["base"]), rep_term(c["code"]), name, obs))


def format_term(c, model):
    """Coq term of a format case for Run.C13Run.judge (model=True) or Run.C13Oracle.ojudge"""
    o = c["obs"]
    if not model:
        return "OFormat " + ocase_term(c)
    if o["outcome"] == "ok" and "out" not in o:
        h = o["hash"]
        return "CHash %s (%d, %d, %d, %d)" % (ocase_term(c, with_obs=False), h[0], h[1], h[2], h[3])
    return "CFormat " + ocase_term(c)


def format_cost(c):
    n = len(c["code"])
    return 1 + (n * 90 + 20000 if "wav" in c["kind"] else n // 8)


def format_input(c):
    return {"type": "format", "kind": c["kind"], "base": c["base"], "code_hex": c["code"].hex() if len(c["code"]) <= 6000 else None,
            "code_len": len(c["code"]), "code_sum": sum(c["code"]), "code_sha1": hashlib.sha1(c["code"]).hexdigest(),
            "code_byte_if_constant": c["code"][0] if c["code"] and len(set(c["code"])) == 1 else None,
            "name_hex": c["name"].hex() if c["name"] is not None else None}


# ---------------------------------------------------------------------------------------------
# case generation: paths
COMPS = ["a", "b.mac", "..", ".", "", "sub", "x.wav", "~speaker", "c d", "PROG.MAC", "..."]


def gen_resolve_cases(rng, tier):
    out = set()
    fixed = [("", "/r/p.mac"), (".", "/r/p.mac"), ("..", "/r/p.mac"), ("/", "/r/p.mac"), ("//", "p.mac"), ("///x", "p.mac"), ("//x/../y", "/p"),
             ("a", ""), ("a", "/"), ("a", "//"), ("a", "p.mac"), ("../..", "/r/p.mac"), ("../../..", "r/p.mac"), ("/a/./b", "/r/p"),
             ("/a//b", "/r/p"), ("/a/b/", "/r/p"), ("/a/b", "/r/p"), ("~speaker", "/r/p"), ("~SPEAKER x", "/r/p"), ("~speakers", "/r/p"),
             ("~speaker/x", "/r/p"), ("a/", "/r//p"), ("x", "/r///"), ("x", "r/s/"), ("../x", "r/p"), ("../../x", "r/p")]
    out.update(fixed)
    n = 250 if tier == "quick" else 2500
    while len(out) < n + len(fixed):
        def mk():
            k = rng.choice([0, 1, 1, 2, 2, 3, 4])
            p = "/".join(rng.choice(COMPS) for _ in range(k))
            r = rng.random()
            if r < 0.35:
                p = "/" + p
            elif r < 0.42:
                p = "//" + p
            elif r < 0.46:
                p = "///" + p
            return p
        out.add((mk(), mk()))
    return [{"type": "resolve", "rel": r, "base": b} for r, b in sorted(out)]


SOURCE_NAMES = ["prog.mac", "PROG.MAC", "prog.Mac", "prog", "prog.asm", "a.mac.mac", ".mac", "x.macx", "mac", "dir.mac/prog", "p.mac.bak", "sixteen_chars_xx.mac",
                "seventeen_chars_x.mac", "n.wav.mac", "UP.WAV.MAC"]
PATH_FORMS = [None, "out", "out.bin", "out.wav", "OUT.WAV", "sub/out.wav", "../up.wav", "./a/../b.raw", "/abs/dir/x.wav", "/abs//dir/./y.bin", "sub/",
              "a.b.c", "seventeen_chars_xx.wav", "sixteen_chars_xxx.wav", "dir/0123456789abcdefg", ".wav", "x.wav.wav", "~speaker"]
TAPE_FORMS = [None, "", "A", "NAME", "0123456789ABCDEF", "0123456789ABCDEFG", "twenty-characters-xx", " lead", "trail "]


def gen_directive_cases(rng, tier):
    cases = []
    dirs = list(DIRS)
    for d in dirs:
        for sn in SOURCE_NAMES:
            cases.append((d, None, None, "/w/src/" + sn))
        for pf in PATH_FORMS[1:]:
            cases.append((d, pf, None, "/w/src/prog.mac"))
    for d in ("make_wav", "make_turbo_wav"):
        for tf in TAPE_FORMS[1:]:
            for pf in ("out.wav", "sub/x", "/abs/y.WAV"):
                cases.append((d, pf, tf, "/w/src/prog.mac"))
    n = 60 if tier == "quick" else 600
    for _ in range(n):
        d = rng.choice(dirs)
        pf = rng.choice(PATH_FORMS)
        tf = rng.choice(TAPE_FORMS) if (pf is not None and "wav" in d) else None
        root = rng.choice(["/w/src/", "/", "/w/a b/", "rel/dir/", ""])
        cases.append((d, pf, tf, root + rng.choice(SOURCE_NAMES)))
    seen, out = set(), []
    for c in cases:
        if c not in seen:
            seen.add(c)
            out.append({"type": "directive", "dir": c[0], "path": c[1], "tape": c[2], "filename": c[3]})
    return out


def directive_line(d, path, tape):
    s = d
    if path is not None:
        s += ' "%s"' % path
        if tape is not None:
            s += ', "%s"' % tape
    return s


def run_directive_cases(cases):
    jobs = [(([(c["filename"], ".word 1\n" + directive_line(c["dir"], c["path"], c["tape"]) + "\n")],), {}) for c in cases]
    outs = impl.pmap("c13_emitted", jobs, chunksize=8)
    for c, o in zip(cases, outs):
        c["obs"] = o


def directive_term(c, model):
    o = c["obs"]
    e = o["emitted"][0]
    name = opt(C.zlist(bytes.fromhex(e[2]))) if len(e) > 2 else "None"
    err = any(d == ["error", "too-long-string"] for d in o["diags"])
    t = ("{| od_dir := %s; od_path := %s; od_tape := %s; od_filename := %s; od_obs_kind := %s; od_obs_path := %s; od_obs_name := %s; od_obs_error := %s |}"
         % (DIRS[c["dir"]], opt(cstr(c["path"])) if c["path"] is not None else "None", opt(cstr(c["tape"])) if c["tape"] is not None else "None",
            cstr(c["filename"]), KINDS[e[0]], cstr(e[1]), name, "true" if err else "false"))
    return ("CDirective " if model else "ODirective ") + t


def directive_usable(c):
    """the observation has the shape the Coq case type can carry; anything else is reported directly"""
    o = c["obs"]
    if o.get("outcome") not in ("ok", "failed") or len(o.get("emitted") or []) != 1:
        return False
    e = o["emitted"][0]
    if e[0] not in KINDS or not isinstance(e[1], str) or not all(32 <= ord(ch) < 127 for ch in e[1]):
        return False
    other = [d for d in o["diags"] if d[0] != "warning" and d != ["error", "too-long-string"]]
    return not other and (o["outcome"] == "failed") == any(d == ["error", "too-long-string"] for d in o["diags"])


# ---------------------------------------------------------------------------------------------
# tape names under an output charset: non-ASCII names whose length in BYTES differs from their length in characters
CHARSETS = ["bk", "koi8-r", "cp1251", "cp866", "utf-8", "utf-16-le", "utf-16", "latin-1", "ascii"]
ALPHABETS = {"ascii": "ABCXYZ019 _", "cyr": "\u043f\u0440\u0438\u0432\u0435\u0442\u043a\u0416\u0429\u042f\u0444\u042b",
             "lat1": "\u00e9\u00fc\u00f1\u00c0\u00df", "bmp3": "\u20ac\u2713\u65e5\u672c", "astral": "\U0001f600\U0001d11e"}
TAPE_MODES = ["explicit", "path.wav", "path.WAV", "path-noext", "source"]


def tape_codec(cs):
    """the codec that states what the charset means, independently of pdpy11: CPython's own; for pdpy11's 'bk' charset
    KOI8-R, with which it coincides on ASCII and the Russian letters other than io (C14) -- the alphabets hold no others"""
    return "koi8-r" if cs == "bk" else cs


def tape_encode(shown, cs):
    try:
        return shown.encode(tape_codec(cs))
    except UnicodeEncodeError:
        return None


def gen_tape_cases(rng, tier):
    cases, seen = [], set()

    def add(d, mode, name, cs, why):
        if mode != "explicit" and (not name or name != name.strip() or name.lower().endswith((".wav", ".mac"))):
            mode = "explicit"
        key = (d, mode, name, cs)
        if key in seen:
            return
        seen.add(key)
        path = tape = None
        filename = "/w/src/prog.mac"
        if mode == "explicit":
            path, tape = rng.choice(["out.wav", "sub/x", "/abs/y.WAV"]), name
        elif mode == "path.wav":
            path = rng.choice(["", "sub/", "/abs/dir/", "../"]) + name + ".wav"
        elif mode == "path.WAV":
            path = name + rng.choice([".WAV", ".Wav"])
        elif mode == "path-noext":
            path = rng.choice(["", "sub/"]) + name
        else:
            filename = "/w/src/" + name + rng.choice([".mac", ".MAC"])
        cases.append({"type": "tape", "dir": d, "mode": mode, "name": name, "charset": cs, "path": path, "tape": tape,
                      "filename": filename, "why": why})

    def build(alpha, cs, target):
        """a name over the alphabet whose encoding is `target` bytes long if that can be hit (else close to it)"""
        best = None
        for _ in range(40):
            name = ""
            while True:
                enc = tape_encode(name, cs)
                if enc is None or len(enc) >= target:
                    break
                name += rng.choice(alpha)
            if best is None or (enc is not None and len(enc) == target):
                best = name
            if enc is not None and len(enc) == target:
                break
        return best

    mixes = [("cyr", ALPHABETS["cyr"]), ("cyr+ascii", ALPHABETS["cyr"] + ALPHABETS["ascii"]), ("lat1", ALPHABETS["lat1"] + "ab"),
             ("bmp3", ALPHABETS["bmp3"] + "a"), ("astral", ALPHABETS["astral"] + "z"), ("ascii", ALPHABETS["ascii"]),
             ("all", "".join(ALPHABETS.values()))]
    targets = [2, 9, 12, 15, 16, 17, 18, 24, 32] if tier == "quick" else [1, 2, 3, 5, 8, 9, 11, 12, 13, 14, 15, 16, 17, 18, 19, 20, 24, 31, 32, 33, 48]
    k = 0
    for cs in CHARSETS:
        for mname, alpha in mixes:
            encodable = tape_encode(alpha, cs) is not None
            for t in (targets if encodable else targets[:2]):
                for _ in range(1 if tier == "quick" else 3):
                    k += 1
                    add(["make_wav", "make_turbo_wav"][k % 2], TAPE_MODES[(k // 2) % len(TAPE_MODES)], build(alpha, cs, t), cs, mname)
        # the same length counted in CHARACTERS: 15, 16, 17 letters
        for n in (15, 16, 17):
            for mname, alpha in mixes[:2] + mixes[5:6]:
                k += 1
                add(["make_wav", "make_turbo_wav"][k % 2], TAPE_MODES[k % len(TAPE_MODES)], "".join(rng.choice(alpha) for _ in range(n)).strip() or "A" * n, cs, mname + ":chars")
        add("make_wav", "explicit", "", cs, "empty")
    return cases


def tape_source(c):
    return ".word 1\n" + directive_line(c["dir"], c["path"], c["tape"]) + "\n"


def run_tape_cases(cases):
    jobs = [(([(c["filename"], tape_source(c))],), {"charset": c["charset"]}) for c in cases]
    outs = impl.pmap("c13_emitted", jobs, chunksize=8)
    for c, o in zip(cases, outs):
        c["obs"] = o


TAPE_ERRORS = (["error", "too-long-string"], ["error", "invalid-character"])


def tape_usable(c):
    o = c["obs"]
    if o.get("outcome") not in ("ok", "failed") or len(o.get("emitted") or []) != 1:
        return False
    e = o["emitted"][0]
    if e[0] != DIR_KIND[c["dir"]] or len(e) < 3 or not isinstance(e[2], str):
        return False
    return not [d for d in o["diags"] if d[0] != "warning" and d not in TAPE_ERRORS]


def tape_term(c, model):
    o = c["obs"]
    enc = tape_encode(c["name"], c["charset"])
    flag = lambda d: "true" if d in o["diags"] else "false"
    t = ("{| ot_enc := %s; ot_obs_name := %s; ot_obs_long := %s; ot_obs_char := %s; ot_obs_failed := %s |}"
         % (opt(C.zlist(enc)) if enc is not None else "None", opt(C.zlist(bytes.fromhex(o["emitted"][0][2]))),
            flag(TAPE_ERRORS[0]), flag(TAPE_ERRORS[1]), "true" if o["outcome"] == "failed" else "false"))
    return ("CTape " if model else "OTape ") + t


def tape_input(c):
    enc = tape_encode(c["name"], c["charset"])
    return {"type": "tape", "dir": c["dir"], "mode": c["mode"], "name": c["name"], "charset": c["charset"], "path": c["path"], "tape": c["tape"],
            "filename": c["filename"], "source": tape_source(c), "name_codepoints": ["U+%04X" % ord(ch) for ch in c["name"]],
            "name_encoded_hex": enc.hex() if enc is not None else "not encodable in this charset", "why": c.get("why", "")}


# ---------------------------------------------------------------------------------------------
# command-line scenarios
def gen_cli_cases(rng, tier):
    """each scenario: cwd (relative to the scratch root), sources [(relpath from root, [(dir, path, tape)])],
    infile spelling (abs / rel), outfile, implicit_bin, dirs to create"""
    sc = []

    def add(sources, outfile=None, implicit=False, cwd="proj", spell="rel", base=0o1000, note="", lst=False, inc=(), charset=None):
        # inc: [child index, parent index, operand as written]: sources[child] is not an infile but `.include`d
        # (last line) by sources[parent]; parents come before their children, so list order = assembly order
        sc.append({"type": "cli", "cwd": cwd, "sources": sources, "outfile": outfile, "implicit": implicit, "spell": spell,
                   "base": base, "note": note, "lst": lst, "inc": [list(x) for x in inc], "charset": charset})

    S = "proj/src/prog.mac"
    # full cross product of the output selectors: -o kind x --implicit-bin x directives x --lst
    o_kinds = [None, "x.bin", "x.raw", "out.dat", "-", "sub/y.BIN"]
    dsets = [[], [("make_bin", None, None)], [("make_raw", "r", None), ("make_wav", "w.wav", "N")]]
    if tier != "quick":
        o_kinds += ["-.bin", "ABS:/o/z", "x.bk_wav", "noext"]
        dsets += [[("make_wav", None, None)], [("make_turbo_wav", "t.bk_turbo_wav", None), ("make_bin", "b2.bin", None)], [("make_raw", None, None)]]
    for o in o_kinds:
        for imp in (False, True):
            for ds in dsets:
                for lst in (False, True):
                    add([(S, list(ds))], outfile=o, implicit=imp, lst=lst, note="cross")
    # -o selectors
    for o in ["x.bin", "x.raw", "out.dat", "OUT.BIN", "noext", "sub/x.bin", "sub/y", "../up.bin", "-", "-.bin", "-.raw", "x.bin.raw", "a.b/c", "ABS:/o/z.bin", "ABS:/o/z"]:
        add([(S, [])], outfile=o)
    # last path components that look like the stdout spelling, hidden files, dotted and upper-case names,
    # each bare and behind a directory part: stdout is selected by the WHOLE argument ('-' or '-.<ext>') only
    k = 0
    for comp in ["-", "-.bin", "-.raw", "-x", "x-", ".bin", "na.me.with.dots", "N.BIN", "-.BIN", "-.a.b"]:
        for prefix in ["", "./", "sub/", "ABS:/o/", "../proj/sub/", "sub/deep/../"]:
            if tier == "quick" and prefix in ("../proj/sub/", "sub/deep/../") and comp not in ("-", "-.bin"):
                continue
            if prefix + comp in ("-", "-.bin", "-.raw"):
                continue        # already above
            k += 1
            add([(S, [])], outfile=prefix + comp, lst=(k % 5 == 0), implicit=(k % 7 == 0), note="dash")
    add([(S, [("make_bin", None, None)])], outfile="./-")
    add([(S, [("make_raw", "r", None)])], outfile="sub/-.bin", lst=True)
    # make_xxx inside files reached by `.include` (depth 1-2, in sub-directories), assembled from several
    # working directories: paths are relative to the file that CONTAINS the directive, default names are its name
    M = "proj/src/main.mac"
    inc_sets = [
        ([(M, []), ("proj/src/lib/part.mac", [("make_raw", None, None), ("make_bin", "up.bin", None)])], [(1, 0, "lib/part.mac")], None),
        ([(M, [("make_bin", None, None)]), ("proj/src/lib/part.mac", [("make_wav", None, None), ("make_bin", "../x.bin", None)]),
          ("proj/src/lib/sub2/leaf.mac", [("make_turbo_wav", "out.wav", None), ("make_raw", None, None), ("make_raw", "../../y.raw", None)])],
         [(1, 0, "lib/part.mac"), (2, 1, "sub2/leaf.mac")], None),
        ([(M, []), ("proj/src/lib/PART.MAC", [("make_wav", "out/p.wav", "T"), ("make_bin", None, None)])], [(1, 0, "./lib/../lib/PART.MAC")], "k.bin"),
        ([(M, []), ("proj/src/lib/part.mac", [("make_bin", None, None), ("make_turbo_wav", None, None)])], [(1, 0, "ABS:/proj/src/lib/part.mac")], None),
        ([(M, []), ("proj/src/deep/leaf", [("make_wav", None, None), ("make_bin", "b.bin", None)])], [(1, 0, "lib/../deep/leaf")], None),
    ]
    for srcs, inc, o in inc_sets:
        for j, cwd in enumerate(["proj/src", "proj", "proj/lib", ""]):
            add([(a, list(b)) for a, b in srcs], inc=inc, cwd=cwd, spell="rel" if j < 3 else rng.choice(["rel", "abs"]), outfile=o,
                lst=(j == 1 and o is None), note="include")
    for _ in range(0 if tier == "quick" else 60):
        depth = rng.choice([1, 1, 2])
        names = ["proj/src/lib/part.mac", "proj/src/lib/sub2/leaf.mac"][:depth]
        ops = ["lib/part.mac", rng.choice(["sub2/leaf.mac", "./sub2/leaf.mac"])][:depth]
        srcs = [(M, [(rng.choice(list(DIRS)), None, None)] if rng.random() < 0.3 else [])]
        for nm in names:
            ds = []
            for _k in range(rng.choice([1, 2, 2, 3])):
                d = rng.choice(list(DIRS))
                pth = rng.choice([None, "o%d" % _k, "../u%d.bin" % _k, "out/w%d.wav" % _k, "ABS:/o/a%d" % _k])
                if pth is None and any(x[0] == d and x[1] is None for x in ds):
                    pth = "dup%d" % _k
                ds.append((d, pth, rng.choice([None, "NM"]) if (pth and "wav" in d) else None))
            srcs.append((nm, ds))
        add(srcs, inc=[(i + 1, i, ops[i]) for i in range(depth)], cwd=rng.choice(["proj/src", "proj", "proj/lib", ""]),
            spell=rng.choice(["rel", "abs"]), outfile=rng.choice([None, None, "k.bin", "-"]), implicit=rng.random() < 0.3, lst=rng.random() < 0.3, note="include")
    # --implicit-bin, and nothing at all
    for sn in ["proj/src/prog.mac", "proj/src/PROG.MAC", "proj/src/prog", "proj/src/prog.Mac", "proj/src/p.asm"]:
        add([(sn, [])], implicit=True)
        add([(sn, [])], implicit=True, spell="abs", cwd="")
    add([(S, [])])
    add([(S, [("make_bin", None, None)])], implicit=True)
    add([(S, [("make_raw", "r.out", None)])], outfile="also.bin", implicit=True)
    # every directive, without and with a path, for every source-name form
    for d in DIRS:
        for sn in ["proj/src/prog.mac", "proj/src/PROG.MAC", "proj/src/prog", "proj/src/x.y.MaC"]:
            add([(sn, [(d, None, None)])], cwd=rng.choice(["proj", "proj/src", ""]), spell=rng.choice(["rel", "abs"]))
        for p in ["out", "out.x", "sub/deep/o.wav", "../side/o.bin", "./a/../b", "ABS:/o/d.wav"]:
            add([(S, [(d, p, None)])], cwd=rng.choice(["proj", "proj/src", ""]), spell=rng.choice(["rel", "abs"]))
    # tape names
    for d in ("make_wav", "make_turbo_wav"):
        for t in ["T", "0123456789ABCDEF", "", "with space", "0123456789ABCDEFG"]:
            add([(S, [(d, "tape.wav", t)])])
        add([("proj/src/sixteen_chars_xx.mac", [(d, None, None)])])
        add([("proj/src/seventeen_chars_x.mac", [(d, None, None)])])
        add([(S, [(d, "sub/seventeen_chars_x.wav", None)])])
        add([(S, [(d, "sub/NAME.WAV", None)])])
    # several directives, several files, a directive in the second file resolves against that file
    add([(S, [("make_bin", None, None), ("make_raw", "r", None), ("make_wav", "w.wav", "W"), ("make_turbo_wav", "t.wav", None), ("make_bk0010_rom", "rom.bin", None)])], outfile="o.bin")
    add([("proj/src/one.mac", []), ("proj/lib/two.mac", [("make_bin", "out/b.bin", None), ("make_wav", None, None)])])
    add([("proj/src/one.mac", [("make_raw", None, None)]), ("proj/lib/two.mac", [("make_raw", None, None)])], cwd="proj/lib")
    add([("proj/src/one.mac", []), ("proj/lib/two.mac", [])], implicit=True)
    # several directives of the SAME container in one source: every file must carry ITS OWN tape name
    for d in ("make_wav", "make_turbo_wav"):
        add([(S, [(d, "one.wav", "FIRST"), (d, "two.wav", "SECOND")])])
        add([(S, [(d, "one.wav", None), (d, "two.wav", None)])])
        add([(S, [(d, None, None), (d, "other.wav", None), (d, "sub/third.wav", "0123456789ABCDEF")])], outfile="o.bin")
        add([(S, [(d, "a.wav", "A"), (d, "sub/a.wav", "B"), (d, "../side/a.wav", "C"), (d, "ABS:/o/a.wav", None)])], cwd="proj/src")
        add([(S, [(d, "same.wav", "OLD"), (d, "same.wav", "NEW")])])
        add([(S, [(d, "x.wav", "SAME"), (d, "y.wav", "SAME")])], outfile="-")
        add([(S, [(d, "n1.wav", "N"), ("make_bin", None, None), (d, "n2.wav", None), ("make_raw", "r", None)])], outfile="sub/k")
    add([(S, [("make_wav", "w1.wav", "W1"), ("make_turbo_wav", "t1.wav", "T1"), ("make_wav", "w2.wav", "W2"), ("make_turbo_wav", "t2.wav", "T2")])])
    add([(S, [("make_turbo_wav", "t1.wav", None), ("make_wav", "t1x.wav", None), ("make_turbo_wav", "sub/t2.wav", None), ("make_wav", None, None)])], outfile="x.raw")
    add([(S, [("make_bin", None, None), ("make_bin", "b2.bin", None), ("make_bk0010_rom", "b3", None), ("make_raw", None, None), ("make_raw", "r2", None)])], outfile="o2.bin")
    add([("proj/src/one.mac", [("make_wav", None, None), ("make_wav", "x.wav", "ONE")]), ("proj/lib/two.mac", [("make_wav", None, None), ("make_wav", "x.wav", "TWO")])])
    add([(S, [("make_wav", "one.wav", "FIRST"), ("make_wav", "two.wav", "0123456789ABCDEFG")])])

    # --charset: the 16-byte limit counts BYTES of the name encoded in the output charset (explicit names; the paths stay ASCII)
    cyr = "\u043f\u0440\u0438\u0432\u0435\u0442\u0438\u043a\u0438"       # 9 Russian letters
    j = 0
    for cs in [None, "koi8-r", "cp1251", "utf-8", "utf-16-le", "utf-16", "latin-1", "ascii"]:
        names = ["NAME", cyr[:6], cyr[:8], cyr, (cyr + cyr)[:16], (cyr + cyr)[:17], "ab" + cyr[:7], "caf\u00e9 \u00fc", "\u20ac\u65e5\u672c\u2713\u20ac", "\u20ac\u65e5\u672c\u2713\u20acX",
                 "\U0001f600\U0001d11e\U0001f600\U0001d11e"]
        if tier == "quick":
            names = [n for i, n in enumerate(names) if (i + j) % 2 == 0 or n in (cyr[:6], cyr[:8])]
        for nm in names:
            if tape_encode(nm, cs or "bk") is None:
                continue            # a name the charset cannot carry: judged at directive level (tape cases)
            j += 1
            d = ["make_wav", "make_turbo_wav"][j % 2]
            add([(S, [(d, "tape.wav", nm)] + ([("make_bin", None, None)] if j % 5 == 0 else []))], charset=cs, note="charset",
                cwd=["proj", "proj/src", ""][j % 3], spell=["rel", "abs"][j % 2])

    def multi():
        k = rng.choice([2, 2, 3, 3, 4])
        main = rng.choice(list(DIRS))
        dirs, used_default = [], set()
        pool = ["m%d.wav" % i for i in range(4)] + ["sub/m.wav", "sub/deep/m.WAV", "../side/m.bin", "ABS:/o/m", "m", "q/m.x"]
        for _ in range(k):
            d = main if rng.random() < 0.7 else rng.choice(list(DIRS))
            if rng.random() < 0.2 and d not in used_default:
                pth = None
                used_default.add(d)
            else:
                pth = rng.choice(pool)
            t = None
            if pth is not None and "wav" in d and rng.random() < 0.6:
                t = rng.choice(["A", "B", "NAME", "0123456789ABCDEF", "", "x y", "0123456789ABCDEFG" if rng.random() < 0.15 else "Z"])
            dirs.append((d, pth, t))
        return dirs

    for _ in range(24 if tier == "quick" else 160):
        add([(rng.choice(["proj/src/prog.mac", "proj/src/P.MAC", "proj/src/noext.asm"]), multi())],
            outfile=rng.choice([None, None, "k.bin", "sub/k", "-"]), implicit=rng.random() < 0.3,
            cwd=rng.choice(["proj", "proj/src", ""]), spell=rng.choice(["rel", "abs"]), base=rng.choice(BASES[:4]), lst=rng.random() < 0.3)
    n = 0 if tier == "quick" else 300
    for _ in range(n):
        d = rng.choice(list(DIRS))
        p = rng.choice([None, "o", "sub/o.wav", "../q/o.bin", "ABS:/o/r", "o.WAV"])
        t = rng.choice([None, "N", "0123456789ABCDEF", "0123456789ABCDEFGH"]) if (p and "wav" in d) else None
        add([(rng.choice(["proj/src/prog.mac", "proj/src/P.MAC", "proj/src/noext", "proj/m.mac"]), [(d, p, t)])],
            outfile=rng.choice([None, None, "k.bin", "sub/k", "-"]), implicit=rng.random() < 0.3,
            cwd=rng.choice(["proj", "proj/src", ""]), spell=rng.choice(["rel", "abs"]), base=rng.choice(BASES[:4]))
    for i, s_ in enumerate(sc):
        s_["idx"] = i
        s_["bytes"] = bytes(rng.randrange(256) for _ in range(rng.choice([0, 1, 2, 7, 30])))
    return sc


def _abs(root, p):
    return p.replace("ABS:", root) if p is not None else None


def cli_included(s_):
    return {c for c, _, _ in s_.get("inc", [])}


def cli_source_text(s_, k, dirs, root):
    lines = []
    if k == 0:
        lines.append(".link %o" % s_["base"])
        for b in s_["bytes"]:
            lines.append(".byte %o" % b)
    else:
        lines.append(".byte %o" % (k & 255))
    for d, p, t in dirs:
        lines.append(directive_line(d, _abs(root, p), t))
    for c, par, operand in s_.get("inc", []):
        if par == k:
            lines.append('.include "%s"' % _abs(root, operand))
    return "\n".join(lines) + "\n"


def run_cli_case(s_, rootbase):
    """returns the observation dict; never raises"""
    root = os.path.join(rootbase, "case%d" % s_["idx"])
    res = {}
    try:
        shutil.rmtree(root, ignore_errors=True)
        for d in ("proj/src", "proj/lib", "proj/sub/deep", "proj/src/sub/deep", "proj/side", "proj/lib/out", "proj/q", "proj/src/a", "proj/a.b", "o", "sub", "q", "a.b",
                  "proj/src/q", "side", "a", "proj/a", "proj/src/lib/sub2/out", "proj/src/lib/out", "proj/src/deep/out", "proj/out", "proj/lib/lib", "out", "lib", "proj/lib/sub/deep", "proj/lib/a", "proj/lib/q", "proj/lib/side", "proj/src/a.b", "proj/src/side"):
            os.makedirs(os.path.join(root, d), exist_ok=True)
        root = os.path.realpath(root)
        cwd = os.path.join(root, s_["cwd"]) if s_["cwd"] else root
        files = []
        for k, (rel, dirs) in enumerate(s_["sources"]):
            ap = os.path.join(root, rel)
            text = cli_source_text(s_, k, dirs, root)
            with open(ap, "w", encoding="utf-8") as f:
                f.write(text)
            files.append((ap, text))
        before = {}
        for dp, _, fns in os.walk(root):
            for fn in fns:
                p = os.path.join(dp, fn)
                with open(p, "rb") as f:
                    before[p] = f.read()
        included = cli_included(s_)
        infiles = [None if k in included else (ap if s_["spell"] == "abs" else os.path.relpath(ap, cwd)) for k, (ap, _) in enumerate(files)]
        argv = [C.PY, "-m", "pdpy11"] + [x for x in infiles if x is not None]
        outfile = _abs(root, s_["outfile"])
        if outfile is not None:
            # argparse takes a separate "-.bin" for an option; the attached spelling reaches the code
            argv += ["-o" + outfile] if (outfile.startswith("-") and outfile != "-") else ["-o", outfile]
        if s_["implicit"]:
            argv.append("--implicit-bin")
        if s_.get("lst"):
            argv.append("--lst")
        if s_.get("charset"):
            argv += ["--charset", s_["charset"]]
        env = dict(os.environ, PYTHONPATH=C.REPO, PYTHONDONTWRITEBYTECODE="1")
        try:
            p = subprocess.run(argv, cwd=cwd, env=env, stdout=subprocess.PIPE, stderr=subprocess.PIPE, timeout=60)
            res.update(exit=p.returncode, stdout=p.stdout, stderr=p.stderr.decode("utf-8", "replace")[-600:])
        except subprocess.TimeoutExpired:
            res.update(exit=None, stdout=b"", stderr="TIMEOUT")
        found = {}
        for dp, _, fns in os.walk(root):
            for fn in fns:
                pth = os.path.join(dp, fn)
                with open(pth, "rb") as f:
                    data = f.read()
                if before.get(pth) != data:
                    found[os.path.realpath(pth)] = data
        lsts = [q for q in found if q.endswith(".lst")]
        obs_lst = None
        if len(lsts) == 1:      # the listing is C19's subject: here only where it is, and that nothing else appears
            obs_lst = lsts[0]
            res["lst_len"] = len(found.pop(obs_lst))
        res.update(root=root, cwd=cwd, infiles=infiles, files=files, found=found, obs_lst=obs_lst, outfile=outfile, argv=argv[1:])
    except Exception as ex:  # harness-level problem: surfaced, never hidden
        res["harness_error"] = type(ex).__name__ + ": " + str(ex)[:300]
    finally:
        shutil.rmtree(os.path.join(rootbase, "case%d" % s_["idx"]), ignore_errors=True)
    return res


def cli_expected(s_, o):
    """the property's expectation, from its text, with pathlib: [(resolved path, kind, tape name or None)] or None = must fail"""
    root = o["root"]
    exp, fail = [], False
    any_directive = False
    for (ap, _), (rel, dirs) in zip(o["files"], s_["sources"]):
        src = pathlib.Path(ap)
        for d, p, t in dirs:
            any_directive = True
            if p is not None:
                target = (src.parent / _abs(root, p))
            else:
                stem = ap[:-4] if ap[-4:].lower() == ".mac" else ap
                target = pathlib.Path(stem + DIR_EXT[d])
            target = pathlib.Path(os.path.realpath(str(target)))
            name = None
            if "wav" in d:
                shown = t if t is not None else (target.name[:-4] if target.name[-4:].lower() == ".wav" else target.name)
                enc = tape_encode(shown, s_.get("charset") or "bk")
                if enc is None or len(enc) > 16:
                    fail = True
                    enc = b""
                name = enc.ljust(16, b" ")
            exp.append((str(target), DIR_KIND[d], name))
    stdout_kind = None
    outfile = o["outfile"]
    if outfile is None and not any_directive and s_["implicit"]:
        first = o["files"][0][0]
        outfile = (first[:-4] if first[-4:].lower() == ".mac" else first) + ".bin"
    if outfile is not None:
        kind = "bin" if outfile.split("/")[-1].lower().endswith(".bin") else "raw"
        # standard output when and only when the whole argument is '-' or '-.<ext>' (ext without dot or slash)
        if outfile == "-" or (outfile.startswith("-.") and "/" not in outfile and "." not in outfile[2:]):
            stdout_kind = kind
        else:
            exp.append((os.path.realpath(os.path.join(o["cwd"], outfile)), kind, None))
    # --lst: next to the -o / --implicit-bin file if there is one, else next to the first directive's file;
    # the extension naming the container (".bin", ".raw", ".bk_wav", ".bk_turbo_wav") is replaced by ".lst"
    o["expected_lst"] = None
    if s_.get("lst") and not fail:
        if outfile is not None:
            if stdout_kind is not None:
                o["expected_lst"] = os.path.realpath(os.path.join(o["cwd"], "listing.lst"))
            else:
                o["expected_lst"] = _lst_name(exp[-1][0], exp[-1][1])
        elif exp:
            o["expected_lst"] = _lst_name(exp[0][0], exp[0][1])
    # a path written twice holds what the LAST directive / option naming it asked for
    last = {}
    for e in exp:
        last[e[0]] = e
    exp = [e for e in exp if last[e[0]] is e]
    return (None if fail else exp), stdout_kind


def _lst_name(path, kind):
    return (path[:-len(kind) - 1] if path.endswith("." + kind) else path) + ".lst"


def cli_image(s_, o):
    r = c13_emitted(o["files"])
    return r


def tape_str_term(t, cs):
    """the tape name as the model's string: printable ASCII as it is, else the bytes of its encoding in the output charset"""
    enc = tape_encode(t, cs or "bk")
    if all(32 <= ord(ch) < 127 for ch in t) and (enc is None or enc == t.encode("ascii")):
        return cstr(t)      # (under utf-16 / utf-16-le even an ASCII name encodes to two bytes per character: take the bytes)
    return "(bstr %s)" % C.zlist(enc)


def cli_term(s_, o, model):
    exp, stdout_kind = o["expected"], o["expected_stdout"]
    srcs = []
    parent = {c: (par, operand) for c, par, operand in s_.get("inc", [])}
    for k, (infile, (rel, dirs)) in enumerate(zip(o["infiles"], s_["sources"])):
        ds = "; ".join("(%s, %s, %s)" % (DIRS[d], opt(cstr(_abs(o["root"], p))) if p is not None else "None", opt(tape_str_term(t, s_.get("charset"))) if t is not None else "None")
                       for d, p, t in dirs)
        chain, j = [], k          # the `.include` operands leading from an infile to this file
        while j in parent:
            chain.insert(0, _abs(o["root"], parent[j][1]))
            j = parent[j][0]
        srcs.append("(%s, [%s], [%s])" % (cstr(o["infiles"][j]), "; ".join(cstr(x) for x in chain), ds))
    exp_t = "None" if exp is None else "(Some [%s])" % "; ".join(
        "(%s, %s, %s)" % (cstr(p), KINDS[k], opt(C.zlist(nm)) if nm is not None else "None") for p, k, nm in exp)
    files_t = "; ".join("(%s, %s)" % (cstr(p), rep_term(d)) for p, d in sorted(o["found"].items()))
    t = ("{| cc_cwd := %s; cc_sources := [%s]; cc_outfile := %s; cc_implicit_bin := %s; cc_base := %s; cc_code := %s; cc_expected := %s; "
         "cc_expected_stdout := %s; cc_lst := %s; cc_expected_lst := %s; cc_obs_ok := %s; cc_obs_files := [%s]; cc_obs_lst := %s; cc_obs_stdout := %s |}"
         % (cstr(o["cwd"]), "; ".join(srcs), opt(cstr(o["outfile"])) if o["outfile"] is not None else "None", "true" if s_["implicit"] else "false",
            C.zlit(o["image"][0]), C.zlist(o["image"][1]), exp_t, opt(KINDS[stdout_kind]) if stdout_kind else "None",
            "true" if s_.get("lst") else "false", opt(cstr(o["expected_lst"])) if o.get("expected_lst") else "None",
            "true" if o["exit"] == 0 else "false", files_t, opt(cstr(o["obs_lst"])) if o.get("obs_lst") else "None", rep_term(o["stdout"])))
    return ("CCli " if model else "OCli ") + t


def cli_input(s_, o):
    return {"type": "cli", "scenario": {k: (v.hex() if isinstance(v, bytes) else v) for k, v in s_.items() if k != "obs"},
            "argv": o.get("argv"), "cwd": o.get("cwd"), "sources": [[p, t] for p, t in o.get("files", [])],
            "exit": o.get("exit"), "found": {p: (d.hex() if len(d) <= 400 else "sha1:" + hashlib.sha1(d).hexdigest() + " len=%d" % len(d)) for p, d in o.get("found", {}).items()},
            "expected": [[p, k, nm.hex() if nm else None] for p, k, nm in (o.get("expected") or [])] if o.get("expected") is not None else "must fail, no files",
            "listing_found": o.get("obs_lst"), "listing_expected": o.get("expected_lst") if s_.get("lst") else "none (no --lst)",
            "stderr_tail": o.get("stderr")}


def run_cli_cases(cases, seed):
    rootbase = os.path.join(SCRATCH, "cli-%d-%d" % (os.getpid(), seed % 100000))
    os.makedirs(rootbase, exist_ok=True)
    try:
        with concurrent.futures.ThreadPoolExecutor(max_workers=C.NPROC) as ex:
            outs = list(ex.map(lambda s_: run_cli_case(s_, rootbase), cases))
    finally:
        shutil.rmtree(rootbase, ignore_errors=True)
        try:
            os.rmdir(SCRATCH)
        except OSError:
            pass
    for s_, o in zip(cases, outs):
        s_["obs"] = o
        if "harness_error" in o or o.get("exit") is None:
            continue
        included = cli_included(s_)
        img = c13_emitted([f for k, f in enumerate(o["files"]) if k not in included],
                          fs={f[0]: f[1] for k, f in enumerate(o["files"]) if k in included} if included else None,
                          charset=s_.get("charset") or "bk")
        o["image_outcome"] = img["outcome"]
        if img["outcome"] == "ok":
            o["image"] = (img["base"], bytes.fromhex(img["code"]))
        else:
            o["image"] = (s_["base"], s_["bytes"] + bytes((k & 255) for k in range(1, len(s_["sources"]))))
        o["expected"], o["expected_stdout"] = cli_expected(s_, o)


def cli_usable(s_):
    o = s_["obs"]
    if "harness_error" in o or o.get("exit") is None:
        return False
    strings = [o["cwd"]] + [x for x in o["infiles"] if x is not None] + list(o["found"]) + ([o["outfile"]] if o["outfile"] else []) + ([o["obs_lst"]] if o.get("obs_lst") else [])
    return all(all(32 <= ord(ch) < 127 for ch in x) for x in strings)


# ---------------------------------------------------------------------------------------------
# evaluation in coqc
def evaluate(items, model):
    """items: list of (cost, term).  Returns the list of codes in the same order."""
    if not items:
        return []
    nshards = max(1, min(C.NPROC * 2, len(items) // 6 or 1))
    order = sorted(range(len(items)), key=lambda i: -items[i][0])
    loads = [0] * nshards
    assign = [[] for _ in range(nshards)]
    for i in order:
        k = loads.index(min(loads))
        loads[k] += items[i][0]
        assign[k].append(i)
    shards = [[items[i][1] for i in a] for a in assign]
    if model:
        res = C.run_case_files(ID, "Run.C13Run Run.C13Oracle", "", shards, judge_expr="map judge cases", timeout=1500, opens=OPENS)
    else:
        res = C.run_case_files(ID, "Run.C13Oracle", "", shards, judge_expr="map ojudge cases", timeout=1500, opens=OPENS)
    codes = [None] * len(items)
    for a, r in zip(assign, res):
        if len(a) != len(r):
            raise RuntimeError("coqc returned %d verdicts for %d cases" % (len(r), len(a)))
        for i, code in zip(a, r):
            codes[i] = code
    return codes


def describe_format(c):
    s = sum(c["code"])
    return "file_formats[%r](base=%d, code=<%d bytes, sum %d>%s)" % (c["kind"], c["base"], len(c["code"]), s,
                                                                        ", name=%r" % c["name"] if c["name"] is not None else "")


def collect(rep, tier, seed, model):
    """generate all cases, observe the implementation, judge in coqc; fills rep"""
    rng = random.Random(seed)
    t0 = time.time()
    fcases = gen_format_cases(rng, tier)
    rcases = gen_resolve_cases(rng, tier)
    dcases = gen_directive_cases(rng, tier)
    ccases = gen_cli_cases(rng, tier)
    tcases = gen_tape_cases(random.Random(seed * 7919 + 13), tier)
    if not model:
        # oracle-only: needs the bytes themselves; keep the literals moderate
        fcases = [c for c in fcases if len(c["code"]) <= 1100]
        for c in fcases:
            c["full"] = True
        rcases = []
    run_format_cases(fcases)
    run_directive_cases(dcases)
    run_tape_cases(tcases)
    run_cli_cases(ccases, seed)
    outs = impl.pmap("c13_resolve", [((c["rel"], c["base"]), {}) for c in rcases], chunksize=64)
    for c, o in zip(rcases, outs):
        c["obs"] = o

    items, owners = [], []
    for c in fcases:
        rep.add_eval()
        rep.count("format:%s:%s" % (c["kind"], c["why"]))
        o = c["obs"]
        if c["code"]:
            rep.nontrivial(("f", c["kind"], c["base"], hashlib.sha1(c["code"]).hexdigest(), c["name"].hex() if c["name"] else None))
        if o["outcome"] in ("crash", "hang", "harness-error"):
            rep.violate("format-crash:%s:%s" % (c["kind"], o.get("exc", o["outcome"])[:60]),
                        "file_formats raised something other than struct.error / did not return bytes", format_input(c), impl=o)
            continue
        items.append((format_cost(c), format_term(c, model)))
        owners.append(("format", c))
    for c in rcases:
        rep.add_eval()
        rep.count("resolve")
        rep.nontrivial(("r", c["rel"], c["base"]))
        o = c["obs"]
        if o.get("outcome") != "ok":
            rep.disagree("resolve_relative_path did not return", {"rel": c["rel"], "base": c["base"]}, impl=o)
            continue
        items.append((1, "CResolve (%s, %s, %s, %s, %s)" % (cstr(c["rel"]), cstr(c["base"]), cstr(o["res"]), cstr(o["dir"]), cstr(o["norm"]))))
        owners.append(("resolve", c))
    for c in dcases:
        rep.add_eval()
        rep.count("directive:" + c["dir"])
        rep.nontrivial(("d", c["dir"], c["path"], c["tape"], c["filename"]))
        if not directive_usable(c):
            rep.violate("directive-outcome:%s:%s:%s" % (c["dir"], c["path"], c["tape"]),
                        "a make_xxx directive did not register exactly one output (or failed for another reason than a too long tape name)",
                        {k: c[k] for k in ("type", "dir", "path", "tape", "filename")}, impl=c["obs"])
            continue
        items.append((2, directive_term(c, model)))
        owners.append(("directive", c))
    for c in tcases:
        rep.add_eval()
        rep.count("tape:%s:%s" % (c["charset"], c["mode"]))
        enc = tape_encode(c["name"], c["charset"])
        if enc is not None and len(enc) != len(c["name"]):
            rep.nontrivial(("t", c["dir"], c["mode"], c["name"], c["charset"]))
        if not tape_usable(c):
            rep.violate("tape-outcome:%s:%s:%s:%s" % (c["dir"], c["mode"], c["charset"], c["name"]),
                        "a make_wav/make_turbo_wav directive did not register exactly one output of its container (or failed for another "
                        "reason than a too long / unencodable tape name)", tape_input(c), impl=c["obs"],
                        replay="assemble the recorded source with Compiler(output_charset=charset) and read Compiler.emitted_files")
            continue
        items.append((2, tape_term(c, model)))
        owners.append(("tape", c))
    for s_ in ccases:
        rep.add_eval()
        rep.count("cli")
        rep.nontrivial(("c", s_["cwd"], str(s_["sources"]), s_["outfile"], s_["implicit"], s_["spell"], s_.get("lst"), s_.get("charset")))
        if not cli_usable(s_):
            rep.violate("cli-run:%d" % s_["idx"], "the command-line run did not finish / harness problem", cli_input(s_, s_["obs"]), impl=str(s_["obs"])[:500])
            continue
        items.append((30, cli_term(s_, s_["obs"], model)))
        owners.append(("cli", s_))
    rep.traces_validated += len(ccases)
    t1 = time.time()
    codes = evaluate(items, model)
    C.log("C13: %d cases: observed in %.1fs, judged in coqc in %.1fs" % (len(items), t1 - t0, time.time() - t1))

    # second pass: hash disagreements are resubmitted with the bytes themselves (smallest first)
    resub = [c for (kind, c), code in zip(owners, codes) if kind == "format" and model and code & 1 and "out" not in c["obs"] and c["obs"]["outcome"] == "ok"]
    resub.sort(key=lambda c: len(c["code"]))
    resub = resub[:8]
    if resub:
        for c in resub:
            c["full"] = True
        run_format_cases(resub)
        codes2 = evaluate([(format_cost(c), format_term(c, model)) for c in resub], model)
        remap = {id(c): code for c, code in zip(resub, codes2)}
    else:
        remap = {}

    for (kind, c), code in zip(owners, codes):
        if kind == "format":
            code = remap.get(id(c), code)
            if code & 1:
                rep.disagree("file_formats: Model.BkWav/Model.Formats vs the implementation", format_input(c),
                             impl={k: v for k, v in c["obs"].items() if k != "out"})
            if code & 2:
                sig = "format:%s:base=%d:len=%d:sum=%d" % (c["kind"], c["base"], len(c["code"]), sum(c["code"]))
                rep.violate(sig, "the bytes returned by " + describe_format(c) + " do not carry the image when read by the Spec readers "
                            "(Run.C13Oracle.prop_ocase: parse_bin / parse_raw / parse_wav + demod + cksum_spec)", format_input(c),
                            impl={k: v for k, v in c["obs"].items() if k != "out"},
                            replay="pdpy11.formats.file_formats[kind](base, code[, name]) judged by Run.C13Oracle.prop_ocase")
        elif kind == "resolve":
            if code & 1:
                rep.disagree("resolve_relative_path/dirname/normpath: Model.OutPath vs os.path", {"rel": c["rel"], "base": c["base"]}, impl=c["obs"])
        elif kind == "directive":
            inp = {k: c[k] for k in ("type", "dir", "path", "tape", "filename")}
            if code & 1:
                rep.disagree("make_xxx: Model.OutPath.emit_directive vs Compiler.emitted_files", inp, impl=c["obs"])
            if code & 2:
                rep.violate("directive:%s:%s:%s:%s" % (c["dir"], c["path"], c["tape"], c["filename"]),
                            "the output registered by the directive contradicts C13 (default path = source name with .mac replaced; tape name = "
                            "given name or file base name, space-padded to 16, longer is an error)", inp, impl=c["obs"],
                            replay="assemble '.word 1 / <directive>' and read Compiler.emitted_files")
        elif kind == "tape":
            if code & 1:
                rep.disagree("tape name under an output charset: Model.OutPath.pad_name on the encoded name vs Compiler.emitted_files", tape_input(c), impl=c["obs"])
            if code & 2:
                enc = tape_encode(c["name"], c["charset"])
                rep.violate("tape:%s:%s:%s:%s" % (c["dir"], c["mode"], c["charset"], c["name"]),
                            "the tape name registered under output charset %r contradicts C13: the name %r (%s) must be %s"
                            % (c["charset"], c["name"], "%d characters, %d bytes encoded" % (len(c["name"]), len(enc)) if enc is not None else "not encodable",
                               "refused with an invalid-character error" if enc is None else
                               ("refused with a too-long-string error" if len(enc) > 16 else "accepted and space-padded to 16 bytes")),
                            tape_input(c), impl=c["obs"],
                            replay="assemble the recorded source with Compiler(output_charset=charset) (= --charset) and read Compiler.emitted_files")
        else:
            if code & 1:
                rep.disagree("command line: Model.OutPath.cli_outputs + file formats vs files written by `python -m pdpy11`", cli_input(c, c["obs"]))
            if code & 2:
                rep.violate("cli:%s:o=%s:implicit=%s:lst=%s:cwd=%s%s" % (c["sources"], c["outfile"], c["implicit"], c.get("lst"), c["cwd"],
                                                                     ":charset=" + c["charset"] if c.get("charset") else ""),
                            "files written by `python -m pdpy11` differ from the files the property expects, or their contents do not decode to the image",
                            cli_input(c, c["obs"]), replay="python -m pdpy11 <argv> in a scratch tree")
    return fcases, dcases, ccases, tcases


def explore(rep, br, tier, seed):
    fcases, dcases, ccases, tcases = collect(rep, tier, seed, model=True)
    rep.exhaustive_parts.append("every image length 0-300 for each of the four containers; every directive x source-name form x path form of the fixed lists")
    for c in (fcases[2], fcases[len(fcases) // 2]):
        rep.sample({"input": describe_format(c), "impl": {k: v for k, v in c["obs"].items() if k != "out"}})
    rep.sample({"directive": directive_line(dcases[3]["dir"], dcases[3]["path"], dcases[3]["tape"]), "source": dcases[3]["filename"], "emitted": dcases[3]["obs"].get("emitted")})
    tc = next((c for c in tcases if c["charset"] == "utf-8" and c["mode"] != "explicit"), tcases[0])
    rep.sample({"tape-name case": tape_input(tc), "emitted": tc["obs"].get("emitted"), "diags": tc["obs"].get("diags")})
    s_ = ccases[3]
    rep.sample({"argv": s_["obs"].get("argv"), "found": sorted(s_["obs"].get("found", {})), "exit": s_["obs"].get("exit")})


def search(rep, br, tier, seed):
    """model-free: the Spec readers (Run/C13Oracle.v) on what the real code returns / writes"""
    try:
        collect(rep, tier, seed + 1, model=False)
    except RuntimeError as ex:
        rep.notes.append("search: oracle evaluation failed: " + str(ex)[-400:])


search_without_model = lambda rep, tier, seed: None   # search() itself needs no model


def replay(data):
    """re-execute the recorded failing input on the current tree; True = the property holds now"""
    inp = data.get("input") or {}
    rep = C.Report(ID, "replay", data.get("seed", 0))
    t = inp.get("type")
    if t == "format":
        if inp.get("code_hex") is not None:
            code = bytes.fromhex(inp["code_hex"])
        elif inp.get("code_byte_if_constant") is not None:
            code = bytes([inp["code_byte_if_constant"]]) * inp["code_len"]
        else:
            print("replay: the image was too large to store and is not constant; sha1", inp.get("code_sha1"))
            return False
        c = {"type": "format", "kind": inp["kind"], "base": inp["base"], "code": code,
             "name": bytes.fromhex(inp["name_hex"]) if inp.get("name_hex") is not None else None, "full": True, "why": "replay"}
        run_format_cases([c])
        print("replay:", describe_format(c), "->", {k: v for k, v in c["obs"].items() if k != "out"})
        if c["obs"]["outcome"] in ("crash", "hang"):
            return False
        code_ = evaluate([(1, format_term(c, False))], False)[0]
        return not (code_ & 2)
    if t == "directive":
        c = dict(inp)
        run_directive_cases([c])
        print("replay:", directive_line(c["dir"], c["path"], c["tape"]), "in", c["filename"], "->", c["obs"].get("emitted"), c["obs"].get("diags"))
        if not directive_usable(c):
            return False
        return not (evaluate([(1, directive_term(c, False))], False)[0] & 2)
    if t == "tape":
        c = dict(inp)
        run_tape_cases([c])
        print("replay:", repr(tape_source(c)), "in", c["filename"], "charset", c["charset"], "->", c["obs"].get("emitted"), c["obs"].get("diags"))
        if not tape_usable(c):
            return False
        return not (evaluate([(1, tape_term(c, False))], False)[0] & 2)
    if t == "cli":
        s_ = dict(inp["scenario"])
        s_["bytes"] = bytes.fromhex(s_["bytes"])
        s_["sources"] = [(a, [tuple(x) for x in b]) for a, b in s_["sources"]]
        s_.setdefault("inc", [])
        run_cli_cases([s_], data.get("seed", 0))
        print("replay: argv", s_["obs"].get("argv"), "exit", s_["obs"].get("exit"), "found", sorted(s_["obs"].get("found", {})))
        if not cli_usable(s_):
            return False
        return not (evaluate([(1, cli_term(s_, s_["obs"], False))], False)[0] & 2)
    print("replay: unknown input type", t)
    return False

# session-7 addition to the claimed level (MANIFEST text only)
LEVEL_TEXT = LEVEL_TEXT + " " + "Props/R_container.v: the bin / raw / WAV containers of the reference assembler's image parse or demodulate back to (base, length, name, image, checksum) (partial: image bytes in 0..255 and image < 64 KiB are explicit hypotheses; the base range is proved)."
