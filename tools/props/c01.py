"""C01 -- machine-code fidelity of every instruction form (DESIGN 4 C01)."""
import random

import common as C
import impl
import insn_cases as IC

ID = "C01"
PROP_FILES = ["Props/C01.v"]
RUN_FILES = ["Run/C01Run.v"]
RULE = ("(1) exhaustive introspection: every object of pdpy11.insns.instructions (opcode_pattern, stub classes, pattern_char, "
        "bit_indexes, unsigned) against Model/Insns.v init_entry over the regenerated table, evaluated in coqc; "
        "(2) end to end through impl.assemble: every mnemonic x every source-level operand form its stub classes admit "
        "(8 modes x 8 registers with rN/sp/pc/%n/@rN/@(rN) spellings, X(rN), @X(rN), #X, @#X, relative, relative deferred, "
        "forward-referenced %sym and X, acN, inline numbers and branch targets at their limits) per operand position, plus forms "
        "that must be refused (%8, ac4/ac5 in a 2-bit field, values beyond 16 bits / the inline field, wrong operand class or count), "
        "at several link addresses incl. the top of memory; plus bare numeric local labels as branch/sob targets whose octal and decimal readings differ (10 17 20 77 100 010 12 8 15 64) with a decoy "
        "label carrying the other reading; plus a near-miss-name stream (labels/constants whose names start with or contain a "
        "register/accumulator name -- ac1buf ac10 ac5x ac ac6 r0x r8 r10 spx pcx sp1 xr0, both cases -- used as relative, @relative, #, @#, "
        "index base and parenthesised operands of CPU and FP11 instructions in every operand position: Spec says ordinary symbol), the same "
        "with symbols/labels named exactly ac0..ac5 (both cases, defined before/after/as label) in every operand position of CPU "
        "instructions, branches, inline numbers (ordinary symbol: Spec.token_acc), FP11 instructions (accumulator, shadowing the symbol) "
        "and .word/.byte (value) and a "
        "`.repeat N { insn }` stream with compound index expressions (a+b(Rn), @a+b(Rn), -a(Rn), ^Cx(Rn)) where every copy is judged, and address-dependent operands inside .repeat (relative, @relative, branch, sob to labels outside the "
        "block before/after it, absolute numbers, symbols, .+-k; counts 2..4, nested .repeat, a nop before the instruction, a body whose "
        "length varies between copies through .even; also immediate / absolute / index / inline-number operand expressions through / % << _ on "
        "<.-label>, which take a different value in every copy) where every copy is judged at the address its bytes occupy in the image; plus a linked-program stream: programs linked from 1..4 source files (thorough: 1..5) with the instruction in every file position and the referenced labels in every file (before / in / after the instruction's file; labels made global by `::`, `.extern names` or `.extern all`; default link base and .link 400/2000/4000/100000), whose operand is an integer EXPRESSION over label addresses -- label, label+-c, constant*label with the constant on the left and on the right of `*`, k*a+c, c+k*a, k*a-a, k*<a+c>, <a+c>*k, -k*a, -a, b-a, a+b, k*<b-a>, <b-a>*k, k*b-k*a, k*a+-b, a+k*b, -a+k*b, k*<a+b>, <a+b>*k (27 shapes) -- in every operand form that carries a word or displacement (#, @#, X(rN), @X(rN), relative, @relative, branch target); every number of files x instruction file x label file x operand form once, and every shape x operand form once; the expected value is computed with unbounded integers from the image layout (link base + sizes of the files before + offset in the file) and the instruction is judged at its image offset, the rest of the image must be zero and the total length exact; quick tier: each form of each position once with a seeded partner, "
        "thorough tier: full cross product of the canonical spellings for two-operand mnemonics. "
        "Each case carries the implementation's outcome and words; Coq judges correspondence (model = implementation) and the "
        "property (Spec.decode of the implementation's words = Spec.expect of the line, all words consumed; a line without "
        "denotation is refused). non-trivial = distinct (mnemonic, operand-form keys) with at least one operand")
LEVEL_TEXT = ("Coq theorems over the opcode table regenerated from architecture.py on every run: table_wf, encode_decode (independent "
              "PDP-11 decoder recovers the canonical operation and operands of every emitted instruction and consumes exactly its words; "
              "all operand values, targets and addresses are unbounded Z), accepted_iff_legal, rejected_is_error, field_range per stub "
              "(accumulator, inline number, register number, 16-bit word), synonyms (plain and push/pop/call/ret expansions), distinct. "
              "The opcode-word part is one vm_compute over all ~75k (entry, field values) pairs lifted by forallb_forall; extension "
              "words and displacements by structural lemmas with lia. The hand model of init()/compile_insn/get_opcode/stubs is tied by "
              "exhaustive introspection of the 252 Instruction objects and an end-to-end sweep of every mnemonic x operand form.")
LEVEL_NOTE = ("Trusted: Coq kernel + vm_compute, tools/translate.py + tools/gens/gen_insns.py, the sweep harness (operand printer in "
              "tools/insn_cases.py), Spec/PDP11.v (numeric opcode table; 1801VM2/LSI-11/maintenance rows have no source independent of "
              "the repository). The classification of token trees into operand forms (hoist, isinstance cascade) is modelled in Model/Classify.v "
              "(theorems C01_classify_*: total, sound and complete w.r.t. the written forms, expression-opaque) and tied by tools/classify_corr.py "
              "(direct drive of the real encode with eager Deferred computation disabled in the harness, plus end to end); get_opcode / indexes_of_char "
              "are regenerated from the AST (gen_pure2) and proved equal to the model (T_insns2). In the linked-program stream the addresses of labels and the integer value of the operand expression are computed by the harness (plain unbounded integer arithmetic over the file layout it generated itself: an independent restatement used to state the abstract operand); Coq then judges Spec.decode of the emitted words against Spec.expect of that operand. Placement of linked files and expression arithmetic as such are C02/C16 and C05/C09 subjects; here they are exercised only through instruction operands. An explicitly written (pc)+/@(pc)+ is outside encode_decode (C01_pc_autoinc_partial). "
              "Print Assumptions: closed under the global context for every theorem.")
TECHNIQUE = "Coq proof over regenerated table (exhaustive vm_compute + structural lemmas) + exhaustive model/implementation correspondence"
ASSUME = ["an abstract operand OAcc n stands for the token acN in a floating position or with no user symbol of that name defined; a defined "
          "symbol named acN elsewhere is represented as the ordinary expression (Spec.token_acc, mirrored by the sweep's printer)",
          "pdpy11's 'signed' inline number convention (-2^n < v < 2^n, stored mod 2^n) for emt/trap and 16-bit operand values is intended",
          "the 1801VM2 / LSI-11 / maintenance opcodes in Spec/PDP11.v are as in the repository (no independent source)"]
TRUSTED = ["tools/insn_cases.py: printer from abstract operands to source text", "tools/classify_corr.py: token -> optree converter and the lazy-construct patch of Deferred used while driving encode", "tools/gens/gen_pure2.py: state-passing translator (loops, list/dict mutation)", "tools/gens/gen_insns.py: source-shape pins of insns.py"]

REQ = "Spec.PDP11 Run.C01Run"
PRE = "Open Scope string_scope.\nOpen Scope Z_scope."
ADDRS = [0o1000, 0, 0o100, 0o177770, 0o77776]


def core(forms, rng):
    """one spelling per abstract shape; used for cross products"""
    seen, out = {}, []
    for f in forms:
        ctor = f.op[0]
        if ctor in ("OReg", "ORegDef", "OAutoInc", "OAutoIncDef", "OAutoDec", "OAutoDecDef", "OAcc"):
            k = (ctor, f.op[1], f.late)
            lim = 1
        elif ctor in ("OIndex", "OIndexDef"):
            k = (ctor, f.op[2], f.late)
            lim = 1
        else:
            k = (ctor,)
            lim = 3
        if seen.get(k, 0) < lim:
            seen[k] = seen.get(k, 0) + 1
            out.append(f)
    return out


def build_cases(intro, rng, tier, big=False):
    cases = []
    thorough = tier == "thorough" or big
    for name, _pat, stubs in intro:
        n = len(stubs)
        addrs = ADDRS if thorough else [rng.choice(ADDRS)]
        if n == 0:
            for a in ADDRS[:2] if not thorough else ADDRS:
                cases.append(IC.Case(name, [], a))
            cases.append(IC.Case(name, [IC.Form(("OReg", 0), "r0")], 0o1000))
        elif n == 1:
            for a in addrs[:2]:
                for f in IC.forms_for_stub(stubs[0], rng, 0, a, full=True):
                    cases.append(IC.Case(name, [f], a))
            cases.append(IC.Case(name, [], 0o1000))
            cases.append(IC.Case(name, [IC.Form(("OReg", 1), "r1"), IC.Form(("OReg", 2), "r2")], 0o1000))
        elif n == 2:
            a = addrs[0]
            f1s = IC.forms_for_stub(stubs[0], rng, 0, a, full=True)
            f2s = IC.forms_for_stub(stubs[1], rng, 1, a, full=True)
            for f1 in f1s:
                cases.append(IC.Case(name, [f1, rng.choice(f2s)], a))
            for f2 in f2s:
                cases.append(IC.Case(name, [rng.choice(f1s), f2], a))
            if thorough:
                a2 = rng.choice(ADDRS)
                c1 = core(IC.forms_for_stub(stubs[0], rng, 0, a2, full=False), rng)
                c2 = core(IC.forms_for_stub(stubs[1], rng, 1, a2, full=False), rng)
                for f1 in c1:
                    for f2 in c2:
                        cases.append(IC.Case(name, [f1, f2], a2))
            cases.append(IC.Case(name, [f1s[0]], a))
            cases.append(IC.Case(name, [f1s[0], f2s[0], IC.Form(("OReg", 3), "r3")], a))
        else:
            raise RuntimeError(f"{name}: {n} operands")
    for c in cases:
        c.src = IC.make_source(c.m, c.forms, c.addr, rng)
    return cases


# ------------------------------------------------------------------------------------------------
# programs of more than one line: the instruction's words are a slice of the image
class SlicedCase(IC.Case):
    """instruction at image offset `off`, `ilen` bytes long, image `total` bytes; the rest must be zero"""
    __slots__ = ("off", "ilen", "total", "kind")

    def term(self):
        r = self.res
        if r["outcome"] == "ok":
            b = bytes.fromhex(r["code"])
            pad_ok = self.kind.startswith("repeat") or (not any(b[:self.off]) and not any(b[self.off + self.ilen:]))
            if len(b) == self.total and pad_ok:
                b = b[self.off:self.off + self.ilen]
            # otherwise the whole image is judged (wrong length or stray bytes: decode cannot consume exactly)
            obs = "ObsCrash" if len(b) % 2 else "ObsOk " + C.zlist([b[i] | (b[i + 1] << 8) for i in range(0, len(b), 2)])
        else:
            obs = "ObsFail" if r["outcome"] == "failed" else "ObsCrash"
        return "(%s, %s, %s, %s)" % (C.coq_str(self.m), IC.coq_ops(self.ops), C.zlit(self.addr), obs)

    def key(self):
        return (self.kind, self.m) + tuple(f.key for f in self.forms) + (self.addr,)

    def describe(self):
        d = IC.Case.describe(self)
        d["slice"] = {"off": self.off, "ilen": self.ilen, "total": self.total, "kind": self.kind}
        return d


EXT_CTORS = ("OIndex", "OIndexDef", "OImm", "OAbs", "ORel", "ORelDef")


def insn_len(stubs, ops):
    n = 2
    for st, o in zip(stubs, ops):
        if st[0] in ("RegisterModeOperandStub", "FP11RMOperandStub") and o[0] in EXT_CTORS:
            n += 2
    return n


# names that merely start with / contain a register or accumulator name: ordinary symbols
# symbols named exactly like accumulators: accumulators only in floating positions (Spec.token_acc)
ACC_NAMED = ["ac0", "ac1", "ac2", "ac3", "ac4", "ac5", "AC3", "Ac1", "aC5"]
NEAR_MISS = ["ac1buf", "ac10", "ac5x", "ac0x", "ac4z", "ac3tmp", "ac", "ac6", "ac7", "r0x", "r8", "r10", "r77", "spx", "pcx", "sp1", "pc0",
             "xr0", "xac1", "AC1BUF", "Ac2x", "R0X", "SPX", "R8", "AC10"]


def near_miss_forms(name, v, r, stub_cls=None):
    """memory operands built on the symbol `name` whose value is v.  A symbol named acN written bare is the
    accumulator where the stub is a floating one and the ordinary symbol elsewhere (mirror of Spec.token_acc)"""
    bare = ("ORel", v)
    if name.lower() in ACC_NAMED[:6] and stub_cls in ("FP11RMOperandStub", "FP11AccumulatorOperandStub"):
        bare = ("OAcc", int(name[2]))
    return [IC.Form(bare, name, key="nm:rel"), IC.Form(("ORelDef", v), "@" + name, key="nm:@rel"),
            IC.Form(("OImm", v), "#" + name, key="nm:#"), IC.Form(("OAbs", v), "@#" + name, key="nm:@#"),
            IC.Form(("OIndex", v, r), "%s(%s)" % (name, IC.REGNAMES[r]), key="nm:X(r)"),
            IC.Form(("OIndexDef", v, r), "@%s(%s)" % (name, IC.REGNAMES[r]), key="nm:@X(r)"),
            IC.Form(("ORel", v), "(%s)" % name, key="nm:(rel)"),
            IC.Form(("ORel", v + 2), name + "+2", key="nm:rel+2")]


NEAR_MISS_MNEMONICS = ["clr", "tst", "jmp", "mov", "cmp", "add", "movb", "jsr", "xor", "mul", "ash", "rts", "sob", "emt", "br",
                       "tstf", "clrd", "absf", "negd", "ldf", "ldd", "addf", "mulf", "cmpf", "cmpd", "divf", "ldcfd", "stf", "std", "stcfd",
                       "stexp", "stcfi", "ldexp", "ldcif", "ldfps", "push", "pop", "call"]


def partner_form(stub, rng, addr):
    cls = stub[0]
    if cls == "RegisterOperandStub":
        return IC.Form(("OReg", 2), "r2")
    if cls == "FP11AccumulatorOperandStub":
        n = rng.randrange(4)
        return IC.Form(("OAcc", n), "ac%d" % n)
    if cls == "FP11RMOperandStub":
        return rng.choice([IC.Form(("OAcc", 1), "ac1"), IC.Form(("ORegDef", 3), "(r3)"), IC.Form(("OImm", 7), "#7")])
    if cls == "RegisterModeOperandStub":
        return rng.choice([IC.Form(("OReg", 1), "r1"), IC.Form(("OAutoInc", 4), "(r4)+"), IC.Form(("OImm", 9), "#11"), IC.Form(("OIndex", 4, 5), "4(r5)")])
    if cls == "OffsetOperandStub":
        return IC.Form(("ORel", addr), ".")
    return IC.Form(("ORel", 1), "1")


def near_miss_cases(intro, rng, tier):
    by = {n: st for n, _p, st in intro}
    cases = []
    for m in NEAR_MISS_MNEMONICS:
        if m not in by:
            continue
        stubs = by[m]
        for pos in range(len(stubs)):
            names = NEAR_MISS if tier == "thorough" else rng.sample(NEAR_MISS[:19], 9) + rng.sample(NEAR_MISS[19:], 2)
            names = names + (ACC_NAMED if tier == "thorough" else rng.sample(ACC_NAMED[:6], 4) + rng.sample(ACC_NAMED[6:], 1))
            for name in names:
                r = rng.randrange(7)
                base = rng.choice([0o1000, 0o400, 0o100000])
                how = rng.choice(["const-before", "const-after", "label"])
                pad = rng.choice([2, 4, 10]) if how == "label" else 0
                addr = base + pad
                if stubs[pos][0] == "OffsetOperandStub":
                    v = addr + 2 + rng.choice([-4, 0, 6])
                    how, pad, addr = "const-after", 0, base
                elif stubs[pos][0] == "ImmediateOperandStub":
                    v = rng.randrange(1 << len(stubs[pos][2]))
                    how, pad, addr = "const-before", 0, base
                else:
                    v = base if how == "label" else rng.choice([0o100, 0o1000, 0o177776, 4, 0o2002])
                forms = near_miss_forms(name, v, r, stubs[pos][0])
                if tier != "thorough":
                    forms = [forms[0]] + rng.sample(forms[1:], 3)
                for f in forms:
                    fs = [partner_form(st, rng, addr) for st in stubs]
                    fs[pos] = f
                    c = SlicedCase(m, fs, addr)
                    c.kind = "near-miss:" + name
                    c.off, c.ilen = pad, insn_len(stubs, [x.op for x in fs])
                    c.total = pad + c.ilen
                    line = m + " " + ", ".join(x.text for x in fs)
                    if how == "label":
                        lines = [".link " + IC.octnum(base), name + ": .blkb " + IC.num(pad), line]
                    elif how == "const-before":
                        lines = [".link " + IC.octnum(base), "%s = %s" % (name, IC.octnum(v)), line]
                    else:
                        lines = [".link " + IC.octnum(base), line, "%s = %s" % (name, IC.num(v))]
                    c.src = "\n".join(lines) + "\n"
                    cases.append(c)
    return cases


def acc_named_data(rep, rng):
    """symbols named ac0..ac5 in data directives are ordinary symbols: .word / .byte store their value.
    (directives are C06's; this only makes sure the accumulator names do not leak into expressions)"""
    jobs, meta = [], []
    for name in ACC_NAMED:
        v = rng.choice([5, 0o1234, 0o177776, 0o200])
        for how in ("before", "after", "label"):
            for d, width in ((".word", 2), (".byte", 1), (".word 1 +", 2)):
                if width == 1 and v > 255:
                    continue
                if how == "label":
                    src, val, skip = "%s: %s %s\n" % (name, d, name), 0o1000, 0
                    if width == 1:
                        continue
                elif how == "before":
                    src, val, skip = "%s = %o\n%s %s\n" % (name, v, d, name), v, 0
                else:
                    src, val, skip = "%s %s\n%s = %o\n" % (d, name, name, v), v, 0
                if d.endswith("+"):
                    val += 1
                jobs.append((([("t.mac", src)],), {}))
                meta.append((src, val & (0xFFFF if width == 2 else 0xFF), width))
    outs = impl.pmap("assemble", jobs)
    for (src, val, width), o in zip(meta, outs):
        rep.add_eval()
        rep.count("e2e:acc-named-data")
        want = val.to_bytes(width, "little").hex()
        if o["outcome"] != "ok" or o["code"] != want:
            rep.violate("acc-named-data:" + src.replace("\n", "/"), "a symbol named like an accumulator used in a data directive does not yield its value",
                        {"files": [["t.mac", src]], "expected_code": want, "impl": {k: o.get(k) for k in ("outcome", "code", "crash")}})


# `.repeat 2 { insn }` around compound index expressions: both copies must be the same instruction
def repeat_cases(intro, rng, tier):
    by = {n: st for n, _p, st in intro}
    cases = []
    a, b, x = 0o100, 6, 5
    exprs = [("tbl+%o(%s)" % (b, "%s"), "OIndex", a + b), ("@tbl+%o(%s)" % (b, "%s"), "OIndexDef", a + b),
             ("tbl-2(%s)", "OIndex", a - 2), ("-tbl(%s)", "OIndex", -a), ("@-tbl(%s)", "OIndexDef", -a),
             ("^Cxx(%s)", "OIndex", -x - 1), ("@^Cxx(%s)", "OIndexDef", -x - 1), ("tbl+xx+2(%s)", "OIndex", a + x + 2),
             ("-tbl+2(%s)", "OIndex", -a + 2), ("tbl*2+2(%s)", "OIndex", 2 * a + 2), ("tbl(%s)", "OIndex", a)]
    for m in ["mov", "cmp", "add", "clr", "tst", "jsr", "mul", "ldf", "stf", "tstf", "push", "pop"]:
        if m not in by:
            continue
        stubs = by[m]
        for pos, st in enumerate(stubs):
            if st[0] not in ("RegisterModeOperandStub", "FP11RMOperandStub"):
                continue
            for text, ctor, val in exprs:
                r = rng.randrange(8)
                count = rng.choice([2, 3])
                base = rng.choice([0o1000, 0o2000])
                fs = [partner_form(s2, rng, base) for s2 in stubs]
                fs[pos] = IC.Form((ctor, val, r), text % IC.REGNAMES[r], key="rep:" + text)
                ilen = insn_len(stubs, [f.op for f in fs])
                src = ".link %s\ntbl = %o\nxx = %o\n.repeat %d { %s %s }\n" % (IC.octnum(base), a, x, count, m, ", ".join(f.text for f in fs))
                for k in range(count):
                    c = SlicedCase(m, fs, base + k * ilen)
                    c.kind = "repeat:copy%d" % k
                    c.off, c.ilen, c.total = k * ilen, ilen, count * ilen
                    c.src = src
                    cases.append(c)
    return cases


# address-dependent operands inside .repeat: every copy is judged at the address where its bytes lie in the image
REPEAT_ATOMS = [("clr", "R"), ("tst", "@R"), ("jmp", "R"), ("mov", "R,r"), ("mov", "#,R"), ("mov", "r,@R"), ("cmp", "R,R"), ("add", "X,@R"),
                ("jsr", "reg,R"), ("xor", "reg,@R"), ("mul", "R,reg"), ("ldf", "R,ac"), ("stf", "ac,@R"), ("tstf", "R"), ("ldexp", "R,ac"),
                ("push", "R"), ("pop", "@R"), ("call", "R"), ("br", "B"), ("bne", "B"), ("bcs", "B"), ("blos", "B"), ("sob", "reg,B"),
                # operand EXPRESSIONS through non-pure operators (/ % << _) on something that depends on `.`: a different value in every copy
                ("mov", "#E,r"), ("add", "#E,R"), ("mov", "@#E,r"), ("clr", "XE"), ("cmp", "r,#E"), ("emt", "NE"), ("trap", "NE"), ("sys", "NE")]
EXPR_OPS = [("/2", lambda v: v // 2), ("%10", lambda v: v % 8), ("<<2", lambda v: v * 4), ("_1", lambda v: v * 2), ("/2+1", lambda v: v // 2 + 1), ("*3/2", lambda v: v * 3 // 2)]
REPEAT_BODIES = ["plain", "nop-before", "even-varying", "nested", "nested-nop"]


def repeat_positions(body, p, n, m2, ilen):
    """image offsets of the copies of the instruction, and the offset just behind the block"""
    pos, out = p, []
    if body == "plain":
        out = [p + j * ilen for j in range(n)]
        pos = p + n * ilen
    elif body == "nop-before":
        out = [p + j * (ilen + 2) + 2 for j in range(n)]
        pos = p + n * (ilen + 2)
    elif body == "even-varying":        # .even / insn / .byte 1, 2, 3 : copies after the first start at an odd address
        for _ in range(n):
            pos += pos % 2
            out.append(pos)
            pos += ilen + 3
    elif body == "nested":
        out = [p + (j * m2 + i) * ilen for j in range(n) for i in range(m2)]
        pos = p + n * m2 * ilen
    elif body == "nested-nop":
        out = [p + j * (2 + m2 * ilen) + 2 + i * ilen for j in range(n) for i in range(m2)]
        pos = p + n * (2 + m2 * ilen)
    return out, pos


def repeat_addr_cases(intro, rng, tier):
    by = {n: st for n, _p, st in intro}
    cases = []
    per = 2 if tier == "quick" else 10
    for m, shape in REPEAT_ATOMS:
        if m not in by:
            continue
        stubs = by[m]
        for body in REPEAT_BODIES:
            for _ in range(per):
                base = rng.choice([0o1000, 0o2000, 0o400, 0o100000])
                link = rng.random() < 0.7
                if not link:
                    base = 0o1000
                p = rng.choice([2, 4, 10, 40])
                n = rng.choice([2, 3, 4])
                m2 = rng.choice([2, 3])
                parts = shape.split(",")
                nwords = 1 + sum(1 for q in parts if q in ("R", "@R", "#", "X", "#E", "@#E", "XE"))
                ilen = 2 * nwords
                offs, end = repeat_positions(body, p, n, m2, ilen)
                end += end % 2
                total = end + 2
                out2 = base + end
                # per-operand: text and a function copy address -> abstract operand
                texts, mk, fardefs = [], [], []
                for q in parts:
                    if q in ("R", "@R", "B"):
                        sp = rng.choice(["out1", "out1+k", "out2", "abs", "dot", "sym"] if q != "B" else ["out1", "out1+k", "out2", "dot", "sym"])
                        if m == "sob" and sp == "out2":
                            sp = "out1"
                        ctor = "ORelDef" if q == "@R" else "ORel"
                        at = "@" if q == "@R" else ""
                        if sp == "out1":
                            texts.append(at + "out1"); mk.append(lambda a, c=ctor, t=base: (c, t))
                        elif sp == "out1+k":
                            k = rng.choice([2, -2, 6]) if q == "B" else rng.choice([2, -2, 0o100, 1])
                            texts.append(at + "out1" + ("+%s" % IC.num(k) if k > 0 else "-%s" % IC.num(-k))); mk.append(lambda a, c=ctor, t=base + k: (c, t))
                        elif sp == "out2":
                            texts.append(at + "out2"); mk.append(lambda a, c=ctor, t=out2: (c, t))
                        elif sp == "abs":
                            t = rng.choice([0o100, 0o60, 0o177716, 0, 0o2002])
                            texts.append(at + IC.octnum(t)); mk.append(lambda a, c=ctor, t=t: (c, t))
                        elif sp == "sym":
                            t = base + rng.choice([0, 2]) if q == "B" else rng.choice([0o100, 0o177776, base + 6])
                            name = "far%d" % len(texts)
                            texts.append(at + name); mk.append(lambda a, c=ctor, t=t: (c, t))
                            fardefs.append("%s = %s" % (name, IC.octnum(t)))
                        else:   # '.' is the address of the copy itself
                            k = rng.choice([0, 2, -2, 4]) if q == "B" else rng.choice([0, 2, 6, -4, 0o100])
                            if m == "sob":
                                k = rng.choice([0, 2, -2])
                            texts.append(at + ("." if k == 0 else (".+%s" % IC.num(k) if k > 0 else ".-%s" % IC.num(-k)))); mk.append(lambda a, c=ctor, k=k: (c, a + k))
                    elif q in ("#E", "@#E", "XE", "NE"):
                        optxt, fn = rng.choice(EXPR_OPS[:2] if q == "NE" else EXPR_OPS)
                        e = "<.-out1>" + optxt
                        if q == "#E":
                            texts.append("#" + e); mk.append(lambda a, fn=fn: ("OImm", fn(a - base)))
                        elif q == "@#E":
                            texts.append("@#" + e); mk.append(lambda a, fn=fn: ("OAbs", fn(a - base)))
                        elif q == "XE":
                            r = rng.randrange(7); texts.append("%s(%s)" % (e, IC.REGNAMES[r])); mk.append(lambda a, fn=fn, r=r: ("OIndex", fn(a - base), r))
                        else:
                            texts.append(e); mk.append(lambda a, fn=fn: ("ORel", fn(a - base)))
                    elif q == "r":
                        r = rng.randrange(6); texts.append("(%s)+" % IC.REGNAMES[r]); mk.append(lambda a, r=r: ("OAutoInc", r))
                    elif q == "#":
                        v = rng.choice(IC.VAL16[:8]); texts.append("#" + IC.num(v)); mk.append(lambda a, v=v: ("OImm", v))
                    elif q == "X":
                        v, r = rng.choice(IC.VAL16[:8]), rng.randrange(7); texts.append("%s(%s)" % (IC.num(v), IC.REGNAMES[r])); mk.append(lambda a, v=v, r=r: ("OIndex", v, r))
                    elif q == "reg":
                        r = rng.randrange(8); texts.append(IC.REGNAMES[r]); mk.append(lambda a, r=r: ("OReg", r))
                    elif q == "ac":
                        k = rng.randrange(4); texts.append("ac%d" % k); mk.append(lambda a, k=k: ("OAcc", k))
                line = m + " " + ", ".join(texts)
                inner = {"plain": line, "nop-before": "nop\n" + line, "even-varying": ".even\n" + line + "\n.byte 1, 2, 3",
                         "nested": ".repeat %d { %s }" % (m2, line), "nested-nop": "nop\n.repeat %d { %s }" % (m2, line)}[body]
                src = ([".link " + IC.octnum(base)] if link else []) + fardefs + \
                      ["out1: .blkb " + IC.num(p), ".repeat %d {" % n, inner, "}", ".even", "out2: .blkb 2"]
                src = "\n".join(src) + "\n"
                for j, off in enumerate(offs):
                    addr = base + off
                    forms = [IC.Form(f(addr), t, key="rep:%s:%s" % (body, t)) for f, t in zip(mk, texts)]
                    c = SlicedCase(m, forms, addr)
                    c.kind = "repeat-addr:%s:n%d:copy%d" % (body, n, j)
                    c.off, c.ilen, c.total = off, ilen, total
                    c.src = src
                    cases.append(c)
    return cases


# bare numeric local labels as branch / sob targets: the label is the one whose NAME is the written digits;
# a decoy label carries the other (octal/decimal) reading of the same digits
NUM_LABELS = [("10", "8"), ("17", "15"), ("20", "16"), ("77", "63"), ("100", "64"), ("010", "8"), ("12", "10"), ("8", "10"), ("15", "17"), ("64", "100")]


def numlabel_cases(intro, rng, tier):
    cases = []
    for m, _pat, stubs in intro:
        cl = [(st[0], st[3]) for st in stubs]
        sob = cl == [("RegisterOperandStub", False), ("OffsetOperandStub", True)]
        if not sob and cl != [("OffsetOperandStub", False)]:
            continue
        pairs = NUM_LABELS if tier == "thorough" else rng.sample(NUM_LABELS, 4)
        for name, decoy in pairs:
            for fwd in ((False,) if sob else (False, True)):
                base = rng.choice([0o1000, 0o2000, 0o100000])
                g, n = rng.choice([2, 4, 8]), rng.choice([0, 2, 6, 20])
                reg = rng.randrange(8)
                line = m + " " + (("r%d, " % reg) if sob else "") + name
                blk = lambda k: (" .blkb " + IC.num(k)) if k else ""
                decoy_first = rng.random() < 0.5
                if not fwd:
                    if decoy_first:
                        lines, tgt, off = [decoy + ":" + blk(g), name + ":" + blk(n), line], base + g, g + n
                    else:
                        lines, tgt, off = [name + ":" + blk(g), decoy + ":" + blk(n), line], base, g + n
                    total = off + 2
                else:
                    if decoy_first:
                        lines, tgt = [line, decoy + ":" + blk(g), name + ":" + blk(2)], base + 2 + g
                        total = 2 + g + 2
                    else:
                        lines, tgt = [line, ".blkb " + IC.num(n + 2), name + ":" + blk(g), decoy + ":"], base + 2 + n + 2
                        total = 2 + n + 2 + g
                    off = 0
                forms = ([IC.Form(("OReg", reg), "r%d" % reg)] if sob else []) + [IC.Form(("ORel", tgt), name, key="num:%s/%s:%s" % (name, decoy, "fwd" if fwd else "back"))]
                c = SlicedCase(m, forms, base + off)
                c.kind = "numlabel"
                c.off, c.ilen, c.total = off, 2, total
                c.src = "\n".join([".link " + IC.octnum(base)] + lines) + "\n"
                cases.append(c)
    return cases


# ------------------------------------------------------------------------------------------------
# programs LINKED from 1..4 source files, operand EXPRESSIONS over label addresses.
# The operand value is an integer expression over the addresses of two labels a (l<j>) and b (m<j>) that may lie in any
# file of the program (before / in / after the file that holds the instruction): label, label+c, a constant times a label
# with the constant on the LEFT and on the RIGHT of '*', scaled sums and differences of labels, bracketed with <>.
# The expected value is computed here with unbounded integers from the image layout (link base + sizes of the files before
# + offset in the file); Coq judges Spec.decode of the emitted words against Spec.expect of the operand carrying that value.
class LinkedCase(SlicedCase):
    __slots__ = ("files",)

    def describe(self):
        d = SlicedCase.describe(self)
        d["files"] = [list(f) for f in self.files]
        return d


LINK_SHAPES = [  # key, text over {a} {b} {k} {c}, value(A, B, k, c), uses b
    ("a", "{a}", lambda A, B, k, c: A, False),
    ("a+c", "{a}+{c}", lambda A, B, k, c: A + c, False),
    ("a-c", "{a}-{c}", lambda A, B, k, c: A - c, False),
    ("k*a", "{k}*{a}", lambda A, B, k, c: k * A, False),
    ("a*k", "{a}*{k}", lambda A, B, k, c: A * k, False),
    ("k*a+c", "{k}*{a}+{c}", lambda A, B, k, c: k * A + c, False),
    ("c+k*a", "{c}+{k}*{a}", lambda A, B, k, c: c + k * A, False),
    ("a*k+c", "{a}*{k}+{c}", lambda A, B, k, c: A * k + c, False),
    ("k*a-a", "{k}*{a}-{a}", lambda A, B, k, c: k * A - A, False),
    ("a*k-a", "{a}*{k}-{a}", lambda A, B, k, c: A * k - A, False),
    ("k*<a+c>", "{k}*<{a}+{c}>", lambda A, B, k, c: k * (A + c), False),
    ("<a+c>*k", "<{a}+{c}>*{k}", lambda A, B, k, c: (A + c) * k, False),
    ("-k*a", "-{k}*{a}", lambda A, B, k, c: -k * A, False),
    ("-a", "-{a}", lambda A, B, k, c: -A, False),
    ("b-a", "{b}-{a}", lambda A, B, k, c: B - A, True),
    ("a+b", "{a}+{b}", lambda A, B, k, c: A + B, True),
    ("k*<b-a>", "{k}*<{b}-{a}>", lambda A, B, k, c: k * (B - A), True),
    ("<b-a>*k", "<{b}-{a}>*{k}", lambda A, B, k, c: (B - A) * k, True),
    ("k*<b-a>+c", "{k}*<{b}-{a}>+{c}", lambda A, B, k, c: k * (B - A) + c, True),
    ("k*b-k*a", "{k}*{b}-{k}*{a}", lambda A, B, k, c: k * B - k * A, True),
    ("k*a+b", "{k}*{a}+{b}", lambda A, B, k, c: k * A + B, True),
    ("a+k*b", "{a}+{k}*{b}", lambda A, B, k, c: A + k * B, True),
    ("k*a-b", "{k}*{a}-{b}", lambda A, B, k, c: k * A - B, True),
    ("a*k-b", "{a}*{k}-{b}", lambda A, B, k, c: A * k - B, True),
    ("-a+k*b", "-{a}+{k}*{b}", lambda A, B, k, c: -A + k * B, True),
    ("k*<a+b>", "{k}*<{a}+{b}>", lambda A, B, k, c: k * (A + B), True),
    ("<a+b>*k", "<{a}+{b}>*{k}", lambda A, B, k, c: (A + B) * k, True),
]
LINK_BRANCH_SHAPES = ("a", "a+c", "a-c")
LINK_WRAPS = [("#", "#%s", "OImm"), ("@#", "@#%s", "OAbs"), ("X(r)", "%s(%s)", "OIndex"), ("@X(r)", "@%s(%s)", "OIndexDef"),
              ("rel", "%s", "ORel"), ("@rel", "@%s", "ORelDef"), ("B", "%s", "ORel")]
LINK_MNEMONICS = [("mov", 0), ("mov", 1), ("cmp", 0), ("cmp", 1), ("add", 0), ("bis", 1), ("movb", 0), ("clr", 0), ("tst", 0), ("jmp", 0),
                  ("jsr", 1), ("mul", 0), ("xor", 1), ("ldf", 0), ("stf", 1), ("tstf", 0), ("push", 0), ("pop", 0), ("call", 0)]
LINK_BASES = [None, None, 0o400, 0o2000, 0o4000, 0o100000]


def linked_case(by, rng, nf, fi, la, lb, wrap, shape):
    """one program of nf files; instruction in file fi, label a = l<la> in file la, label b = m<lb> in file lb"""
    wkey, wtext, ctor = wrap
    skey, stext, sval, _uses_b = shape
    for _try in range(20):
        base = rng.choice(LINK_BASES)
        b0 = 0o1000 if base is None else base
        if wkey == "B":
            m, pos = rng.choice(["br", "bne", "bcs", "bge", "blos"]), 0
        else:
            m, pos = rng.choice([x for x in LINK_MNEMONICS if x[0] in by])
        stubs = by[m]
        r = rng.randrange(7)
        k = rng.choice([2, 3, 5])
        c = rng.choice([2, 4, 6, 0o20]) if wkey == "B" else rng.choice([1, 2, 3, 6, 0o100])
        # the layout of every file: items are ("blk", n) | ("lab", name) | ("insn",)
        layouts, decls = [], []
        for j in range(nf):
            items = []
            p = rng.choice([0, 2, 4, 10])
            if p:
                items.append(("blk", p))
            for name in rng.sample(["l%d" % j, "m%d" % j], 2):
                items += [("lab", name), ("blk", rng.choice([2, 4, 6]))]
            if j == fi:
                items.insert(rng.randrange(len(items) + 1), ("insn",))
            referenced = j in (la, lb)
            decls.append(rng.choice(["::", ".extern names", ".extern all"] + (["plain"] if (not referenced or (j == fi and nf == 1)) else [])))
            layouts.append(items)
        # first pass: the instruction's length does not depend on the values
        fs = [partner_form(st, rng, b0) for st in stubs]
        fs[pos] = IC.Form((ctor, 0, r) if ctor.startswith("OIndex") else (ctor, 0), "x")
        ilen = insn_len(stubs, [f.op for f in fs])
        addr_of, start, insn_off = {}, 0, None
        for j, items in enumerate(layouts):
            o = start
            for it in items:
                if it[0] == "blk":
                    o += it[1]
                elif it[0] == "lab":
                    addr_of[it[1]] = b0 + o
                else:
                    insn_off = o
                    o += ilen
            start = o
        total = start
        A, B = addr_of["l%d" % la], addr_of["m%d" % lb]
        v = sval(A, B, k, c)
        addr = b0 + insn_off
        if not -0o200000 < v < 0o200000:
            continue
        if wkey == "B" and not (-250 <= v - (addr + 2) <= 250 and v % 2 == 0):
            continue
        nk, nc = rng.choice([IC.num, IC.octnum])(k), rng.choice([IC.num, IC.octnum])(c)
        e = stext.format(a="l%d" % la, b="m%d" % lb, k=nk, c=nc)
        text = wtext % ((e, IC.REGNAMES[r]) if ctor.startswith("OIndex") else e)
        fs[pos] = IC.Form((ctor, v, r) if ctor.startswith("OIndex") else (ctor, v), text, key="link:%s:%s" % (wkey, skey))
        line = m + " " + ", ".join(f.text for f in fs)
        files = []
        for j, (items, decl) in enumerate(zip(layouts, decls)):
            lines = []
            if j == 0 and base is not None:
                lines.append(".link " + IC.octnum(base))
            if decl == ".extern all":
                lines.append(".extern all")
            elif decl == ".extern names":
                lines.append(".extern l%d, m%d" % (j, j))
            for it in items:
                if it[0] == "blk":
                    lines.append(".blkb " + IC.num(it[1]))
                elif it[0] == "lab":
                    lines.append(it[1] + ("::" if decl == "::" else ":"))
                else:
                    lines.append(line)
            files.append(("f%d.mac" % j, "\n".join(lines) + "\n"))
        cs = LinkedCase(m, fs, addr)
        cs.kind = "linked:files%d:insn-in-%d:a-in-%d:b-in-%d" % (nf, fi, la, lb)
        cs.off, cs.ilen, cs.total = insn_off, ilen, total
        cs.files = files
        cs.src = "".join("; --- %s\n%s" % f for f in files)
        return cs
    return None


def linked_cases(intro, rng, tier):
    by = {n: st for n, _p, st in intro}
    shapes = {s[0]: s for s in LINK_SHAPES}
    cases = []
    reps = 1 if tier == "quick" else 4
    # (i) every number of files x file of the instruction x file of the label, in every operand form that carries a word / a displacement
    for nf in range(1, 5 if tier == "quick" else 6):
        for fi in range(nf):
            for la in range(nf):
                for wrap in LINK_WRAPS:
                    for _ in range(reps):
                        sh = shapes[rng.choice(LINK_BRANCH_SHAPES)] if wrap[0] == "B" else rng.choice(LINK_SHAPES)
                        cases.append(linked_case(by, rng, nf, fi, la, rng.randrange(nf), wrap, sh))
    # (ii) every expression shape x every operand form, in programs of 1..4 files
    for sh in LINK_SHAPES:
        for wrap in LINK_WRAPS:
            if wrap[0] == "B" and sh[0] not in LINK_BRANCH_SHAPES:
                continue
            for _ in range(reps):
                nf = rng.choice([1, 2, 3, 3, 4])
                cases.append(linked_case(by, rng, nf, rng.randrange(nf), rng.randrange(nf), rng.randrange(nf), wrap, sh))
    return [c for c in cases if c is not None]


def judge_cases(rep, cases, what):
    terms = [c.term() for c in cases]
    shards = C.shard(terms, 500)
    codes = C.run_case_files(ID, REQ, PRE, shards, judge_expr="map judge cases")
    flat = [x for sh in codes for x in sh]
    assert len(flat) == len(cases), (len(flat), len(cases))
    nviol = 0
    for c, code in zip(cases, flat):
        if code & 1:
            rep.disagree(what + ": Model.Insns.compile_insn vs impl.assemble", c.describe())
        if code & 2:
            nviol += 1
            o = c.res["outcome"]
            if o == "ok":
                msg = "the emitted words do not decode (Spec/PDP11.decode) to the operation and operands the line denotes, or the line has no denotation and was accepted"
            elif o == "failed":
                msg = "a legal instruction form was refused"
            else:
                msg = "the assembler crashed or hung on a one-instruction program"
            rep.violate("insn:" + ":".join(str(k) for k in c.key()) + ":" + o, msg + " (judged in Coq: Run.C01Run.prop_insn)", c.describe(),
                        replay="assemble input.files; ./check C01 --replay <this file>")
    return nviol


def explore(rep, br, tier, seed):
    rng = random.Random(seed)
    intro = IC.introspect()
    # (1) introspection, exhaustive
    terms = [IC.intro_term(e) for e in intro]
    codes = C.run_case_files(ID, REQ, PRE, [terms],
                             judge_expr=f"judge_count {len(intro)} :: judge_regnames :: map judge_intro cases")[0]
    rep.add_eval(len(intro) + 2)
    rep.exhaustive_parts.append(f"introspection of all {len(intro)} pdpy11.insns.instructions objects against Model.Insns.init_entry")
    if codes[0] & 1:
        rep.disagree("number of instructions differs from the regenerated table", {"impl": len(intro)})
    if codes[1] & 2:
        m = impl.load()
        rep.violate("regnames", "REGISTER_NAMES is not r0..r7, sp=6, pc=7", {"REGISTER_NAMES": dict(m["insns"].REGISTER_NAMES)})
    for e, code in zip(intro, codes[2:]):
        rep.count("introspected:" + str(len(e[2])) + "-operand")
        if code & 1:
            rep.disagree("introspection: Instruction object differs from Model.Insns.init_entry", {"name": e[0], "opcode_pattern": e[1], "stubs": e[2]})
    # (2) end to end
    cases = build_cases(intro, rng, tier)
    main_n = len(cases)
    cases += near_miss_cases(intro, rng, tier) + repeat_cases(intro, rng, tier) + repeat_addr_cases(intro, rng, tier) + numlabel_cases(intro, rng, tier) + linked_cases(intro, rng, tier)
    IC.run_cases(cases)
    rep.count("e2e:near-miss-names", sum(1 for c in cases[main_n:] if c.kind.startswith("near")))
    rep.count("e2e:repeat-wrapped", sum(1 for c in cases[main_n:] if c.kind.startswith("repeat")))
    rep.count("e2e:linked-files-label-expressions", sum(1 for c in cases[main_n:] if c.kind.startswith("linked")))
    rep.count("e2e:linked-3-or-more-files", sum(1 for c in cases[main_n:] if c.kind.startswith("linked") and len(c.files) >= 3))
    for c in cases:
        rep.add_eval()
        rep.count("e2e:" + c.res["outcome"])
        rep.count("e2e:%d-operand" % len(c.forms))
        if c.forms:
            rep.nontrivial(c.key())
    rep.traces_validated += len(cases)
    for c in (cases[7], cases[len(cases) // 2], cases[-3]):
        rep.sample({"source": c.src, "operands": [IC.coq_operand(o) for o in c.ops], "impl": {k: c.res.get(k) for k in ("outcome", "code")}})
    judge_cases(rep, cases, "e2e")
    acc_named_data(rep, rng)
    if tier == "thorough":
        rep.exhaustive_parts.append("every mnemonic x every operand form per position; full cross product of canonical forms for two-operand mnemonics")
    else:
        rep.exhaustive_parts.append("every mnemonic x every operand form per position (partner form seeded)")


def search(rep, br, tier, seed):
    """obligations or correspondence broken and the sweep of `explore` met no violation: widen it
    (other seed, all addresses, cross products), judged by the Spec oracle on the real code."""
    rng = random.Random(seed ^ 0x5EED)
    try:
        intro = IC.introspect()
        cases = build_cases(intro, rng, "quick", big=(tier != "thorough"))
        cases += near_miss_cases(intro, rng, "thorough") + repeat_cases(intro, rng, "thorough") + repeat_addr_cases(intro, rng, "thorough") + numlabel_cases(intro, rng, "thorough") + linked_cases(intro, rng, "thorough")
        IC.run_cases(cases)
        rep.add_eval(len(cases))
        n = judge_cases(rep, cases, "search")
        rep.notes.append(f"search: {len(cases)} further end-to-end cases judged by Spec.decode/expect, {n} violations")
    except RuntimeError as ex:   # the judge itself no longer evaluates: reported as no-failing-input-found
        rep.notes.append("search could not run: " + str(ex)[-400:])


def replay(data):
    inp = data["input"]
    if "files" not in inp:
        print(inp)
        return False
    r = impl.assemble([tuple(x) for x in inp["files"]])
    for fn, text in inp["files"]:
        print("source %s:" % fn, text.strip().replace("\n", " / "))
    print("now:", {k: r.get(k) for k in ("outcome", "base", "code", "crash")})
    if "expected_code" in inp:
        return r["outcome"] == "ok" and r["code"] == inp["expected_code"]
    term = "(%s, [%s], %s, %s)" % (C.coq_str(inp["mnemonic"]), "; ".join(inp["operands"]), C.zlit(inp["address"]), IC.coq_obs(r))
    if "slice" in inp:
        c = SlicedCase(inp["mnemonic"], [], inp["address"])
        c.res, c.off, c.ilen, c.total, c.kind = r, inp["slice"]["off"], inp["slice"]["ilen"], inp["slice"]["total"], inp["slice"]["kind"]
        term = c.term().replace(", [], ", ", [%s], " % "; ".join(inp["operands"]), 1)
    code = C.run_case_files(ID, REQ, PRE, [[term]], judge_expr="map judge cases")[0][0]
    print("judge code:", code, "(bit 0: model differs, bit 1: contradicts Spec)")
    return (code & 2) == 0


# --- translated small functions (tools/gens/gen_pure.py): Props/T_insns.v proves the regenerated Python functions
# equal to the hand models this property's theorems are about; explore_t cross-checks the translator itself
import t_check  # noqa: E402
import t_check2  # noqa: E402  (tools/gens/gen_pure2.py: get_opcode + indexes_of_char regenerated from the AST, Props/T_insns2.v)
import classify_corr  # noqa: E402  (Model/Classify.v: the isinstance cascade of RegisterModeOperandStub.encode / FP11RMOperandStub.encode)
PROP_FILES = PROP_FILES + ["Props/T_insns.v", "Props/T_insns2.v", "Props/C01_classify.v"]
RUN_FILES = RUN_FILES + ["Run/TRunInsns.v", "Run/TRun2Insns.v", "Run/C01ClassifyRun.v"]
_explore_without_t = explore


def explore(rep, br, tier, seed):
    _explore_without_t(rep, br, tier, seed)
    t_check.explore_t(rep, tier, seed, pid=ID, only=["insns"])
    t_check2.explore_t2(rep, tier, seed, pid=ID)
    classify_corr.explore_classify(rep, tier, seed)
    rep.exhaustive_parts.append("operator classes of operators.py = enumeration of Model/Classify.v")
