"""C01 -- machine-code fidelity of every instruction form (DESIGN 4 C01)."""
import random

import common as C
import impl
import insn_cases as IC

ID = "C01"
PROP_FILES = ["Props/C01.v"]
RUN_FILES = ["Run/C01Run.v"]
RULE = ("(1) exhaustive introspection: every object of pdpy11.insns.instructions (opcode_pattern, stub classes, pattern_char, "
        "bit_indexes, unsigned) against Model/Insns.v init_entry over the regenerated table, evaluated in coqc; "
        "(2) end to end through impl.assemble: every mnemonic x every source-level operand form its stub classes admit "
        "(8 modes x 8 registers with rN/sp/pc/%n/@rN/@(rN) spellings, X(rN), @X(rN), #X, @#X, relative, relative deferred, "
        "forward-referenced %sym and X, acN, inline numbers and branch targets at their limits) per operand position, plus forms "
        "that must be refused (%8, ac4/ac5 in a 2-bit field, values beyond 16 bits / the inline field, wrong operand class or count), "
        "at several link addresses incl. the top of memory; quick tier: each form of each position once with a seeded partner, "
        "thorough tier: full cross product of the canonical spellings for two-operand mnemonics. "
        "Each case carries the implementation's outcome and words; Coq judges correspondence (model = implementation) and the "
        "property (Spec.decode of the implementation's words = Spec.expect of the line, all words consumed; a line without "
        "denotation is refused). non-trivial = distinct (mnemonic, operand-form keys) with at least one operand")
LEVEL_TEXT = ("Coq theorems over the opcode table regenerated from architecture.py on every run: table_wf, encode_decode (independent "
              "PDP-11 decoder recovers the canonical operation and operands of every emitted instruction and consumes exactly its words; "
              "all operand values, targets and addresses are unbounded Z), accepted_iff_legal, rejected_is_error, field_range per stub "
              "(accumulator, inline number, register number, 16-bit word), synonyms (plain and push/pop/call/ret expansions), distinct. "
              "The opcode-word part is one vm_compute over all ~75k (entry, field values) pairs lifted by forallb_forall; extension "
              "words and displacements by structural lemmas with lia. The hand model of init()/compile_insn/get_opcode/stubs is tied by "
              "exhaustive introspection of the 252 Instruction objects and an end-to-end sweep of every mnemonic x operand form.")
LEVEL_NOTE = ("Trusted: Coq kernel + vm_compute, tools/translate.py + tools/gens/gen_insns.py, the sweep harness (operand printer in "
              "tools/insn_cases.py), Spec/PDP11.v (numeric opcode table; 1801VM2/LSI-11/maintenance rows have no source independent of "
              "the repository). The classification of token trees into operand forms (hoist, isinstance cascade) is not modelled: it is "
              "tied by the end-to-end sweep only. An explicitly written (pc)+/@(pc)+ is outside encode_decode (C01_pc_autoinc_partial). "
              "Print Assumptions: closed under the global context for every theorem.")
TECHNIQUE = "Coq proof over regenerated table (exhaustive vm_compute + structural lemmas) + exhaustive model/implementation correspondence"
ASSUME = ["pdpy11's 'signed' inline number convention (-2^n < v < 2^n, stored mod 2^n) for emt/trap and 16-bit operand values is intended",
          "the 1801VM2 / LSI-11 / maintenance opcodes in Spec/PDP11.v are as in the repository (no independent source)"]
TRUSTED = ["tools/insn_cases.py: printer from abstract operands to source text", "tools/gens/gen_insns.py: source-shape pins of insns.py"]

REQ = "Spec.PDP11 Run.C01Run"
PRE = "Open Scope string_scope.\nOpen Scope Z_scope."
ADDRS = [0o1000, 0, 0o100, 0o177770, 0o77776]


def core(forms, rng):
    """one spelling per abstract shape; used for cross products"""
    seen, out = {}, []
    for f in forms:
        ctor = f.op[0]
        if ctor in ("OReg", "ORegDef", "OAutoInc", "OAutoIncDef", "OAutoDec", "OAutoDecDef", "OAcc"):
            k = (ctor, f.op[1], f.late)
            lim = 1
        elif ctor in ("OIndex", "OIndexDef"):
            k = (ctor, f.op[2], f.late)
            lim = 1
        else:
            k = (ctor,)
            lim = 3
        if seen.get(k, 0) < lim:
            seen[k] = seen.get(k, 0) + 1
            out.append(f)
    return out


def build_cases(intro, rng, tier, big=False):
    cases = []
    thorough = tier == "thorough" or big
    for name, _pat, stubs in intro:
        n = len(stubs)
        addrs = ADDRS if thorough else [rng.choice(ADDRS)]
        if n == 0:
            for a in ADDRS[:2] if not thorough else ADDRS:
                cases.append(IC.Case(name, [], a))
            cases.append(IC.Case(name, [IC.Form(("OReg", 0), "r0")], 0o1000))
        elif n == 1:
            for a in addrs[:2]:
                for f in IC.forms_for_stub(stubs[0], rng, 0, a, full=True):
                    cases.append(IC.Case(name, [f], a))
            cases.append(IC.Case(name, [], 0o1000))
            cases.append(IC.Case(name, [IC.Form(("OReg", 1), "r1"), IC.Form(("OReg", 2), "r2")], 0o1000))
        elif n == 2:
            a = addrs[0]
            f1s = IC.forms_for_stub(stubs[0], rng, 0, a, full=True)
            f2s = IC.forms_for_stub(stubs[1], rng, 1, a, full=True)
            for f1 in f1s:
                cases.append(IC.Case(name, [f1, rng.choice(f2s)], a))
            for f2 in f2s:
                cases.append(IC.Case(name, [rng.choice(f1s), f2], a))
            if thorough:
                a2 = rng.choice(ADDRS)
                c1 = core(IC.forms_for_stub(stubs[0], rng, 0, a2, full=False), rng)
                c2 = core(IC.forms_for_stub(stubs[1], rng, 1, a2, full=False), rng)
                for f1 in c1:
                    for f2 in c2:
                        cases.append(IC.Case(name, [f1, f2], a2))
            cases.append(IC.Case(name, [f1s[0]], a))
            cases.append(IC.Case(name, [f1s[0], f2s[0], IC.Form(("OReg", 3), "r3")], a))
        else:
            raise RuntimeError(f"{name}: {n} operands")
    for c in cases:
        c.src = IC.make_source(c.m, c.forms, c.addr, rng)
    return cases


def judge_cases(rep, cases, what):
    terms = [c.term() for c in cases]
    shards = C.shard(terms, 500)
    codes = C.run_case_files(ID, REQ, PRE, shards, judge_expr="map judge cases")
    flat = [x for sh in codes for x in sh]
    assert len(flat) == len(cases), (len(flat), len(cases))
    nviol = 0
    for c, code in zip(cases, flat):
        if code & 1:
            rep.disagree(what + ": Model.Insns.compile_insn vs impl.assemble", c.describe())
        if code & 2:
            nviol += 1
            o = c.res["outcome"]
            if o == "ok":
                msg = "the emitted words do not decode (Spec/PDP11.decode) to the operation and operands the line denotes, or the line has no denotation and was accepted"
            elif o == "failed":
                msg = "a legal instruction form was refused"
            else:
                msg = "the assembler crashed or hung on a one-instruction program"
            rep.violate("insn:" + ":".join(str(k) for k in c.key()) + ":" + o, msg + " (judged in Coq: Run.C01Run.prop_insn)", c.describe(),
                        replay="assemble input.files; ./check C01 --replay <this file>")
    return nviol


def explore(rep, br, tier, seed):
    rng = random.Random(seed)
    intro = IC.introspect()
    # (1) introspection, exhaustive
    terms = [IC.intro_term(e) for e in intro]
    codes = C.run_case_files(ID, REQ, PRE, [terms],
                             judge_expr=f"judge_count {len(intro)} :: judge_regnames :: map judge_intro cases")[0]
    rep.add_eval(len(intro) + 2)
    rep.exhaustive_parts.append(f"introspection of all {len(intro)} pdpy11.insns.instructions objects against Model.Insns.init_entry")
    if codes[0] & 1:
        rep.disagree("number of instructions differs from the regenerated table", {"impl": len(intro)})
    if codes[1] & 2:
        m = impl.load()
        rep.violate("regnames", "REGISTER_NAMES is not r0..r7, sp=6, pc=7", {"REGISTER_NAMES": dict(m["insns"].REGISTER_NAMES)})
    for e, code in zip(intro, codes[2:]):
        rep.count("introspected:" + str(len(e[2])) + "-operand")
        if code & 1:
            rep.disagree("introspection: Instruction object differs from Model.Insns.init_entry", {"name": e[0], "opcode_pattern": e[1], "stubs": e[2]})
    # (2) end to end
    cases = build_cases(intro, rng, tier)
    IC.run_cases(cases)
    for c in cases:
        rep.add_eval()
        rep.count("e2e:" + c.res["outcome"])
        rep.count("e2e:%d-operand" % len(c.forms))
        if c.forms:
            rep.nontrivial(c.key())
    rep.traces_validated += len(cases)
    for c in (cases[7], cases[len(cases) // 2], cases[-3]):
        rep.sample({"source": c.src, "operands": [IC.coq_operand(o) for o in c.ops], "impl": {k: c.res.get(k) for k in ("outcome", "code")}})
    judge_cases(rep, cases, "e2e")
    if tier == "thorough":
        rep.exhaustive_parts.append("every mnemonic x every operand form per position; full cross product of canonical forms for two-operand mnemonics")
    else:
        rep.exhaustive_parts.append("every mnemonic x every operand form per position (partner form seeded)")


def search(rep, br, tier, seed):
    """obligations or correspondence broken and the sweep of `explore` met no violation: widen it
    (other seed, all addresses, cross products), judged by the Spec oracle on the real code."""
    rng = random.Random(seed ^ 0x5EED)
    try:
        intro = IC.introspect()
        cases = build_cases(intro, rng, "quick", big=(tier != "thorough"))
        IC.run_cases(cases)
        rep.add_eval(len(cases))
        n = judge_cases(rep, cases, "search")
        rep.notes.append(f"search: {len(cases)} further end-to-end cases judged by Spec.decode/expect, {n} violations")
    except RuntimeError as ex:   # the judge itself no longer evaluates: reported as no-failing-input-found
        rep.notes.append("search could not run: " + str(ex)[-400:])


def replay(data):
    inp = data["input"]
    if "files" not in inp:
        print(inp)
        return False
    r = impl.assemble([tuple(x) for x in inp["files"]])
    print("source:", inp["files"][0][1].strip().replace("\n", " / "))
    print("now:", {k: r.get(k) for k in ("outcome", "base", "code", "crash")})
    term = "(%s, [%s], %s, %s)" % (C.coq_str(inp["mnemonic"]), "; ".join(inp["operands"]), C.zlit(inp["address"]), IC.coq_obs(r))
    code = C.run_case_files(ID, REQ, PRE, [[term]], judge_expr="map judge cases")[0][0]
    print("judge code:", code, "(bit 0: model differs, bit 1: contradicts Spec)")
    return (code & 2) == 0
