"""C16 -- structural directives preserve meaning (DESIGN 4 C16)."""
import hashlib
import random

import common as C
import impl
import c16gen as G
import proggen

ID = "C16"
PROP_FILES = ["Props/C16.v", "Props/C01_classify_embed.v"]  # the two models of hoist / classification (TreeCache here, Model/Classify for C01) commute with forgetting the caches
RUN_FILES = ["Run/C16Run.v"]
RULE = ("metamorphic on the real code (model-free verdict: image of the program vs image of the transformed program, incl. success/failure and base) "
        "plus model correspondence judged in Coq.  (1) '.repeat': generated bodies of 1-4 statements, nesting <= 3, count 0-40 written as a literal, "
        "a symbol defined before or after (forward reference) or symbol+-k; statements: 2/1-operand instructions with all 12 operand forms incl. index "
        "and index-deferred operands whose offset is symbolic / compound so that hoisting fires ('a+2(r0)', '-a(r1)', 'a*2+b(r3)', '@a+2(r0)', "
        "'. - a + 2(r0)', 'a + . / 2(r0)'), '.'-relative branches and sob, emt/trap/mark/spl, jsr, .word/.byte with expressions over all 12 infix and "
        "4 prefix operators, brackets < > and ( ), character literals, '.' (so operands of the impure operators / % << >> differ between copies); "
        "base set first (.link), set after the code (unknown while compiling) or defaulted; bodies may refer to a label located after the block (whose address depends on the block's length); compared with the textual unrolling (every copy re-parsed, "
        "nested repeats written out too).  The parser's own token tree of the body is converted to a Coq term and Model/TreeCache (threaded "
        "repeat_model and reference unrolled) is compared with both observed images.  A fixed small family has '.end' inside the body (known finding). "
        "(1b) the repetition budget (side condition of repeat_unroll; the bound is read from the regenerated Gen file): '.repeat N { }' flat and nested "
        "with totals 65535 / 65536 / 65537, empty and 1-byte bodies: equal to the written-out text within the budget, refused beyond it. "
        "(2) files: abstract programs of 1-3 linked files + include files (depth <= 3) made of '.word .+k', .byte, .blkb, .even, insert_file (0-300 "
        "bytes), .include, .end/end, .once; transformations concat-linked-files, insert->.byte (empty insert -> nothing), cut-after-.end in a main / "
        "linked / included file ('.end' / 'end' in every letter case, followed by the rest of the file, by nothing, or by text that is not assembly: "
        "unterminated quotes, unbalanced brackets, half statements, control characters, non-ASCII text, a listing trailer), include-a-.once-file 1-3 times -> once, paste-included-file, include cycles (self / mutual) behind '.once' = the same without the back edge, and without '.once' = refused with "
        "'recursive-include'; both programs through Model/Structure in Coq. "
        "(2b) '.once' by every route, on REAL files in a scratch directory (path handling goes through os.path): a '.once' file reached 2-3 times "
        "by any mix of: given as a linked file (before / after main / listed twice), '.include'd directly, inside a '.repeat', or through a nested "
        "include resolved relative to the including file, under different spellings of its path (lib.mac, ./lib.mac, sub/../lib.mac, absolute "
        "normalised, absolute with /./, // or /sub/../) = the program with every occurrence after the first deleted; the same routes (linked, "
        "listed twice, included by a linked file, nested) on abstract programs through Model/Structure (transformation once-routes). "
        "(2c) 2-3 linked files with disjoint private names that reference each other's exported symbols (name::, name == v, .extern name before / "
        "after the definition, .extern all; labels and constants; either link order), the reference and the '.extern' operand spelled in another "
        "letter case than the definition in 60% of the cases, 15% with a case-variant duplicate export (must fail in both forms) = the concatenation. "
        "(2d) insert_file per occurrence: sources in several directories (linked files in different directories, includes from and into "
        "sub-directories, nested), every directory holding its OWN blob.bin / data.bin of other size and content (0-300 bytes); real files or "
        "in-memory; in a share of the cases other spellings of the relative name (./x, ../dir/x) and inserts inside '.repeat'; = the program with "
        "each insert written as the '.byte' data of the file its operand resolves to from the directory of the file that contains it; the "
        "undecorated cases through Model/Structure with the file system keyed by (including file, name as written). "
        "(3) the same five transformations on rich programs from tools/proggen.py (labels, constants, forward references, exported symbols across "
        "files, local labels, repeats, strings, skips).  non-trivial = distinct program text whose transformation changes the text and, for repeat, "
        "has count >= 2 and a '.' / hoisted / impure / branch feature.  Domain restriction: '. = X' inside a body is generated only after a leading "
        "'.link' (a '. =' met before the base is set is the base-setting form, on which the property is silent; a repeat with a forward-referenced "
        "count is compiled after the base is known, so the two texts are not comparable there)")
LEVEL_TEXT = ("Coq theorems (lists of any length, unbounded Z, every n, every nesting) about two executable models: TreeCache -- the operand/expression "
              "token tree with everything the code writes on it (impure-operator (args,value) cache, reported flags, CharLiteral cache, in-place "
              "fixup_label) and derives from it (hoist with shallow copies), threaded through the n compilations of a '.repeat' body: hoist_pure, "
              "hoist_classification for every nesting, fixup_idempotent, cache_coherent, flags_only_affect_diagnostics, and repeat_unroll "
              "(threaded n-fold compilation = the body written out n times, same bytes and same success/failure) for bodies without '.end'; "
              "Structure -- link_is_concat, insert_is_bytes, end_cuts_own_file (also through includes), once_first_only, by induction over statement "
              "lists.  Operators, purity flags and get_as_int are regenerated from the source on every run and the source of the mirrored mechanisms is pinned; the hand-written models are tied by "
              "correspondence on every generated case, evaluated with vm_compute in coqc.")
LEVEL_NOTE = ("TreeCache is a value-level model (final integer addresses): with an unknown base the code evaluates lazily, possibly repeatedly and "
              "keyed on object identity; the proofs show a cache hit equals a recomputation in every coherent state, and the sweep runs both base modes. "
              "Symbol scoping is outside both models (same env on both sides = the hypothesis 'no reference to an enclosing local label / no shared "
              "private names'); that side is covered by the metamorphic sweep on rich programs.  '%expr' registers are unmodelled (explicit Crash). "
              "Known finding: '.end' inside a '.repeat' body (hypothesis no_end_in_body; refutation of the full statement in Props/C16_findings.v). "
              "Print Assumptions: closed under the global context for all 27 theorems.")
TECHNIQUE = "Coq proof about hand-written executable models + model/implementation correspondence in coqc + metamorphic search oracle on the real code"
ASSUME = ["pdpy11's parser maps the generated text to the token tree that is handed to the model (the tree is taken from the parser itself)",
          "symbols used in a '.repeat' body resolve to the same definitions in the unrolled text (no enclosing local labels referenced)",
          "linked / pasted files share no private or local names (generator keeps names disjoint)"]
TRUSTED = ["tools/gens/gen_treecache.py: pins (ast.dump equality) the source of hoist() incl. its copy.copy calls, wrap_impure, Infix/UnaryOperator.resolve, "
           "the fixup_label closure and metacommands.repeat; an edit aborts the translator (Gen/GenTreeCachePins.v, imported by Model/TreeCache.v)",
           "tools/c16gen.py: token tree -> Coq term converter, slot layout read from insns.instructions by introspection, textual transformations",
           "tools/proggen.py (program generator; inputs only)"]

# ------------------------------------------------------------------------------------------------
# observation helpers


def view(o):
    """canonical observable of one assembly"""
    if o["outcome"] == "ok":
        return ("ok", o["base"], o["code"])
    if o["outcome"] == "failed":
        return ("failed",)
    return (o["outcome"], (o.get("crash") or {}).get("exc"), (o.get("crash") or {}).get("frame"))


def brief(o):
    return {"outcome": o["outcome"], "base": o.get("base"), "code": o.get("code"),
            "errors": sorted({d[1] for d in o["diags"] if d[0] != "warning"}), "crash": o.get("crash")}


def obs_term(o, lo=0, hi=0):
    if o["outcome"] == "ok":
        bs = bytes.fromhex(o["code"])
        return "ObsOk " + C.zlist(list(bs[lo:len(bs) - hi]))
    if o["outcome"] == "failed":
        return "ObsFailed"
    return "ObsOther"


def digest(*texts):
    h = hashlib.sha1()
    for t in texts:
        h.update(t.encode("utf-8", "replace") if isinstance(t, str) else bytes(t))
        h.update(b"\0")
    return h.hexdigest()[:12]


def run_pairs(pairs):
    """pairs: list of (files_a, files_b, fs) or (files_a, files_b, fs_a, fs_b) -> list of (out_a, out_b)"""
    jobs = []
    for pr in pairs:
        fa, fb, fsa = pr[0], pr[1], pr[2]
        fsb = pr[3] if len(pr) > 3 else fsa
        jobs.append(((fa,), {"fs": fsa}))
        jobs.append(((fb,), {"fs": fsb}))
    outs = settle(jobs, impl.pmap("assemble", jobs))
    res = []
    for i in range(len(pairs)):
        a, b = outs[2 * i], outs[2 * i + 1]
        if view(a) != view(b):
            # confirm serially, outside the loaded pool, before anything is reported
            a = impl.assemble(*jobs[2 * i][0], **jobs[2 * i][1], watchdog=60)
            b = impl.assemble(*jobs[2 * i + 1][0], **jobs[2 * i + 1][1], watchdog=60)
        res.append((a, b))
    return res


def settle(jobs, outs):
    """a watchdog expiry inside the (shared, loaded) pool is not an observation: run those again alone"""
    outs = list(outs)
    for i, o in enumerate(outs):
        if o["outcome"] in ("hang", "harness-error"):
            outs[i] = impl.assemble(*jobs[i][0], **jobs[i][1], watchdog=60)
    return outs


def differs(fa, fb, fs):
    a = impl.assemble(fa, fs=fs, watchdog=60)
    b = impl.assemble(fb, fs=fs, watchdog=60)
    return view(a) != view(b)


# ------------------------------------------------------------------------------------------------
# (1) .repeat
def shrink_repeat(case):
    """greedy: drop body statements / definitions, lower the count, while the two images still differ"""
    def bad(c):
        return differs([("t.mac", c.repeat_text())], [("t.mac", c.unrolled_text(True))], None)

    def paths(body, prefix=()):
        out = []
        for i, it in enumerate(body):
            out.append(prefix + (i,))
            if it[0] == "r":
                out += paths(it[3], prefix + (i,))
        return out

    def without(body, path):
        if len(path) == 1:
            return body[:path[0]] + body[path[0] + 1:]
        it = body[path[0]]
        return body[:path[0]] + [(it[0], it[1], it[2], without(it[3], path[1:]))] + body[path[0] + 1:]

    import copy
    cur = copy.copy(case)
    for _ in range(4):
        changed = False
        for p in sorted(paths(cur.body), reverse=True):
            trial = copy.copy(cur)
            trial.body = without(cur.body, p)
            if trial.body and bad(trial):
                cur, changed = trial, True
        for n in (2, 3):
            if cur.n > n:
                trial = copy.copy(cur)
                trial.count_text, trial.n = str(n), n
                if bad(trial):
                    cur, changed = trial, True
                    break
        if cur.npre:
            trial = copy.copy(cur)
            trial.npre = 0
            if bad(trial):
                cur, changed = trial, True
        if not changed:
            break
    return cur


def repeat_family(rep, rng, n_cases, n_end, with_model=True, label="repeat", all_counts=False):
    cases = [G.RepeatCase(rng) for _ in range(n_cases)]
    # boundaries of the count: 0, 1, 40 and a forward-referenced count
    for n in (range(0, 41) if all_counts else (0, 1, 40, 40)):
        cases.append(G.RepeatCase(rng, n_override=n))
    ends = [G.RepeatCase(rng, end_in_body=True) for _ in range(n_end)]
    allc = cases + ends
    pairs = [([("t.mac", c.repeat_text())], [("t.mac", c.unrolled_text(True))], None) for c in allc]
    outs = run_pairs(pairs)
    terms, idx = [], []
    for i, (c, (a, b)) in enumerate(zip(allc, outs)):
        rep.add_eval(2)
        is_end = G.has_end_stmt(c.body)
        rep.count(f"{label}:{'end-in-body' if is_end else 'plain'}:{a['outcome']}")
        for f in c.feat:
            if f.startswith(("base-", "nest", "count-", "hoist", "label-fixup")) or f in ("dot", "dot-rhs", "branch", "imm", "char", "after-label"):
                rep.count("feature:" + f)
        if c.n >= 2 and (c.feat & {"dot", "hoist-infix", "hoist-prefix", "branch"} or any(f.startswith("impure") for f in c.feat)):
            rep.nontrivial(("repeat", digest(c.repeat_text())))
        if view(a) != view(b):
            if is_end:
                rep.violate("end-inside-repeat", "'.end' inside a '.repeat' body: image of the repeat differs from the image of the body written out",
                            {"files": [["t.mac", c.repeat_text()]], "files_transformed": [["t.mac", c.unrolled_text(True)]], "transformation": "unroll"},
                            impl=brief(a), impl_transformed=brief(b))
            else:
                m = shrink_repeat(c)
                ra, rb = impl.assemble([("t.mac", m.repeat_text())], watchdog=60), impl.assemble([("t.mac", m.unrolled_text(True))], watchdog=60)
                rep.violate("repeat-unroll:" + digest(m.repeat_text()),
                            "'.repeat n { body }' does not assemble to what the body written out n times assembles to",
                            {"files": [["t.mac", m.repeat_text()]], "files_transformed": [["t.mac", m.unrolled_text(True)]], "transformation": "unroll",
                             "count": m.n, "base_mode": m.base_mode},
                            impl=brief(ra), impl_transformed=brief(rb))
        if with_model and a["outcome"] in ("ok", "failed") and b["outcome"] in ("ok", "failed"):
            try:
                cnt, blk = G.parse_repeat(c.repeat_text())
                if G.depth_of(blk) > 3:
                    raise G.Unsupported("depth")
                lo, hi = 2 * c.npre, 4
                tail = None
                if "after-label" in c.feat:
                    # the label after the block: its address follows from the layout (base + image length - 4)
                    src = a if a["outcome"] == "ok" else b
                    if src["outcome"] != "ok" or is_end:
                        raise G.Unsupported("after-label, no image")
                    tail = src["base"] + len(bytes.fromhex(src["code"])) - 4
                # with '.end' in the body the written-out text ends inside the first copy: no tail there
                t = "(%s, %s, %s, %s, %d%%nat, %s, %s)" % (G.env_coq(c.consts, c.base, tail), C.zlit(c.start), G.tree_coq(cnt), G.items_coq(blk),
                                                          c.n, obs_term(a, lo, hi), obs_term(b, lo, 0 if is_end else hi))
                terms.append(t)
                idx.append(i)
            except G.Unsupported as ex:
                rep.count(f"{label}:outside-model:{str(ex)[:30]}")
    if len(rep.samples) < 2 and cases:
        rep.sample({"repeat_program": cases[0].repeat_text(), "count": cases[0].n, "impl": brief(outs[0][0])})
    if not with_model or not terms:
        return
    codes = C.run_case_files(ID + "_rep", "Run.C16Run Model.TreeCache", "Open Scope Z_scope. Open Scope string_scope.",
                             C.shard(terms, 120), judge_expr="map judge_repeat cases", cases_type="list rcase")
    flat = [x for sh in codes for x in sh]
    for i, code in zip(idx, flat):
        c, (a, b) = allc[i], outs[i]
        rep.traces_validated += 1
        if code & 1:
            rep.disagree("Model/TreeCache (repeat_model / unrolled) vs the implementation on a '.repeat' program",
                         {"files": [["t.mac", c.repeat_text()]], "count": c.n}, impl=[brief(a), brief(b)])
        if (code & 2) and view(a) == view(b):
            # base or crash class may differ from what the Coq judge sees; should not happen
            rep.disagree("Coq judge and Python comparison of the two observed images differ", {"files": [["t.mac", c.repeat_text()]]})


# ------------------------------------------------------------------------------------------------
# '.end' in every spelling, followed by text that is not assembly
END_SPELLINGS = [".end", "end", ".END", "END", ".End", "End", ".eNd", "eND", ".enD"]
GARBAGE = ['"an unterminated string', "'", "((( unbalanced", "< a + ", "}", "} } {", "mov r0,", ".word", ".repeat 3 {", "1 +", "= 5", ":::",
           "\x0c\n  3 errors detected", "Errors detected: 0\n*** Assembler statistics\n  Work file reads: 0", "\u043f\u0440\u0438\u0432\u0435\u0442 \u00a9 \u2122",
           "\x01\x02\x7f", "^Rtoolongradix", "#@#", ".include \"nowhere.mac\"", "insert_file \"nowhere.bin\"", "label: label: label:", "\t\t;; only a comment",
           ".end\n.end", "9999999999999999999999 8 9", "\\ \\n \\x"]


def end_with_tail(rng, clean_tail=""):
    """the directive in some spelling and, after it, text that must not matter"""
    r = rng
    sp = r.choice(END_SPELLINGS)
    c = r.random()
    if c < 0.25:
        tail = clean_tail
    elif c < 0.85:
        lines = [r.choice(GARBAGE) for _ in range(r.choice([1, 1, 2, 3]))]
        # statements are not line-terminated in this grammar: a ':' or '=' that opens the next line turns the
        # directive into the label '.end:' / the definition 'end = ...' (reported candidate, see probe_end_colon)
        def continues(ls):
            for l in "\n".join(ls).split("\n"):             # blank and comment-only lines do not separate statements either
                t = l.strip()
                if t and not t.startswith(";"):
                    return t[:1] in tuple(":=^+-*/%&|!_,")   # also a leading infix operator continues 'end' as an expression
            return False
        while continues(lines):
            lines = [r.choice(GARBAGE) for _ in range(len(lines))]
        tail = "\n".join(lines) + ("\n" if r.random() < 0.7 else "")
        if r.random() < 0.3:
            tail += clean_tail
    else:
        tail = ""
    if r.random() < 0.15:
        sp += " ; " + r.choice(["done", '"', "("])
    return sp + ("\n" + tail if (tail or r.random() < 0.8) else "")


# ------------------------------------------------------------------------------------------------
# (2) abstract file structures, with Model/Structure
class SProg:
    def __init__(self, files, ids, base, blobs=None):
        self.files = files          # fid -> list of stmt tuples
        self.ids = ids              # linked files in order
        self.base = base

    def clone(self):
        return SProg({k: list(v) for k, v in self.files.items()}, list(self.ids), self.base)


def s_text(st, newblob):
    k = st[0]
    if k == "dw":
        return f".word . + {oct(st[1])[2:]}" if st[1] >= 0 else f".word . - {oct(-st[1])[2:]}"
    if k == "even":
        return ".even"
    if k == "blkb":
        return f".blkb {oct(st[1])[2:]}"
    if k == "byte":
        return ".byte " + ", ".join(oct(v)[2:] if v >= 0 else "-" + oct(-v)[2:] for v in st[1]) if st[1] else ".byte"
    if k == "ins":
        return f'insert_file "{newblob(bytes(st[1]))}"'
    if k == "inc":
        return f'.include "f{st[1]}.mac"'
    if k == "end":
        return st[1]
    if k == "once":
        return ".once"
    raise ValueError(k)


def s_render(p):
    """-> (linked files [(name, text)], fs)"""
    fs = {}
    texts = {}
    for fid, ss in p.files.items():
        def newblob(data, fid=fid):
            name = f"f{fid}_{sum(1 for k in fs if k.startswith(f'f{fid}_'))}.bin"
            fs[name] = data
            return name
        texts[fid] = "\n".join(s_text(st, newblob) for st in ss) + "\n"
    if p.base is not None:
        texts[p.ids[0]] = f".link {oct(p.base)[2:]}\n" + texts[p.ids[0]]
    linked = [(f"f{fid}.mac", texts[fid]) for fid in p.ids]
    for fid, t in texts.items():
        fs[f"f{fid}.mac"] = t
    return linked, fs


def s_coq(p):
    def st(s):
        k = s[0]
        if k == "dw":
            return "Plain (PDotWord %s)" % C.zlit(s[1])
        if k == "even":
            return "Plain PEven"
        if k == "blkb":
            return "Plain (PBlkb %s)" % C.zlit(s[1])
        if k == "byte":
            return "Byte " + C.zlist(s[1])
        if k == "ins":
            return "Insert " + C.zlist(list(s[1]))
        if k == "inc":
            return "Include %d%%nat" % s[1]
        if k == "end":
            return "End"
        return "Once"
    tab = "[" + "; ".join("(%d%%nat, [%s])" % (fid, "; ".join(st(s) for s in ss)) for fid, ss in sorted(p.files.items())) + "]"
    return tab, "[" + "; ".join("%d%%nat" % i for i in p.ids) + "]"


def gen_sprog(rng, want):
    """a program that has the ingredient `want` in ('concat','insert','end','once','paste')"""
    r = rng
    nlinked = r.choice([2, 3]) if want == "concat" else r.choice([1, 1, 2, 3])
    ninc = r.choice([1, 2, 3])
    files = {}
    inc_ids = list(range(10, 10 + ninc))

    def plain_stmts(n):
        out = []
        for _ in range(n):
            c = r.random()
            if c < 0.35:
                if r.random() < 0.85:
                    out.append(("even",))
                out.append(("dw", r.choice([0, 2, 4, 100, -2, 0o1000])))
            elif c < 0.6:
                out.append(("byte", [r.randrange(256) for _ in range(r.choice([2, 2, 4, 1]))]))
            elif c < 0.7:
                out.append(("blkb", r.choice([0, 1, 2, 7, 64])))
            elif c < 0.8:
                out.append(("even",))
            else:
                size = r.choice([0, 1, 2, 7, 30, 300]) if want == "insert" else r.choice([1, 2, 7])
                out.append(("ins", [r.randrange(256) for _ in range(size)]))
            if out[-1][0] in ("byte", "blkb", "ins") and r.random() < 0.7:
                out.append(("even",))
        return out
    # include files: deeper ones may include the next
    for k, fid in enumerate(inc_ids):
        ss = plain_stmts(r.randrange(1, 4))
        if k + 1 < len(inc_ids) and r.random() < 0.5:
            ss.insert(r.randrange(len(ss) + 1), ("inc", inc_ids[k + 1]))
        ss.append(("even",))
        files[fid] = ss
    for fid in range(nlinked):
        ss = plain_stmts(r.randrange(2, 6))
        for g in inc_ids[:1] + [x for x in inc_ids[1:] if r.random() < 0.3]:
            ss.insert(r.randrange(len(ss) + 1), ("inc", g))
        ss.append(("even",))
        files[fid] = ss
    base = r.choice([None, 0o1000, 0o2000, 0o100, 0o40000])
    return SProg(files, list(range(nlinked)), base), inc_ids


def transform_sprog(rng, want):
    """-> (kind, prog1, prog2) or None"""
    r = rng
    p, inc_ids = gen_sprog(r, want)
    q = p.clone()
    if want == "concat":
        q.files[9] = [s for fid in p.ids for s in p.files[fid]]
        q.ids = [9]
        return "concat", p, q
    if want == "insert":
        done = False
        for fid in sorted(p.files):
            new = []
            for s in q.files[fid]:
                if s[0] == "ins":
                    done = True
                    if s[1]:
                        new.append(("byte", list(s[1])))
                else:
                    new.append(s)
            q.files[fid] = new
        return ("insert", p, q) if done else None
    if want == "end":
        where = r.choice(["main", "linked", "included", "included"])
        if where == "main":
            fid = p.ids[0]
        elif where == "linked":
            fid = p.ids[-1]
        else:
            fid = r.choice(inc_ids)
        pos = r.randrange(len(p.files[fid]) + 1)
        p.files[fid] = p.files[fid][:pos] + [("end", end_with_tail(r).rstrip("\n"))] + p.files[fid][pos:]
        q = p.clone()
        q.files[fid] = p.files[fid][:pos]
        return "end-" + where, p, q
    if want == "once":
        g = inc_ids[0]
        p.files[g] = [("once",)] + p.files[g]
        if r.random() < 0.3:
            p.files[g].append(("inc", g))           # a file that includes itself behind '.once'
        q = p.clone()
        k = r.choice([1, 2, 2, 3])
        main = p.ids[0]
        first = next(i for i, s in enumerate(p.files[main]) if s == ("inc", g))
        extra = []
        for _ in range(k - 1):
            extra.append(r.randrange(first + 1, len(p.files[main]) + 1) if r.random() < 0.5 else first + 1)
        for pos in sorted(extra, reverse=True):
            p.files[main] = p.files[main][:pos] + [("inc", g)] + p.files[main][pos:]
        return f"once-x{k}", p, q
    if want == "onceroutes":
        # every way a file can be reached: given as a linked file (also twice), '.include'd by a linked file,
        # '.include'd by a file that a linked file includes.  Occurrence j lives in link slot j, so the first
        # one in compilation order is the one in the lowest slot; the reference keeps only that one.
        g = inc_ids[0]
        for fid in list(p.files):
            p.files[fid] = [st for st in p.files[fid] if st != ("inc", g)]
        p.files[g] = [("once",)] + [st for st in p.files[g] if st[0] != "inc"]
        k = r.choice([2, 2, 3])
        slots = []                       # (route, linked fid or None, carrier fid or None)
        linked = list(p.ids)
        new_ids = []
        routes = [r.choice(["linked", "inc", "nested"]) for _ in range(k)]
        if "linked" not in routes or r.random() < 0.3:
            routes[r.randrange(k)] = "linked"
        nxt = 30
        pool = list(linked)
        for j, route in enumerate(routes):
            if route == "linked":
                new_ids.append(g)
                slots.append(("linked", None, None))
            else:
                if pool:
                    lf = pool.pop(0)
                else:
                    lf = nxt
                    nxt += 1
                    p.files[lf] = [("byte", [r.randrange(256), r.randrange(256)])]
                new_ids.append(lf)
                if route == "inc":
                    pos = r.randrange(len(p.files[lf]) + 1)
                    p.files[lf] = p.files[lf][:pos] + [("inc", g)] + p.files[lf][pos:]
                    slots.append(("inc", lf, lf))
                else:
                    h = nxt
                    nxt += 1
                    p.files[h] = [("byte", [r.randrange(256), r.randrange(256)]), ("inc", g), ("even",)]
                    pos = r.randrange(len(p.files[lf]) + 1)
                    p.files[lf] = p.files[lf][:pos] + [("inc", h)] + p.files[lf][pos:]
                    slots.append(("nested", lf, h))
        new_ids += pool
        p.ids = new_ids
        if p.ids[0] == g:
            p.base = None                # a '.link' line must not sit before the '.once' of a file compiled twice
        q = p.clone()
        first = True
        drop_linked = 0
        for route, lf, carrier in slots:
            if first:
                first = False
                continue
            if route == "linked":
                drop_linked += 1
            else:
                q.files[carrier] = [st for st in q.files[carrier] if st != ("inc", g)]
        if drop_linked:
            keep_first_linked = slots[0][0] == "linked"
            out, seen = [], 0
            for fid in q.ids:
                if fid == g:
                    seen += 1
                    if not (keep_first_linked and seen == 1):
                        continue
                out.append(fid)
            q.ids = out
        return "once-routes:" + "+".join(rt for rt, _, _ in slots), p, q
    if want == "cycle":
        # include cycles: behind '.once' they assemble (the back edge contributes nothing); without it the
        # code refuses the 33rd nesting level with 'recursive-include'
        g, h = inc_ids[0], 40
        for fid in list(p.files):
            p.files[fid] = [st for st in p.files[fid] if st[0] != "inc" or fid in p.ids]
        p.files[g] = [st for st in p.files[g] if st[0] != "inc"]
        kind = r.choice(["self", "mutual", "self-once", "mutual-once"])
        if kind.startswith("self"):
            p.files[g] = p.files[g] + [("inc", g), ("even",)]
        else:
            p.files[h] = [("byte", [r.randrange(256), r.randrange(256)]), ("inc", g), ("even",)]
            p.files[g] = p.files[g] + [("inc", h), ("even",)]
        if not any(st == ("inc", g) for st in p.files[p.ids[0]]):
            p.files[p.ids[0]] = p.files[p.ids[0]] + [("inc", g)]
        q = p.clone()
        if kind.endswith("once"):
            p.files[g] = [("once",)] + p.files[g]
            q.files[g] = [("once",)] + q.files[g]
            back = g if kind.startswith("self") else h
            q.files[back] = [st for st in q.files[back] if st != ("inc", g)]      # the back edge removed
        return "cycle-" + kind, p, q
    if want == "oncefirst":
        # the first compilation of a '.once' file contributes everything: same as without the '.once'
        g = r.choice([inc_ids[0], p.ids[0], p.ids[-1]])
        seen = False
        for fid in sorted(p.files):          # the file must be compiled exactly once: keep one '.include' of it
            new = []
            for st in p.files[fid]:
                if st == ("inc", g):
                    if seen:
                        continue
                    seen = True
                new.append(st)
            p.files[fid] = new
        q = p.clone()
        p.files[g] = [("once",)] + p.files[g]
        return "once-first", p, q
    if want == "paste":
        main = p.ids[0]
        first = next(i for i, s in enumerate(p.files[main]) if s[0] == "inc")
        g = p.files[main][first][1]
        q.files[main] = p.files[main][:first] + p.files[g] + p.files[main][first + 1:]
        return "paste", p, q
    return None


def structure_family(rep, rng, n_cases, with_model=True):
    wants = ["concat", "insert", "end", "once", "paste", "oncefirst", "onceroutes", "cycle"]
    items = []
    for i in range(n_cases):
        t = transform_sprog(rng, wants[i % len(wants)])
        if t is not None:
            items.append(t)
    pairs = []
    for kind, p, q in items:
        fa, fsa = s_render(p)
        fb, fsb = s_render(q)
        pairs.append((fa, fb, fsa, fsb))
    outs = run_pairs(pairs)
    terms = []
    for (kind, p, q), (fa, fb, fs, fs2), (a, b) in zip(items, pairs, outs):
        rep.add_eval(2)
        rep.count(f"files:{kind}:{a['outcome']}")
        if fa != fb or kind.startswith("end-inc") or kind == "insert":
            rep.nontrivial(("files", kind, digest(*[t for _, t in fa], *[t for _, t in fb])))
        if kind in ("cycle-self", "cycle-mutual") and not (a["outcome"] == "failed" and "recursive-include" in brief(a)["errors"]):
            rep.disagree("an include cycle without '.once' is refused with 'recursive-include' (model: nesting deeper than MAX_INCLUDE_DEPTH)",
                         {"files": [list(x) for x in fa], "fs": _fs_json(fs)}, impl=brief(a))
        if view(a) != view(b):
            rep.violate(f"files-{kind.split('-')[0]}:" + digest(*[t for _, t in fa]),
                        f"structural transformation '{kind}' changed the image",
                        {"files": [list(x) for x in fa], "files_transformed": [list(x) for x in fb], "fs": _fs_json(fs),
                         "fs_transformed": _fs_json(fs2), "transformation": kind}, impl=brief(a), impl_transformed=brief(b))
        t1, i1 = s_coq(p)
        t2, i2 = s_coq(q)
        base = p.base if p.base is not None else 0o1000
        terms.append("(%s, %s, %s, %s, %s, %s, %s)" % (t1, i1, t2, i2, C.zlit(base), obs_term(a), obs_term(b)))
    if items:
        rep.sample({"files_program": pairs[0][0], "transformation": items[0][0], "transformed": pairs[0][1], "impl": brief(outs[0][0])})
    if not with_model or not terms:
        return
    codes = C.run_case_files(ID + "_files", "Run.C16Run Model.Structure", "Open Scope Z_scope.", C.shard(terms, 150),
                             judge_expr="map judge_files cases", cases_type="list scase")
    flat = [x for sh in codes for x in sh]
    for (kind, p, q), (fa, fb, fs, fs2), (a, b), code in zip(items, pairs, outs, flat):
        rep.traces_validated += 1
        if code & 1:
            rep.disagree("Model/Structure vs the implementation on a files program (" + kind + ")",
                         {"files": [list(x) for x in fa], "files_transformed": [list(x) for x in fb]}, impl=[brief(a), brief(b)])


# ------------------------------------------------------------------------------------------------
# (3) the same transformations on rich generated programs (no model)
def _join(stmts):
    return "\n".join(s.text for s in stmts) + "\n"


def _screen_one(job):
    try:
        return impl.assemble(*job[0], **job[1])
    except BaseException as ex:      # harness-level failure: treated as "do not use this program"
        return {"outcome": "harness-error", "error": type(ex).__name__}


def screen_map(jobs):
    """impl.assemble (with its own watchdog) over a pool, WITHOUT impl.pmap's re-confirmation of watchdog
    hits: the screen only wants to know whether a program is quick"""
    import multiprocessing as mp
    with mp.get_context("fork").Pool(C.NPROC) as pool:
        return pool.map(_screen_one, jobs, chunksize=4)


def rich_family(rep, rng, n_progs):
    prof_multi = proggen.Profile(n_files=(2, 3), n_stmts=(3, 12), link="maybe")
    prof_one = proggen.Profile(n_files=(1, 2), n_stmts=(4, 14), link="maybe")
    prof_cut = proggen.Profile(n_files=(1, 3), n_stmts=(4, 14), link="maybe", forward_refs=False, externs=False)
    pairs, meta = [], []

    def add(kind, fa, fb, fs):
        pairs.append((fa, fb, fs))
        meta.append(kind)

    # programs that take seconds to assemble (long address-dependent chains before the base is known) are
    # a performance matter, not this property's: screen them out so that the sweep stays within its budget
    progs = []
    for i in range(n_progs):
        progs.append([proggen.gen_program(rng, prof_multi), proggen.gen_program(rng, prof_one), proggen.gen_program(rng, prof_cut)])
    flatp = [p for tr in progs for p in tr]
    pre = screen_map([((p.files,), {"fs": p.fs, "watchdog": 4}) for p in flatp])
    slow = {id(p) for p, o in zip(flatp, pre) if o["outcome"] in ("hang", "harness-error")}
    if slow:
        rep.count("rich:dropped-slow-program", len(slow))
    for i in range(n_progs):
        # concat
        p = progs[i][0]
        if id(p) in slow:
            continue
        cat = "".join(t for _, t in p.files)
        add("concat", p.files, [("file0.mac", cat)], dict(p.fs))
        p = progs[i][1]
        if id(p) in slow or id(progs[i][2]) in slow:
            continue
        fs = dict(p.fs)
        # insert -> .byte (top level statements of the linked files)
        changed = False
        newfiles = []
        for (fn, _), stmts in zip(p.files, p.stmts):
            lines = []
            for s in stmts:
                if s.kind == "insert":
                    changed = True
                    d = s.attrs["data"]
                    if d:
                        lines.append(".byte " + ", ".join(oct(b)[2:] for b in d))
                else:
                    lines.append(s.text)
            newfiles.append((fn, "\n".join(lines) + "\n"))
        if changed:
            add("insert", p.files, newfiles, fs)
        # .end in a linked file: cut the rest of that file (no forward references, so the cut text still assembles)
        p = progs[i][2]
        fs = dict(p.fs)
        fi = rng.randrange(len(p.files))
        stmts = p.stmts[fi]
        pos = rng.randrange(len(stmts) + 1)
        with_end = p.files[:fi] + [(p.files[fi][0], _join(stmts[:pos]) + end_with_tail(rng, _join(stmts[pos:])))] + p.files[fi + 1:]
        cut = p.files[:fi] + [(p.files[fi][0], _join(stmts[:pos]))] + p.files[fi + 1:]
        add("end-main" if fi == 0 else "end-linked", with_end, cut, fs)
        # includes
        incs = [(fi2, k, s) for fi2, ss in enumerate(p.stmts) for k, s in enumerate(ss) if s.kind == "include"]
        if incs:
            fi2, k, s = rng.choice(incs)
            path = s.text.split('"')[1]
            body = s.attrs["body"]
            # .end inside the included file: the includer continues
            pos = rng.randrange(len(body) + 1)
            fs_end = dict(fs)
            fs_end[path] = _join(body[:pos]) + end_with_tail(rng, _join(body[pos:]))
            fs_cut = dict(fs)
            fs_cut[path] = _join(body[:pos])
            pairs.append((p.files, p.files, None))
            meta.append(("end-included", fs_end, fs_cut))
            # .once: included 1-3 times vs once
            kk = rng.choice([2, 2, 3])
            fs_once = dict(fs)
            fs_once[path] = ".once\n" + fs[path]
            stmts2 = p.stmts[fi2]
            extra_pos = sorted((rng.randrange(k + 1, len(stmts2) + 1) if rng.random() < 0.5 else k + 1) for _ in range(kk - 1))
            lines = [x.text for x in stmts2]
            for ep in reversed(extra_pos):
                lines.insert(ep, s.text)
            many = p.files[:fi2] + [(p.files[fi2][0], "\n".join(lines) + "\n")] + p.files[fi2 + 1:]
            add(f"once-x{kk}", many, p.files, fs_once)
            # ... and the first inclusion contributes what the file without '.once' contributes
            pairs.append((p.files, p.files, None))
            meta.append(("once-first", fs_once, fs))
            # paste a definition-free included file in place
            if all(b.kind not in ("label", "assign", "locallabel") for b in body):
                lines = [x.text for x in stmts2]
                lines[k] = _join(body).rstrip("\n")
                pasted = p.files[:fi2] + [(p.files[fi2][0], "\n".join(lines) + "\n")] + p.files[fi2 + 1:]
                add("paste", p.files, pasted, fs)
    # assemble
    jobs = []
    for (fa, fb, fs), m in zip(pairs, meta):
        if isinstance(m, tuple):
            jobs.append(((fa,), {"fs": m[1]}))
            jobs.append(((fb,), {"fs": m[2]}))
        else:
            jobs.append(((fa,), {"fs": fs}))
            jobs.append(((fb,), {"fs": fs}))
    outs = impl.pmap("assemble", jobs)
    # a variant can be slow although its base program passed the screen (thousands of address-dependent
    # statements before the base is known): at most two such pairs are re-run alone with a long watchdog,
    # the others are dropped and counted -- speed is not this property's subject
    reruns = 0
    for i, ((fa, fb, fs), m) in enumerate(zip(pairs, meta)):
        a, b = outs[2 * i], outs[2 * i + 1]
        if ("hang" in (a["outcome"], b["outcome"]) or "harness-error" in (a["outcome"], b["outcome"])
                or a.get("first_attempt_hit_watchdog") or b.get("first_attempt_hit_watchdog")):
            if reruns >= 2:
                rep.count("rich:dropped-slow-pair")
                continue
            reruns += 1
            a = impl.assemble(*jobs[2 * i][0], **jobs[2 * i][1], watchdog=60)
            b = impl.assemble(*jobs[2 * i + 1][0], **jobs[2 * i + 1][1], watchdog=60)
        if view(a) != view(b):
            a = impl.assemble(*jobs[2 * i][0], **jobs[2 * i][1], watchdog=60)
            b = impl.assemble(*jobs[2 * i + 1][0], **jobs[2 * i + 1][1], watchdog=60)
        kind = m[0] if isinstance(m, tuple) else m
        rep.add_eval(2)
        rep.count(f"rich:{kind}:{a['outcome']}")
        rep.nontrivial(("rich", kind, digest(*[t for _, t in fa], *[t for _, t in fb], str(i))))
        if view(a) != view(b):
            inp = {"files": [list(x) for x in fa], "files_transformed": [list(x) for x in fb], "transformation": kind}
            if isinstance(m, tuple):
                inp["fs"] = _fs_json(m[1])
                inp["fs_transformed"] = _fs_json(m[2])
            else:
                inp["fs"] = _fs_json(fs)
            rep.violate(f"rich-{kind.split('-')[0]}:" + digest(*[t for _, t in fa], str(sorted((inp.get('fs') or {}).items()))),
                        f"structural transformation '{kind}' changed the image of a generated program", inp, impl=brief(a), impl_transformed=brief(b))
    if pairs:
        rep.sample({"rich_program": pairs[0][0], "transformation": meta[0] if not isinstance(meta[0], tuple) else meta[0][0], "impl": brief(outs[0])})


def _fs_json(fs):
    return {k: ({"hex": v.hex()} if isinstance(v, bytes) else v) for k, v in (fs or {}).items()}


def _fs_back(fs):
    return {k: (bytes.fromhex(v["hex"]) if isinstance(v, dict) else v) for k, v in (fs or {}).items()}


# ------------------------------------------------------------------------------------------------
# (1b) the repetition budget: the side condition of repeat_unroll
def budget_family(rep, quick):
    """MAX_REPETITIONS = 65536 iterations of all '.repeat' blocks together (read from the regenerated Gen file).
    Within the budget the repeat and the written-out text agree; the first iteration beyond it is refused
    ('value-out-of-bounds') while the written-out text, which has nothing to count, assembles."""
    import re
    with open(C.COQ + "/Gen/GenTreeCachePins.v") as f:
        m = int(re.search(r"max_repetitions : Z := (\d+)", f.read()).group(1))
    side = 1
    while side * side < m:
        side += 1
    # nested: the 1-byte statement sits in the outer body, so the image stays small (side copies)
    cases = [("flat", m - 1, None, ""), ("flat", m, None, ""), ("flat", m + 1, None, ""),
             ("nested", side, side - 1, ".byte 7"),                               # 256 + 256*255 = 65536: the last one allowed
             ("nested", side, side, ".byte 7")]                                   # 256 + 256*256: refused
    if not quick:
        # (no flat 1-byte case beyond the budget: its written-out text would be a 64 KiB + 1 image, refused for its size)
        cases += [("nested", side - 1, side, ""), ("nested", side, side - 1, ""), ("nested", side, side, "")]
    pairs, metas = [], []
    for shape, n1, n2, stmt in cases:
        body = (stmt + "\n") if stmt else ""
        if shape == "flat":
            total, copies = n1, n1
            rtext = ".repeat %d. {\n%s}\n" % (n1, body)
        else:
            total, copies = n1 + n1 * n2, n1
            rtext = ".repeat %d. {\n%s.repeat %d. {\n}\n}\n" % (n1, body, n2)
        tail = ".even\ntail: .word 177777, tail\n"
        pairs.append(([("t.mac", rtext + tail)], [("t.mac", body * copies + tail)], None))
        metas.append((shape, n1, n2, stmt, total))
    jobs = []
    for fa, fb, _ in pairs:
        jobs += [((fa,), {"watchdog": 120}), ((fb,), {"watchdog": 120})]
    outs = impl.pmap("assemble", jobs)
    for i, (shape, n1, n2, stmt, total) in enumerate(metas):
        a, b = outs[2 * i], outs[2 * i + 1]
        rep.add_eval(2)
        where = "within" if total <= m else "beyond"
        rep.count("budget:%s:%s:%s" % (shape, where, a["outcome"]))
        rep.nontrivial(("budget", shape, n1, n2, stmt))
        inp = {"files": [["t.mac", pairs[i][0][0][1][:200]]], "transformation": "unroll", "total_repetitions": total, "budget": m,
               "written_out": "%d copies of %r" % (n1, stmt)}
        if total <= m:
            if view(a) != view(b):
                rep.violate("repeat-unroll-at-budget:%s:%d" % (shape, total),
                            "'.repeat' within the repetition budget does not assemble to what the body written out assembles to",
                            dict(inp, files=[list(x) for x in pairs[i][0]], files_transformed=[["t.mac", "(%s)" % inp["written_out"]]]),
                            impl=brief(a), impl_transformed=brief(b))
        else:
            if not (a["outcome"] == "failed" and "value-out-of-bounds" in brief(a)["errors"]) or b["outcome"] != "ok":
                rep.disagree("beyond the repetition budget the model refuses the repeat (value-out-of-bounds) and assembles the written-out text",
                             inp, impl=[brief(a), {k: v for k, v in brief(b).items() if k != "code"}])
    rep.exhaustive_parts.append("repetition budget: totals %d / %d / %d flat and nested, empty and 1-byte bodies" % (m - 1, m, m + 1))


# ------------------------------------------------------------------------------------------------
# (2d) insert_file resolves its operand relative to the file that contains it
INS_NAMES = ["blob.bin", "data.bin"]
INS_DIRS = {0: "", 1: "other", 10: "sub", 11: "sub/deep", 12: "other"}


def insert_dirs_case(rng):
    """sources in several directories, every directory with its OWN blob.bin / data.bin (other size, other bytes);
    each 'insert_file "name"' stands for the file the name resolves to from the directory of the file that
    contains the statement.  -> dict(files fid -> stmts, ids, blobs (dir, name) -> bytes, decorated)"""
    r = rng
    blobs = {}
    for d in sorted(set(INS_DIRS.values())):
        for nm in range(len(INS_NAMES)):
            size = r.choice([0, 1, 2, 3, 7, 30] if r.random() < 0.95 else [300])
            blobs[(d, nm)] = bytes(r.randrange(256) for _ in range(size))

    def stmts(n, n_ins):
        out = []
        for _ in range(n):
            c = r.random()
            if c < 0.4:
                out += [("even",), ("dw", r.choice([0, 2, 4, 100]))]
            elif c < 0.8:
                out.append(("byte", [r.randrange(256) for _ in range(r.choice([1, 2, 4]))]))
            else:
                out.append(("blkb", r.choice([0, 1, 3])))
        groups = [[x] for x in out]
        # keep '.even' + '.word' together; an insert is followed by '.even' most of the time
        merged = []
        for g in groups:
            if merged and merged[-1][-1] == ("even",) and g[0][0] == "dw":
                merged[-1] += g
            else:
                merged.append(g)
        for _ in range(n_ins):
            ins = [("insn", r.randrange(len(INS_NAMES)))] + ([("even",)] if r.random() < 0.8 else [])
            merged.insert(r.randrange(len(merged) + 1), ins)
        return [x for g in merged for x in g]
    files = {0: stmts(r.randrange(1, 4), r.choice([1, 1, 2])), 10: stmts(r.randrange(1, 3), r.choice([1, 1, 2]))}
    ids = [0]
    if r.random() < 0.5:
        files[1] = stmts(r.randrange(1, 3), r.choice([1, 2]))
        ids = [0, 1] if r.random() < 0.5 else [1, 0]
    files[0].insert(r.randrange(len(files[0]) + 1), ("inc", 10))
    if r.random() < 0.5:
        files[11] = stmts(r.randrange(1, 3), 1)
        files[10].insert(r.randrange(len(files[10]) + 1), ("inc", 11))
    if r.random() < 0.4:
        files[12] = stmts(1, 1)
        files[r.choice(ids)].append(("inc", 12))
    for fid in files:
        files[fid].append(("even",))
    # real-file decorations the model does not have: other spellings of the same relative name, '.repeat'
    decorated = r.random() < 0.35
    return {"files": files, "ids": ids, "blobs": blobs, "decorated": decorated, "base": r.choice([None, 0o1000, 0o2000, 0o40000]),
            "deco_seed": r.randrange(1 << 30)}


def insert_dirs_render(case, as_bytes, root=""):
    """-> (linked [(name, text)], {path: text or bytes}) ; as_bytes: every insert written as the '.byte' data it stands for"""
    import os
    rd = random.Random(case["deco_seed"])
    texts = {}
    for fid, ss in sorted(case["files"].items()):
        d = INS_DIRS[fid]
        lines = []
        for st in ss:
            if st[0] == "insn":
                data = case["blobs"][(d, st[1])]
                name = INS_NAMES[st[1]]
                how = rd.randrange(4) if case["decorated"] else 0
                if how == 1:
                    name = "./" + name
                elif how == 2:
                    name = "../" + (os.path.basename(d) if d else ".") + "/" + name if d else "./" + name
                core = (".byte " + ", ".join(oct(b)[2:] for b in data)) if (as_bytes and data) else ("" if as_bytes else f'insert_file "{name}"')
                if how == 3:
                    lines += [".repeat 2 {", "    " + core, "    .even", "}"] if core else [".repeat 2 {", "    .even", "}"]
                elif core:
                    lines.append(core)
            elif st[0] == "inc":
                rel = os.path.relpath(os.path.join(INS_DIRS[st[1]], f"f{st[1]}.mac"), d or ".")
                lines.append(f'.include "{rel}"')
            else:
                lines.append(s_text(st, None))
        texts[fid] = "\n".join(lines) + "\n"
    if case["base"] is not None:
        texts[case["ids"][0]] = f".link {oct(case['base'])[2:]}\n" + texts[case["ids"][0]]

    def path(fid):
        return os.path.join(root, INS_DIRS[fid], f"f{fid}.mac") if root else os.path.join(INS_DIRS[fid], f"f{fid}.mac")
    fs = {path(fid): t for fid, t in texts.items()}
    for (d, nm), data in case["blobs"].items():
        fs[os.path.join(root, d, INS_NAMES[nm]) if root else os.path.join(d, INS_NAMES[nm])] = data
    return [(path(fid), texts[fid]) for fid in case["ids"]], fs


def insert_dirs_coq(case):
    def st(s, fid, as_bytes):
        k = s[0]
        if k == "insn":
            data = case["blobs"][(INS_DIRS[fid], s[1])]
            if as_bytes:
                return ("SStmt (Byte %s)" % C.zlist(list(data))) if data else None
            return "SInsertAt %d%%nat" % s[1]
        if k == "dw":
            return "SStmt (Plain (PDotWord %s))" % C.zlit(s[1])
        if k == "even":
            return "SStmt (Plain PEven)"
        if k == "blkb":
            return "SStmt (Plain (PBlkb %s))" % C.zlit(s[1])
        if k == "byte":
            return "SStmt (Byte %s)" % C.zlist(s[1])
        return "SStmt (Include %d%%nat)" % s[1]

    def tab(as_bytes):
        return "[" + "; ".join("(%d%%nat, [%s])" % (fid, "; ".join(x for x in (st(s, fid, as_bytes) for s in ss) if x))
                               for fid, ss in sorted(case["files"].items())) + "]"
    blobs = "[" + "; ".join("(%d%%nat, %d%%nat, %s)" % (fid, nm, C.zlist(list(case["blobs"][(INS_DIRS[fid], nm)])))
                            for fid in sorted(case["files"]) for nm in range(len(INS_NAMES))) + "]"
    ids = "[" + "; ".join("%d%%nat" % i for i in case["ids"]) + "]"
    base = case["base"] if case["base"] is not None else 0o1000
    return blobs, tab(False), tab(True), ids, C.zlit(base)


def insert_dirs_family(rep, rng, n_cases, with_model=True):
    import os
    import shutil
    basedir = os.path.realpath("/tmp/c16")
    root = os.path.join(basedir, "ins-%d" % os.getpid())
    os.makedirs(root, exist_ok=True)
    try:
        cases = [insert_dirs_case(rng) for _ in range(n_cases)]
        pairs, modes = [], []
        for i, cs in enumerate(cases):
            real = cs["decorated"] or i % 2 == 0
            if real:
                d = os.path.join(root, "c%d" % i)
                # the program tree, and a sibling tree for the reference (its included sources differ too)
                fa, fsa = insert_dirs_render(cs, False, d)
                fb, fsb = insert_dirs_render(cs, True, d + "_ref")
                for tree in (fsa, fsb):
                    for pth, data in tree.items():
                        os.makedirs(os.path.dirname(pth), exist_ok=True)
                        with open(pth, "wb") as f:
                            f.write(data if isinstance(data, bytes) else data.encode())
                pairs.append((fa, fb, None, None))
            else:
                fa, fsa = insert_dirs_render(cs, False)
                fb, fsb = insert_dirs_render(cs, True)
                pairs.append((fa, fb, fsa, fsb))
            modes.append("real" if real else "memory")
        outs = run_pairs(pairs)
        terms, tidx = [], []
        for i, (cs, (a, b)) in enumerate(zip(cases, outs)):
            rep.add_eval(2)
            rep.count("files:insert-dirs:%s%s:%s" % (modes[i], ":decorated" if cs["decorated"] else "", a["outcome"]))
            rep.nontrivial(("insert-dirs", digest(*[t for _, t in pairs[i][0]], str(sorted(cs["blobs"].items())))))
            if view(a) != view(b):
                fa0, fs0 = insert_dirs_render(cs, False, ROOT)
                fb0, fs1 = insert_dirs_render(cs, True, ROOT)
                rep.violate("insert-dirs:" + digest(*[t for _, t in fa0]),
                            "'insert_file' differs from the '.byte' data of the file its operand resolves to from the directory of the including file",
                            {"files": [list(x) for x in fa0], "files_transformed": [list(x) for x in fb0],
                             "real_files": {k[len(ROOT) + 1:]: (v if isinstance(v, str) else {"hex": v.hex()}) for k, v in fs0.items()},
                             "real_files_transformed": {k[len(ROOT) + 1:]: (v if isinstance(v, str) else {"hex": v.hex()}) for k, v in fs1.items()},
                             "transformation": "insert->.byte per occurrence", "note": "{ROOT} = a scratch directory holding real_files"},
                            impl=brief(a), impl_transformed=brief(b))
            if with_model and not cs["decorated"]:
                blobs, t1, t2, ids, base = insert_dirs_coq(cs)
                terms.append("(%s, %s, %s, %s, %s, %s, %s)" % (blobs, t1, t2, ids, base, obs_term(a), obs_term(b)))
                tidx.append(i)
        if cases:
            rep.sample({"insert_dirs_program": [list(x) for x in insert_dirs_render(cases[0], False)[0]], "impl": brief(outs[0][0])})
        if terms:
            codes = C.run_case_files(ID + "_ins", "Run.C16Run Model.Structure", "Open Scope Z_scope.", C.shard(terms, 150),
                                     judge_expr="map judge_inserts cases", cases_type="list icase")
            for i, code in zip(tidx, [x for sh in codes for x in sh]):
                rep.traces_validated += 1
                if code & 1:
                    rep.disagree("Model/Structure (insert_file keyed by including file and name) vs the implementation",
                                 {"files": [list(x) for x in pairs[i][0]]}, impl=[brief(outs[i][0]), brief(outs[i][1])])
    finally:
        shutil.rmtree(root, ignore_errors=True)
        try:
            os.rmdir(basedir)
        except OSError:
            pass


# ------------------------------------------------------------------------------------------------
# (2c) linked files that use each other's exported symbols, in any letter case
def _recase(rng, name, vary):
    if not vary:
        return name
    c = rng.randrange(3)
    if c == 0:
        return name.upper()
    if c == 1:
        return name.capitalize()
    return "".join(ch.upper() if i % 2 else ch for i, ch in enumerate(name))


def export_case(rng):
    """-> (kind, files) : 2-3 files with disjoint names; every cross-file reference goes through an export"""
    r = rng
    m = r.choice([2, 2, 3])
    vary = r.random() < 0.6            # references spelled in another letter case than the definition
    dup = r.random() < 0.15            # a case-variant duplicate of an export: duplicate-symbol in both forms
    syms = {}                          # name -> (file, is_label)
    bodies = [[] for _ in range(m)]
    forms_used = set()
    # '.extern all' exports every symbol of its file: in the concatenation that would include the other files'
    # explicit exports a second time, so a program either has ONE exporting file that uses '.extern all'
    # (the other files only refer to it) or explicit exports only
    allfile = r.randrange(m) if r.random() < 0.25 else None
    for i in range(m):
        extern_all = (i == allfile)
        if allfile is not None and not extern_all:
            bodies[i] += ["pv%dq = %s" % (i, oct(r.randrange(1, 100))[2:]), ".word pv%dq" % i]
            continue
        if extern_all and r.random() < 0.5:
            bodies[i].append(".extern " + _recase(r, "all", vary and r.random() < 0.3))
        for j in range(r.randrange(1, 4)):
            name = "ex%d%sq" % (i, "abc"[j])
            dname = _recase(r, name, vary and r.random() < 0.3)
            is_label = r.random() < 0.5
            form = "all" if extern_all else r.choice(["double", "extern-before", "extern-after"])
            forms_used.add(form + ("-label" if is_label else "-const"))
            if form == "extern-before":
                bodies[i].append(".extern " + _recase(r, name, vary and r.random() < 0.5))
            sep = {"double": ("::", " == "), "all": (":", " = "), "extern-before": (":", " = "), "extern-after": (":", " = ")}[form]
            if is_label:
                bodies[i] += [dname + sep[0], ".word %s" % oct(r.randrange(1, 0o7777))[2:]]
            else:
                bodies[i].append("%s%s%s" % (dname, sep[1], oct(r.randrange(0, 0o377))[2:]))
            if form == "extern-after":
                bodies[i].append(".extern " + _recase(r, name, vary and r.random() < 0.5))
            syms[name] = (i, is_label)
        if extern_all and not any(l.lower().startswith(".extern all") for l in bodies[i]):
            bodies[i].append(".extern " + _recase(r, "all", vary and r.random() < 0.3))
        # private (not exported) names, disjoint between the files
        if not extern_all:
            bodies[i] += ["pv%dq = %s" % (i, oct(r.randrange(1, 100))[2:]), ".word pv%dq" % i]
    names = sorted(syms)
    for i in range(m):
        for _ in range(r.randrange(1, 4)):
            n = r.choice(names)
            ref = _recase(r, n, vary)
            c = r.randrange(4)
            if c == 0:
                bodies[i].append(".word " + ref)
            elif c == 1:
                bodies[i].append("mov #%s, r%d" % (ref, r.randrange(6)))
            elif c == 2 and syms[n][1]:
                bodies[i].append("mov %s, @#%s" % (ref, ref))
            else:
                bodies[i].append(".word %s + 2, %s - 1" % (ref, ref))
    if dup:
        n = r.choice(names)
        j = r.choice([k for k in range(m) if k != syms[n][0]])
        bodies[j] += [_recase(r, n, True) + ("::" if r.random() < 0.5 else " == 5"), "nop"]
    order = list(range(m))
    r.shuffle(order)
    files = []
    if r.random() < 0.5:
        bodies[order[0]].insert(0, ".link %s" % oct(r.choice([0o1000, 0o2000, 0o40000]))[2:])
    for i in order:
        files.append(("g%d.mac" % i, "\n".join(bodies[i]) + "\n"))
    kind = "exports:" + ("case-varied" if vary else "same-case") + (":dup" if dup else "") + (":reversed" if order != sorted(order) else "")
    return kind, files, forms_used


def exports_family(rep, rng, n_cases):
    items = [export_case(rng) for _ in range(n_cases)]
    pairs = [(files, [("g.mac", "".join(t for _, t in files))], None) for _, files, _ in items]
    outs = run_pairs(pairs)
    for (kind, files, forms), (fa, fb, _), (a, b) in zip(items, pairs, outs):
        rep.add_eval(2)
        rep.count("files:%s:%s" % (kind.replace("exports:", "exports-"), a["outcome"]))
        for f in forms:
            rep.count("export-form:" + f)
        rep.nontrivial(("exports", digest(*[t for _, t in files])))
        if view(a) != view(b):
            rep.violate("link-exports:" + digest(*[t for _, t in files]),
                        "files that use each other's exported symbols do not link to what their concatenation assembles to",
                        {"files": [list(x) for x in fa], "files_transformed": [list(x) for x in fb], "transformation": "concat (" + kind + ")"},
                        impl=brief(a), impl_transformed=brief(b))
    if items:
        rep.sample({"exports_program": [list(x) for x in items[0][1]], "impl": brief(outs[0][0])})


# ------------------------------------------------------------------------------------------------
# (2b) '.once' and the spelling of include paths: real files
ROOT = "{ROOT}"
LIB_SPELLINGS = ["lib.mac", "./lib.mac", "sub/../lib.mac", ROOT + "/lib.mac", ROOT + "/./lib.mac", ROOT + "//lib.mac",
                 ROOT + "/sub/../lib.mac", "sub/./../lib.mac", ROOT + "/sub/..//lib.mac"]


def path_case(rng):
    """-> (kind, real files {relpath: template}, linked files of the program, linked files of the reference)
    The '.once' file lib.mac is reached 2-3 times, by any mix of routes: given as a linked file (before and / or
    after main, by its absolute normalised path -- linked files are named as typed), '.include'd from main under
    some spelling of its path, '.include'd inside a '.repeat', or through a nested include resolved relative to
    the including file.  Reference: the program with every occurrence after the first one deleted."""
    r = rng
    lib = ".once\nlibfn: mov #%s, r0\n.word ., libfn\n" % oct(r.randrange(1, 200))[2:]
    files = {"lib.mac": lib,
             "sub/inner.mac": "clr r4\n.include \"../lib.mac\"\nclr r5\n",          # relative to sub/
             "sub/inner_nolib.mac": "clr r4\nclr r5\n",
             "sub/deep/inner2.mac": "inc r4\n.include \"../../sub/../lib.mac\"\n",
             "sub/deep/inner2_nolib.mac": "inc r4\n"}
    k = r.choice([2, 2, 3])
    want_linked = r.random() < 0.5
    before = after = 0
    if want_linked:
        c = r.randrange(4)
        before, after = [(1, 0), (0, 1), (1, 1), (1, 0)][c]
    n_inc = max(0, k - before - after)
    if before + after + n_inc < 2:
        n_inc = 2 - before - after
    uses = []
    for i in range(n_inc):
        c = r.random()
        if c < 0.18:
            uses.append(("nested", "sub/inner.mac", "sub/inner_nolib.mac"))
        elif c < 0.27:
            uses.append(("nested", "sub/deep/inner2.mac", "sub/deep/inner2_nolib.mac"))
        elif c < 0.36:
            uses.append(("nested", ROOT + "/sub/./inner.mac", "sub/inner_nolib.mac"))
        elif c < 0.5:
            uses.append(("repeat", r.choice(LIB_SPELLINGS), None))
        else:
            uses.append(("direct", r.choice(LIB_SPELLINGS), None))
    if not want_linked and len(uses) >= 2 and all(u[1] == uses[0][1] for u in uses) and uses[0][0] == "direct":
        uses[-1] = ("direct", r.choice([x for x in LIB_SPELLINGS if x != uses[0][1]]), None)
    main, ref = [], []
    if not before and r.random() < 0.5:
        main.append(".link %s" % oct(r.choice([0o1000, 0o2000, 0o40000]))[2:])
        ref.append(main[-1])
    seen = bool(before)                  # has lib.mac been compiled already?
    for i, (how, path, nolib) in enumerate(uses):
        filler = "clr r%d" % (i % 4)
        main.append(filler)
        ref.append(filler)
        if how == "repeat":
            n = r.choice([2, 3])
            main += [".repeat %d {" % n, '    .include "%s"' % path, "    inc r2", "}"]
            if seen:
                ref += ["inc r2"] * n
            else:
                ref += ['.include "%s"' % path] + ["inc r2"] * n
        else:
            main.append('.include "%s"' % path)
            if not seen:
                ref.append('.include "%s"' % path)
            elif how == "nested":
                ref.append('.include "%s"' % nolib)
        seen = True
    main.append("halt")
    ref.append("halt")
    main_t, ref_t = "\n".join(main) + "\n", "\n".join(ref) + "\n"
    lib_linked = (ROOT + "/lib.mac", lib)
    prog = [lib_linked] * before + [(ROOT + "/main.mac", main_t)] + [lib_linked] * after
    reference = [lib_linked] * before + [(ROOT + "/main.mac", ref_t)] + ([lib_linked] if (after and not before and not uses) else [])
    tags = ["linked-before"] * before
    for u in uses:
        tags.append(("abs" if u[1].startswith(ROOT) else "rel") + {"nested": "-nested", "repeat": "-in-repeat", "direct": ""}[u[0]]
                    + ("-unnormalised" if u[1].startswith(ROOT) and ("/./" in u[1] or "//" in u[1] or "/../" in u[1]) else ""))
    tags += ["linked-after"] * after
    return "once-paths:" + "+".join(tags), files, prog, reference


def materialise(root, files):
    import os
    for rel, text in files.items():
        path = os.path.join(root, rel)
        os.makedirs(os.path.dirname(path), exist_ok=True)
        if isinstance(text, dict):
            with open(path, "wb") as f:
                f.write(bytes.fromhex(text["hex"]))
            continue
        with open(path, "w") as f:
            f.write(text.replace(ROOT, root))


def paths_family(rep, rng, n_cases):
    import os
    import shutil
    base = os.path.realpath("/tmp/c16")
    root = os.path.join(base, "paths-%d" % os.getpid())
    os.makedirs(root, exist_ok=True)
    try:
        items, pairs = [], []
        for i in range(n_cases):
            kind, files, prog, ref = path_case(rng)
            d = os.path.join(root, "c%d" % i)
            materialise(d, files)
            items.append((kind, files, prog, ref, d))
            pairs.append(([(fn.replace(ROOT, d), t.replace(ROOT, d)) for fn, t in prog],
                          [(fn.replace(ROOT, d), t.replace(ROOT, d)) for fn, t in ref], None))
        outs = run_pairs(pairs)
        for (kind, files, prog, ref, d), (a, b) in zip(items, outs):
            rep.add_eval(2)
            rep.count("files:" + kind.split(":")[0] + ":" + a["outcome"])
            spell = kind.split(":")[1].split("+")
            rep.count("paths:occurrences=%d" % len(spell))
            for tag in ("abs", "rel", "linked"):
                if any(x.startswith(tag) for x in spell):
                    rep.count("paths:has-" + tag)
            for tag in ("nested", "unnormalised", "in-repeat", "linked-before", "linked-after"):
                if any(tag in x for x in spell):
                    rep.count("paths:has-" + tag)
            rep.nontrivial(("paths", digest(*[t for _, t in prog], files["lib.mac"])))
            if view(a) != view(b):
                rep.violate("once-paths:" + digest(*[fn + t for fn, t in prog]),
                            "a '.once' file reached a second time (linked, listed twice, included, included in a repeat, another spelling of its path) contributed again",
                            {"files": [list(x) for x in prog], "files_transformed": [list(x) for x in ref], "real_files": files,
                             "transformation": kind, "note": "{ROOT} = a scratch directory holding real_files"},
                            impl=brief(a), impl_transformed=brief(b))
        if items:
            rep.sample({"once_paths_program": [list(x) for x in items[0][2]], "reference": [list(x) for x in items[0][3]], "impl": brief(outs[0][0])})
    finally:
        shutil.rmtree(root, ignore_errors=True)
        try:
            os.rmdir(base)
        except OSError:
            pass


# ------------------------------------------------------------------------------------------------
def explore(rep, br, tier, seed):
    rng = random.Random(seed)
    quick = tier == "quick"
    # the model-free part first: it must report even when the models no longer evaluate
    err = None
    try:
        repeat_family(rep, rng, 420 if quick else 9000, 6, with_model=True, all_counts=True)
        rep.exhaustive_parts.append("every repeat count n = 0..40 (literal) with a generated body, base set first / last / defaulted at random")
    except RuntimeError as ex:
        err = ex
    budget_family(rep, quick)
    try:
        structure_family(rep, rng, 240 if quick else 4800, with_model=True)
    except RuntimeError as ex:
        err = err or ex
    paths_family(rep, rng, 80 if quick else 800)
    exports_family(rep, rng, 120 if quick else 1500)
    try:
        insert_dirs_family(rep, rng, 80 if quick else 1000, with_model=True)
    except RuntimeError as ex:
        err = err or ex
    rich_family(rep, rng, 60 if quick else 1200)
    probe_dot_assign(rep)
    probe_end_colon(rep)
    rep.notes.append("repeat/unroll and the five file transformations are judged on the implementation alone; the Coq judge repeats the comparison "
                     "of the two observed images and checks both against the models")
    if err is not None:
        raise err
    # check.py starts the search only when no violation at all was recorded; the known finding is always
    # recorded here, so the search for a NEW failing input is started from here
    if (br is not None and not br.ok) or rep.disagreements:
        if not any(v["signature"] not in (KNOWN_END, KNOWN_END_CONT) for v in rep.violations):
            C.log("search: obligations or correspondence broken; looking for a concrete failing input (model-free)")
            search(rep, br, tier, seed)


KNOWN_END = "end-inside-repeat"


KNOWN_END_CONT = "end-followed-by-continuation"


def probe_end_colon(rep):
    """known finding: '.end' followed by a line whose first significant character is ':' (any spelling), or '=' / an
    infix operator (dotless 'end'), is read as the label '.end:' / the definition 'end = ...' / an expression -- a
    statement may continue on the next line -- so the tail is NOT discarded.  Only these shapes carry the signature."""
    ref_text = ".word 1\n"
    b = impl.assemble([("t.mac", ref_text)])
    # ('.end' / '= 5' does NOT reproduce: only the dotless spelling is read as the definition 'end = 5')
    for sp, tail in ((".end", ":::\n"), ("end", "= 5\n.word 7\n"), ("end", "^Rabc\n")):
        text = ".word 1\n" + sp + "\n" + tail
        a = impl.assemble([("t.mac", text)])
        rep.add_eval(2)
        differs = view(a) != view(b)
        rep.count("probe:end-then-%s:%s" % ({":": "colon", "=": "equals", "^": "operator"}[tail[0]], "differs" if differs else "same"))
        if differs:
            rep.violate(KNOWN_END_CONT, "text after '.end' is not discarded when its first significant line starts with ':' (any spelling), or with '=' or an operator after the dotless 'end'",
                        {"files": [["t.mac", text]], "files_transformed": [["t.mac", ref_text]], "transformation": "cut at .end"},
                        impl=brief(a), impl_transformed=brief(b))


def probe_dot_assign(rep):
    """reported candidate, outside the generated domain ('. = X' in a body is only generated after a '.link'):
    a '.repeat' whose count is a forward reference is compiled after the base is known, so '. = . + 0'
    inside it is a skip, while the same line written out is met before the base is known and sets the base"""
    a = impl.assemble([("t.mac", ".repeat a {\n. = . + 0\n}\n.word 1\na = 2\n.link 2000\n")])
    b = impl.assemble([("t.mac", ". = . + 0\n. = . + 0\n.word 1\na = 2\n.link 2000\n")])
    rep.add_eval(2)
    rep.count("probe:dot-assign-in-deferred-repeat:" + ("differs" if view(a) != view(b) else "same"))
    if view(a) != view(b):
        rep.notes.append("candidate (not judged): '.repeat a { . = . + 0 }' with 'a' and '.link' defined afterwards assembles (%s) while the "
                         "written-out text fails (%s)" % (brief(a)["outcome"], ",".join(brief(b)["errors"]) or brief(b)["outcome"]))


def search_without_model(rep, tier, seed):
    if not any(v["signature"] not in (KNOWN_END, KNOWN_END_CONT) for v in rep.violations):
        search(rep, None, tier, seed)


def search(rep, br, tier, seed):
    """obligations or correspondence broken and nothing found yet: larger model-free sweep, other seeds"""
    for k in range(1, 4 if tier == "quick" else 8):
        rng = random.Random(seed * 7919 + k)
        repeat_family(rep, rng, 600, 0, with_model=False, label="search-repeat")
        structure_family(rep, rng, 300, with_model=False)
        paths_family(rep, rng, 100)
        exports_family(rep, rng, 200)
        insert_dirs_family(rep, rng, 150, with_model=False)
        rich_family(rep, rng, 80)
        if any(v["signature"] not in (KNOWN_END, KNOWN_END_CONT) for v in rep.violations):
            return


def replay(data):
    inp = data["input"]
    if inp.get("real_files"):
        import os
        import shutil
        base = os.path.realpath("/tmp/c16")
        root = os.path.join(base, "replay-%d" % os.getpid())
        try:
            materialise(root, inp["real_files"])
            root2 = root
            if inp.get("real_files_transformed"):
                root2 = root + "_ref"
                materialise(root2, inp["real_files_transformed"])
            a = impl.assemble([(fn.replace(ROOT, root), t.replace(ROOT, root)) for fn, t in inp["files"]])
            b = impl.assemble([(fn.replace(ROOT, root2), t.replace(ROOT, root2)) for fn, t in inp["files_transformed"]])
        finally:
            shutil.rmtree(root, ignore_errors=True)
            shutil.rmtree(root + "_ref", ignore_errors=True)
            try:
                os.rmdir(base)
            except OSError:
                pass
        print("program:            ", brief(a))
        print("transformed program:", brief(b))
        return view(a) == view(b)
    fa = [tuple(x) for x in inp["files"]]
    fb = [tuple(x) for x in inp["files_transformed"]]
    fs_a = _fs_back(inp.get("fs")) if inp.get("fs") else None
    fs_b = _fs_back(inp.get("fs_transformed")) if inp.get("fs_transformed") else fs_a
    a = impl.assemble(fa, fs=fs_a)
    b = impl.assemble(fb, fs=fs_b)
    print("program:            ", brief(a))
    print("transformed program:", brief(b))
    return view(a) == view(b)
