"""C06 -- data directives store exactly the stated value or refuse (DESIGN 4 C06)."""
import random

import common as C
import impl
import c06_direct as D

ID = "C06"
PROP_FILES = ["Props/C06.v"]
RUN_FILES = ["Run/C06Ref.v", "Run/C06Run.v"]
RULE = ("get_as_int: the real function on a stub token over a grid bitness x unsigned x default x value (every boundary "
        "0, +-1, +-(2^n-1), +-2^n, +-(2^n+1) for n in 3,6,8,16,32 plus seeded values); metacommand table by introspection; "
        "directives: every data directive x 0-8 operands x boundary values of every width x both address parities, fills with "
        "counts around 0 and 2^16, .align moduli 0-64 x offsets 0-70 (all pairs), .ascii/.asciz over chunk lists mixing strings "
        "(every escape form, non-ASCII, unencodable) and <n> bytes around 0/255/256 in charsets bk utf-8 koi8-r latin-1 cp866, "
        "implicit word lists; each driven directly through Compiler.compile_insn at a deferred emit address (bytes, diagnostics in "
        "order, announced size) and a subset end to end through the assembler (.byte 0 / .link prefix); quoted strings: "
        "escape(s) round trips, every escape form, malformed escapes, through parser.quoted_string; Python's whitespace and "
        "lower() classes over all 0x110000 code points; values written as character literals ('c, \"cc: one/two characters of one, "
        "two or more bytes, unencodable) alone and among numeric operands of .byte/.word/.dword in all five charsets, direct and end "
        "to end; programs of directives one after another and inside .repeat (every address-dependent directive x 0-3 bytes before "
        "it x 0-1 after it x count 2-3 x both base parities, as a .repeat and written out; counts 0/1/4/-1; seeded programs of 1-4 "
        "items, repeat counts 0-4, bodies of 1-4 directives, bases of both parities) assembled end to end. non-trivial = distinct (directive, operands, address parity, charset) whose "
        "operands are not all zero, or a distinct string containing an escape")
LEVEL_TEXT = ("Coq theorems over get_as_int, the operand typing, the size lambdas and the bodies of blkb/blkw/even/odd/align regenerated "
              "from metacommand_impl.py/metacommands.py on every run, and over a hand model of compile_insn, byte/word/dword, "
              "ascii_impl, compile_word_list and string_escape: accept iff the magnitude fits, little-endian bytes of v mod 2^n, "
              "dword high word first, exact zero fills, least alignment padding, ascii = concatenation of chunk encodings, refusal "
              "never yields an image, announced size = emitted length, unescape(escape s) = s; the model meets Spec/DataSpec.v for "
              "every directive, operand list and address (unbounded Z); a character literal without a value in the output charset "
              "(unencodable, or more than two bytes) is refused under any codec; every copy of every directive in a sequence or a "
              ".repeat body stores its stated image at the address where the bytes before it end, or the program is refused "
              "(Spec/DataBlockSpec.v, Model/DirectivesSeq.v).")
LEVEL_NOTE = ("Trusted: Coq kernel + vm_compute, tools/gens/gen_meta.py (translation of get_as_int, size lambdas, one-liners; pins of "
              "Metacommand.__init__/compile_insn), the harness, Spec/DataSpec.v, CPython (struct, codecs). The hand-modelled bodies "
              "(byte, word, dword, ascii_impl, compile_word_list, string_escape, CharLiteral.resolve, the address threading of "
              "compile_block / repeat) are tied by correspondence only. For utf-8, koi8-r, "
              "latin-1, cp866 Python's codec is an oracle. Print Assumptions: closed under the global context for every theorem.")
TECHNIQUE = "Coq proof over regenerated functions/tables + model/implementation correspondence + model-free Spec judge in coqc"
ASSUME = ["Python's int, bytes, struct.pack and codecs behave as documented",
          "operand expressions are already evaluated to integers (expression evaluation is C05's subject)",
          "for charsets other than bk, str.encode is the definition of the charset (oracle)"]
TRUSTED = ["tools/gens/gen_meta.py: translation of get_as_int / size lambdas / one-liner bodies and the pinned shapes of Metacommand.__init__ / compile_insn",
           "tools/c06_direct.py: direct drives of get_as_int, Compiler.compile_insn, parser.quoted_string"]

REQUIRES = "Spec.DataSpec Run.Show Run.C06Ref Run.C06Run"
REQUIRES_REF = "Spec.DataSpec Run.Show Run.C06Ref"
OPENS = "Open Scope string_scope.\nOpen Scope list_scope.\nOpen Scope Z_scope."

WIDTH = {".byte": 8, ".db": 8, ".word": 16, ".dw": 16, ".dword": 32}
CHARSETS = ["bk", "utf-8", "koi8-r", "latin-1", "cp866"]
META_NAMES = [".byte", ".word", ".dword", ".ascii", ".asciz", ".blkb", ".blkw", ".even", ".odd", ".align"]


# ---------------------------------------------------------------------------------------------
# Coq printing
def zl(x):
    return C.zlit(x)


def optz(x):
    return "None" if x is None else f"(Some {zl(x)})"


def zlist(xs):
    return "[" + "; ".join(zl(x) for x in xs) + "]"


def cbool(b):
    return "true" if b else "false"


def diags_term(ds):
    return "[" + "; ".join(f"({'RW' if s == 'W' else 'RE'}, {C.coq_str(i)})" for s, i in ds) + "]"


def ids_term(ds):
    return "[" + "; ".join(C.coq_str(i) for _, i in ds) + "]"


def rdir_term(c):
    if c["kind"] == "meta":
        ops = "[" + "; ".join(f"({cbool(h)}, {zl(v)})" for h, v in c["ops"]) + "]"
        return f"RMeta {C.coq_str(c['name'])} {ops}"
    if c["kind"] == "ascii":
        ops = []
        for chunks in c["opsc"]:
            ops.append("[" + "; ".join((f"RStr {zlist(x[1])}" if x[0] == "s" else f"RCode {zl(x[1])}") for x in chunks) + "]")
        return f"RAscii {cbool(c['z'])} [" + "; ".join(ops) + "]"
    return f"RWordList {zlist(c['ws'])}"


def strings_of(c):
    """every string (code points) whose bytes in the output charset the case depends on"""
    if c.get("t") == "items":
        out = []
        for it in c["items"]:
            for d in ([it[1]] if it[0] == "one" else it[2]):
                out += strings_of(d)
        return out
    if c["kind"] == "ascii":
        return [x[1] for chunks in c["opsc"] for x in chunks if x[0] == "s"]
    if c["kind"] == "lit":
        return [x[1] for x in c["lops"] if x[0] == "l"]
    return []


def oracle_term(c, charset=None):
    """Python's own str.encode for every string of the case: the definition of the charset (oracle)"""
    charset = charset or c["charset"]
    seen, rows = set(), []
    for st in strings_of(c):
        if tuple(st) not in seen:
            seen.add(tuple(st))
            try:
                b = "".join(chr(k) for k in st).encode(charset)
                rows.append(f"({zlist(st)}, Some {zlist(list(b))})")
            except UnicodeEncodeError:
                rows.append(f"({zlist(st)}, None)")
    return "[" + "; ".join(rows) + "]"


def rops_term(lops):
    return "[" + "; ".join((f"RLit {zlist(x[1])}" if x[0] == "l" else f"RVal {zl(x[1])}") for x in lops) + "]"


def rdirl_term(d):
    if d["kind"] == "lit":
        return f"RLitDir {C.coq_str(d['name'])} {rops_term(d['lops'])}"
    return f"RPlain ({rdir_term(d)})"


def ritem_term(it):
    if it[0] == "one":
        return f"ROne ({rdirl_term(it[1])})"
    return f"RRepeat {zl(it[1])} [" + "; ".join(rdirl_term(d) for d in it[2]) + "]"


def obs_term_dir(o):
    k = o["kind"]
    if k == "out":
        return f"ROut {diags_term(o['diags'])} {zlist(o['bytes'])}"
    if k == "raised":
        return f"RRaised {diags_term(o['diags'])}"
    if k == "failed":
        return f"RFailed {diags_term(o['diags'])}"
    return "RCrash"


def ann_term(o):
    a = o.get("announced")
    if not a or a[0] == "eager":
        return "None"
    if a[0] == "sized" and isinstance(a[1], int):
        return f"(Some (Some {zl(a[1])}))"
    if a[0] == "deferred":
        return "(Some None)"
    return "None"


def case_term(c, o):
    t = c["t"]
    if t == "gai":
        k = o["kind"]
        ob = {"ret": lambda: f"GRet {zl(o['v'])}", "errret": lambda: f"GErrRet {C.coq_str(o['id'])} {zl(o['v'])}",
              "errraise": lambda: f"GErrRaise {C.coq_str(o['id'])}"}.get(k, lambda: "GOther")()
        return f"CGai {optz(c['b'])} {cbool(c['u'])} {optz(c['d'])} {zl(c['v'])} ({ob})"
    if t == "meta":
        sizes = "[" + "; ".join(optz(s) for s in o["sizes"]) + "]"
        return (f"CMeta {C.coq_str(o['name'])} [" + "; ".join(C.coq_str(a) for a in o["aliases"]) + f"] {cbool(o['raw'])} ["
                + "; ".join(C.coq_str(h) for h in o["hints"]) + f"] {zl(o['min'])} {optz(o['max'])} {sizes}")
    if t == "dir":
        return (f"CDir {cbool(c['charset'] == 'bk')} ({rdir_term(c)}) {zl(c['addr'])} {oracle_term(c)} {ann_term(o)} ({obs_term_dir(o)})")
    if t == "dirl":
        return (f"CDirL {cbool(c['charset'] == 'bk')} {C.coq_str(c['name'])} {rops_term(c['lops'])} {zl(c['addr'])} "
                f"{oracle_term(c)} {ann_term(o)} ({obs_term_dir(o)})")
    if t == "items":
        return (f"CItems {cbool(c['charset'] == 'bk')} [" + "; ".join(ritem_term(it) for it in c["items"]) + f"] {zl(c['addr'])} "
                f"{oracle_term(c)} ({obs_term_dir(o)})")
    if t == "scan":
        exp = "None" if c.get("expect") is None else f"(Some ({zlist(c['expect'][0])}, {zlist(c['expect'][1])}))"
        k = o["kind"]
        if k == "ok":
            ob = f"SOk {zlist(o['value'])} {ids_term(o['diags'])} {zlist(o['rest'])}"
        elif k == "critical":
            ob = f"SUnterminated {ids_term([d for d in o['diags'] if d[0] != 'C'])}"
        else:
            ob = f"SCrash {ids_term(o['diags'])}"
        return f"CScan {zl(c['q'])} {zlist(c['text'])} {exp} ({ob})"
    if t == "class":
        return f"CClass {zlist(o['spaces'])} [" + "; ".join(f"({a}, {b})" for a, b in o["lowers"]) + "]"
    raise AssertionError(t)


# ---------------------------------------------------------------------------------------------
# source text
def escape_py(s):
    """mirror of Spec.DataSpec.escape (checked in Coq for every generated case: prop_scan)"""
    out = []
    for c in s:
        if c == 10:
            out += [92, 110]
        elif c == 13:
            out += [92, 114]
        elif c == 9:
            out += [92, 116]
        elif c == 92:
            out += [92, 92]
        elif c in (34, 39, 47):
            out += [92, c]
        elif c < 32 or 127 <= c < 256:
            out += [92, 120] + [ord(h) for h in "%02x" % c]
        else:
            out.append(c)
    return out


def num(v):
    return (f"-{-v}." if v < 0 else f"{v}.")


def source_of(c, symbolic):
    """(source line, symbols) of an abstract directive; symbolic: operands are symbols v0.. defined later"""
    syms = {}

    def val(v):
        if symbolic:
            name = f"v{len(syms)}"
            syms[name] = v
            return name
        return num(v)
    if c["kind"] == "meta":
        ops = ", ".join(("#" if h else "") + val(v) for h, v in c["ops"])
        return (c["name"] + (" " + ops if ops else "")), syms
    if c["kind"] == "lit":
        # 'c : one character, "cc : two characters (no closing quote)
        ops = ", ".join((("'" if len(x[1]) == 1 else '"') + "".join(chr(k) for k in x[1])) if x[0] == "l" else val(x[1]) for x in c["lops"])
        return (c["name"] + (" " + ops if ops else "")), syms
    if c["kind"] == "ascii":
        parts = []
        for i, chunks in enumerate(c["opsc"]):
            q = c.get("quotes", [34])[i % len(c.get("quotes", [34]))]
            txt = ""
            for x in chunks:
                if x[0] == "s":
                    txt += chr(q) + "".join(chr(k) for k in escape_py(x[1])) + chr(q)
                else:
                    txt += "<" + val(x[1]) + ">"
            parts.append(txt)
        return (".asciz" if c["z"] else ".ascii") + (" " + ", ".join(parts) if parts else ""), syms
    return ", ".join(num(v) for v in c["ws"]), syms


# ---------------------------------------------------------------------------------------------
# case generation
def boundaries(n):
    p = 1 << n
    return [0, 1, -1, p - 1, -(p - 1), p, -p, p + 1, -(p + 1)]


def value_pool(rng, n):
    inside = [v for v in boundaries(n) if abs(v) < (1 << n)] + [(1 << (n - 1)), -(1 << (n - 1)), (1 << (n - 1)) - 1, 2, 0x55 % (1 << n)]
    outside = [v for v in boundaries(n) if abs(v) >= (1 << n)] + [1 << (n + 3), -(1 << (n + 8)) - 5]
    return inside, outside


def gen_gai(rng, tier):
    vals = set()
    for n in (3, 6, 8, 16, 32):
        vals.update(boundaries(n))
        vals.update([(1 << (n - 1)), -(1 << (n - 1))])
    for _ in range(40 if tier == "quick" else 400):
        vals.add(rng.choice([1, -1]) * rng.getrandbits(rng.choice([2, 7, 9, 15, 17, 31, 33, 70])))
    cases = []
    for b in (None, 0, 1, 3, 6, 8, 16, 32):
        for u in (False, True):
            for d in (None, 0, 7):
                for v in sorted(vals):
                    cases.append({"t": "gai", "b": b, "u": u, "d": d, "v": v})
    return cases


def gen_value_dirs(rng, tier):
    cases = []
    reps = 2 if tier == "quick" else 8
    for name in (".byte", ".word", ".dword", ".db", ".dw"):
        n = WIDTH[name]
        inside, outside = value_pool(rng, n)
        others = [v for m in (8, 16, 32) for v in boundaries(m)]
        for k in range(0, 9):
            vecs = []
            if k == 0:
                vecs.append([])
            else:
                # every boundary value of the own width appears at every count (rotating position)
                allb = boundaries(n)
                for j, v in enumerate(allb):
                    vec = [rng.choice(inside) for _ in range(k)]
                    vec[(j + k) % k] = v
                    vecs.append(vec)
                for _ in range(reps):
                    vecs.append([rng.choice(inside) for _ in range(k)])
                    vec = [rng.choice(inside + others) for _ in range(k)]
                    vecs.append(vec)
                    vec = [rng.choice(inside) for _ in range(k)]
                    vec[rng.randrange(k)] = rng.choice(outside)
                    vecs.append(vec)
                    vecs.append([rng.choice([1, -1]) * rng.getrandbits(n + rng.choice([-3, -1, 0, 1])) for _ in range(k)])
            for vec in vecs:
                for addr in (512, 513):
                    ops = [(False, v) for v in vec]
                    cases.append({"t": "dir", "kind": "meta", "name": name, "ops": ops, "addr": addr, "charset": "bk"})
            if k >= 1:
                vec = [rng.choice(inside) for _ in range(k)]
                ops = [(i == rng.randrange(k) or rng.random() < 0.2, v) for i, v in enumerate(vec)]
                cases.append({"t": "dir", "kind": "meta", "name": name, "ops": ops, "addr": rng.choice([512, 513]), "charset": "bk"})
    # unusual addresses
    for name in (".word", ".dword", ".byte"):
        for addr in (0, 1, 2, 3, 65535, 65536, 0o177777, 100001):
            cases.append({"t": "dir", "kind": "meta", "name": name, "ops": [(False, 0x1234), (False, -2)], "addr": addr, "charset": "bk"})
    return cases


def gen_fills(rng, tier):
    cases = []
    counts = [0, 1, 2, 3, 40, 255, 256, 65535, 65536, 65537, -1, -2, -65535, -65536, 1 << 20, -(1 << 20), 1 << 32, 1 << 50, -(1 << 50)]
    if tier != "quick":
        counts += ([rng.randrange(0, 65536) for _ in range(4)] + [rng.randrange(0, 3000) for _ in range(20)]
                   + [rng.randrange(-70000, 0) for _ in range(10)] + [rng.randrange(65536, 140000) for _ in range(10)])
    for name in (".blkb", ".blkw"):
        for n in counts:
            if n > 3000 and tier == "quick" and n < 65536 and n != 65535:
                continue
            for addr in (512, 513):
                cases.append({"t": "dir", "kind": "meta", "name": name, "ops": [(False, n)], "addr": addr, "charset": "bk"})
        for k in (0, 2, 3, 4, 5, 6, 7, 8):
            cases.append({"t": "dir", "kind": "meta", "name": name, "ops": [(False, rng.choice([0, 1, 2]))] * k, "addr": 512, "charset": "bk"})
        cases.append({"t": "dir", "kind": "meta", "name": name, "ops": [(True, 3)], "addr": 512, "charset": "bk"})
    for name in (".even", ".odd"):
        for addr in (0, 1, 2, 3, 512, 513, 65535, 65536):
            cases.append({"t": "dir", "kind": "meta", "name": name, "ops": [], "addr": addr, "charset": "bk"})
        for k in range(1, 9):
            cases.append({"t": "dir", "kind": "meta", "name": name, "ops": [(False, rng.choice([0, 1, 2]))] * k, "addr": rng.choice([512, 513]), "charset": "bk"})
    for c in range(0, 65):
        for off in range(0, 71):
            cases.append({"t": "dir", "kind": "meta", "name": ".align", "ops": [(False, c)], "addr": off, "charset": "bk"})
    for c in (-1, -2, -64, 65, 100, 256, 1000, 4096, 65535, 65536, 70000, 1 << 32, 1 << 50, -(1 << 50)):
        for off in (0, 1, 511, 512, 513, 4095, 65535):
            if 0 < c and (-off) % c > 5000 and tier == "quick":
                continue
            cases.append({"t": "dir", "kind": "meta", "name": ".align", "ops": [(False, c)], "addr": off, "charset": "bk"})
    for k in (0, 2, 3, 4, 5, 6, 7, 8):
        cases.append({"t": "dir", "kind": "meta", "name": ".align", "ops": [(False, 4)] * k, "addr": 513, "charset": "bk"})
    return cases


ALPHA = {
    "bk": [65, 97, 48, 32, 126, 0x41F, 0x440, 0x438, 0x2502, 0xA4, 0x25A0, 0x44F],
    "utf-8": [65, 97, 0xE9, 0x41F, 0x20AC, 0x1F600, 0x7F, 0x80],
    "koi8-r": [65, 97, 0x41F, 0x44F, 0x2500, 0xA0, 0x401],
    "latin-1": [65, 97, 0xE9, 0xFF, 0xA0, 0x80],
    "cp866": [65, 97, 0x41F, 0x44F, 0x2591, 0xA0, 0x401],
}
SPECIAL = [10, 13, 9, 92, 34, 39, 47, 0, 1, 27, 31, 127, 128, 159, 255]
BAD = {"bk": [0x20AC, 0x1F600, 0x401, 0xE9, 0x7F], "utf-8": [0xD800, 0xDFFF], "koi8-r": [0x20AC, 0xE9, 0x1F600],
       "latin-1": [0x100, 0x41F, 0x20AC], "cp866": [0x20AC, 0xE9, 0x1F600]}
CODES = [0, 1, 65, 127, 128, 255, 256, 257, -1, -255, -256, 300, 65535, 1 << 20]


def gen_string(rng, cs, bad_p):
    ln = rng.choice([0, 1, 1, 2, 3, 5, 8])
    s = []
    for _ in range(ln):
        r = rng.random()
        if r < bad_p:
            s.append(rng.choice(BAD[cs]))
        elif r < 0.35:
            s.append(rng.choice(SPECIAL))
        else:
            s.append(rng.choice(ALPHA[cs]))
    return s


def gen_ascii(rng, tier):
    cases = []
    per = 60 if tier == "quick" else 500
    for cs in CHARSETS:
        for i in range(per):
            bad_p = rng.choice([0, 0, 0.15])
            nch = rng.choice([1, 1, 2, 3, 4, 6])
            chunks = []
            for _ in range(nch):
                if rng.random() < 0.35:
                    chunks.append(("c", rng.choice(CODES)))
                else:
                    chunks.append(("s", gen_string(rng, cs, bad_p)))
            cases.append({"t": "dir", "kind": "ascii", "z": rng.random() < 0.5, "opsc": [chunks], "quotes": [rng.choice([34, 39, 47])],
                          "addr": rng.choice([512, 513]), "charset": cs})
        # every boundary <n>, alone and between strings
        for v in CODES:
            cases.append({"t": "dir", "kind": "ascii", "z": False, "opsc": [[("c", v)]], "addr": 512, "charset": cs})
            cases.append({"t": "dir", "kind": "ascii", "z": True, "opsc": [[("s", [65]), ("c", v), ("s", [66])]], "addr": 513, "charset": cs})
        # every special character on its own
        for ch in SPECIAL:
            cases.append({"t": "dir", "kind": "ascii", "z": False, "opsc": [[("s", [65, ch, 66])]], "quotes": [rng.choice([34, 39, 47])], "addr": 512, "charset": cs})
        # one unencodable character at first / last / only position, two of them
        b, g = BAD[cs][0], ALPHA[cs][0]
        for s in ([b], [b, g], [g, b], [g, b, g, b]):
            cases.append({"t": "dir", "kind": "ascii", "z": True, "opsc": [[("s", s)]], "addr": 512, "charset": cs})
            cases.append({"t": "dir", "kind": "ascii", "z": False, "opsc": [[("s", [g]), ("s", s), ("c", 7)]], "addr": 512, "charset": cs})
        # operand counts 0, 2..8
        cases.append({"t": "dir", "kind": "ascii", "z": False, "opsc": [], "addr": 512, "charset": cs})
        cases.append({"t": "dir", "kind": "ascii", "z": True, "opsc": [], "addr": 512, "charset": cs})
        for k in range(2, 9):
            cases.append({"t": "dir", "kind": "ascii", "z": k % 2 == 0, "opsc": [[("s", [65 + j])] for j in range(k)], "addr": 512, "charset": cs})
    return cases


def gen_wordlists(rng, tier):
    cases = []
    inside, outside = value_pool(rng, 16)
    for k in range(1, 9):
        for j, v in enumerate(boundaries(16)):
            vec = [rng.choice(inside) for _ in range(k)]
            vec[(j + k) % k] = v
            for addr in (512, 513):
                cases.append({"t": "dir", "kind": "wordlist", "ws": vec, "addr": addr, "charset": "bk"})
    return cases



# characters usable inside a 'c / "cc literal without any escaping
def lit_ok(c):
    return c > 32 and c not in (34, 39, 47, 92, 44, 59, 127) and not (0x80 <= c < 0xA1) and not (0xD800 <= c < 0xE000)


LIT_EXTRA = [0x44F, 0x2500, 0x20AC, 0xE9, 0x1F600, 0x416, 0xFF, 0x100]


def lit_pool(cs):
    return [c for c in dict.fromkeys(ALPHA[cs] + BAD[cs] + LIT_EXTRA) if lit_ok(c)]


def gen_literals(rng, tier):
    """values written as character literals, in every charset: one and two characters, encodable in one, two or
    more bytes, unencodable; alone and among numeric operands"""
    cases = []
    reps = 12 if tier == "quick" else 80
    for cs in CHARSETS:
        pool = lit_pool(cs)
        singles = [[c] for c in pool]
        doubles = [[a, b] for a in pool[:6] for b in (pool[0], pool[3 % len(pool)], pool[-1])] + [[c, c] for c in pool]
        for name in (".byte", ".word", ".dword"):
            for lit in singles + doubles:
                cases.append({"t": "dirl", "kind": "lit", "name": name, "lops": [("l", lit)], "addr": 512, "charset": cs})
            inside, outside = value_pool(rng, WIDTH[name])
            for _ in range(reps):
                k = rng.choice([1, 2, 3, 4])
                lops = []
                for _ in range(k):
                    r = rng.random()
                    if r < 0.55:
                        lops.append(("l", rng.choice(singles + doubles)))
                    elif r < 0.9:
                        lops.append(("v", rng.choice(inside)))
                    else:
                        lops.append(("v", rng.choice(outside)))
                cases.append({"t": "dirl", "kind": "lit", "name": rng.choice([name, name, {".byte": ".db", ".word": ".dw"}.get(name, name)]),
                              "lops": lops, "addr": rng.choice([512, 513]), "charset": cs})
    return cases


def small_dir(rng, cs, refuse_p=0.0):
    """one small data directive for a sequence / a .repeat body"""
    r = rng.random()
    bad = rng.random() < refuse_p
    if r < 0.22:
        k = rng.choice([0, 1, 1, 2, 3])
        vals = [rng.choice([0, 1, 2, 127, 255, -1, -255]) for _ in range(k)]
        if bad and k:
            vals[rng.randrange(k)] = rng.choice([256, -256, 1000])
        return {"kind": "meta", "name": rng.choice([".byte", ".byte", ".db"]), "ops": [(False, v) for v in vals]}
    if r < 0.36:
        k = rng.choice([0, 1, 1, 2])
        vals = [rng.choice([0, 1, 0x1234, 65535, -2]) for _ in range(k)]
        if bad and k:
            vals[0] = 65536
        return {"kind": "meta", "name": rng.choice([".word", ".word", ".dw"]), "ops": [(False, v) for v in vals]}
    if r < 0.44:
        return {"kind": "meta", "name": ".dword", "ops": [(False, rng.choice([0, 1, 0x12345678, -2]))] * rng.choice([0, 1, 1])}
    if r < 0.52:
        return {"kind": "meta", "name": ".even", "ops": []}
    if r < 0.60:
        return {"kind": "meta", "name": ".odd", "ops": []}
    if r < 0.72:
        return {"kind": "meta", "name": ".align", "ops": [(False, rng.choice([1, 2, 3, 4, 5, 8, 16] + ([0, -2] if bad else [])))]}
    if r < 0.78:
        return {"kind": "meta", "name": ".blkb", "ops": [(False, rng.choice([0, 1, 2, 3, 5] + ([-1] if bad else [])))]}
    if r < 0.82:
        return {"kind": "meta", "name": ".blkw", "ops": [(False, rng.choice([0, 1, 2]))]}
    if r < 0.90:
        chunks = [("s", [rng.choice([65, 66, 97, 48]) for _ in range(rng.choice([0, 1, 2, 3]))])]
        if rng.random() < 0.4:
            chunks.append(("c", rng.choice([0, 7, 255] + ([256] if bad else []))))
        if bad and rng.random() < 0.5:
            chunks.append(("s", [BAD[cs][0]]))
        return {"kind": "ascii", "z": rng.random() < 0.5, "opsc": [chunks]}
    if r < 0.95:
        return {"kind": "wordlist", "ws": [rng.choice([0, 1, 2, 65535, -1]) for _ in range(rng.choice([1, 2]))]}
    pool = lit_pool(cs)
    lit = [rng.choice(pool) for _ in range(rng.choice([1, 2]))]
    return {"kind": "lit", "name": rng.choice([".byte", ".word", ".dword"]), "lops": [("l", lit)] + ([("v", 3)] if rng.random() < 0.3 else [])}


def gen_items(rng, tier):
    """directives one after another and inside .repeat: each copy stands at the address where the bytes before
    it end, so the parity / alignment seen by an address-dependent directive changes from copy to copy"""
    cases = []

    def byte_n(k, v=1):
        return {"kind": "meta", "name": ".byte", "ops": [(False, (v + j) % 256) for j in range(k)]}
    dep = [{"kind": "meta", "name": ".even", "ops": []}, {"kind": "meta", "name": ".odd", "ops": []},
           {"kind": "meta", "name": ".align", "ops": [(False, 2)]}, {"kind": "meta", "name": ".align", "ops": [(False, 3)]},
           {"kind": "meta", "name": ".align", "ops": [(False, 4)]}, {"kind": "meta", "name": ".align", "ops": [(False, 8)]},
           {"kind": "meta", "name": ".word", "ops": [(False, 0x0102)]}, {"kind": "meta", "name": ".word", "ops": []},
           {"kind": "meta", "name": ".dword", "ops": [(False, 2)]}, {"kind": "wordlist", "ws": [5, 6]}]
    # every address-dependent directive x bytes before it (0-3) x bytes after it (0-1) x count 2-3 x both base parities:
    # as a .repeat, and written out
    for d in dep:
        for pre in (0, 1, 2, 3):
            for post in (0, 1):
                body = ([byte_n(pre)] if pre else []) + [d] + ([byte_n(post, 9)] if post else [])
                for n in (2, 3):
                    for base in (512, 513):
                        cases.append({"t": "items", "items": [("rep", n, body)], "addr": base, "charset": "bk"})
                        if n == 2:
                            cases.append({"t": "items", "items": [("one", x) for x in body + body], "addr": base, "charset": "bk"})
    # the directive first in the body, the odd-sized tail after it; counts 0, 1, 4; something before and after the .repeat
    for d in dep:
        for n in (0, 1, 4):
            cases.append({"t": "items", "items": [("one", byte_n(1)), ("rep", n, [d, byte_n(rng.choice([1, 3]))]), ("one", d)],
                          "addr": rng.choice([512, 513]), "charset": "bk"})
    cases.append({"t": "items", "items": [("rep", -1, [byte_n(1)])], "addr": 512, "charset": "bk"})
    cases.append({"t": "items", "items": [("rep", 2, [])], "addr": 512, "charset": "bk"})
    # seeded programs
    for _ in range(150 if tier == "quick" else 1500):
        cs = rng.choice(["bk", "bk", "utf-8", "koi8-r"])
        refuse_p = rng.choice([0, 0, 0.08])
        items = []
        for _ in range(rng.choice([1, 2, 3, 4])):
            if rng.random() < 0.5:
                items.append(("rep", rng.choice([0, 1, 2, 2, 3, 4]), [small_dir(rng, cs, refuse_p) for _ in range(rng.choice([1, 2, 3, 4]))]))
            else:
                items.append(("one", small_dir(rng, cs, refuse_p)))
        cases.append({"t": "items", "items": items, "addr": rng.choice([512, 513, 514, 515, 1000, 1001]), "charset": cs})
    return cases


def gen_scans(rng, tier):
    cases = []
    n = 150 if tier == "quick" else 1500
    pool = SPECIAL + [65, 97, 48, 32, 59, 120, 110, 0x41F, 0x20AC, 0x1F600, 0x2028, 0xA0, 256, 0x7E, 0x80, 0xFE]
    for i in range(n):
        q = rng.choice([34, 39, 47])
        s = [rng.choice(pool) if rng.random() < 0.8 else rng.randrange(0, 0x3000) for _ in range(rng.choice([0, 1, 2, 3, 5, 8, 13]))]
        rest = [rng.choice([32, 10, 65, q, 92, 60]) for _ in range(rng.choice([0, 0, 1, 3]))]
        cases.append({"t": "scan", "q": q, "text": escape_py(s) + [q] + rest, "expect": (s, rest)})
    # every character 0..255 escaped on its own
    for c in range(256):
        cases.append({"t": "scan", "q": 34, "text": escape_py([c]) + [34], "expect": ([c], [])})
    forms = ['\\n', '\\r', '\\t', '\\\\', '\\"', "\\'", '\\/', '\\x41', '\\x7f', '\\xFF', '\\XfF', '\\N', '\\R', '\\T', '\\\n', 'a\\\nb',
             '\\x 41', '\\x\t\n 41', '\\x;comment\n41', '\\x;c', '\\x ;c\n ;d\n4a', '\\x\u00a041', '\\x\u202841', '\\x\u200b41',
             '\\q', '\\0', '\\a', '\\u0041', '\\ ', '\\\r\n', '\\xZZ', '\\x4', '\\x4Z', '\\xg0', '\\x', '\\', 'abc\\', '\\x4\\',
             '\\\u0130', '\\\u212a', '\\\u041d', '\\\u00d1', '\\\uff2e', '\\\u2028', 'a\nb', 'a;b', '\u0416\u20ac\U0001f600', '',
             '\\x\uff11\uff12', '\\x\u0661\u0662', '\\xａｂ']
    for f in forms:
        for q in (34, 39, 47):
            for term in (True, False):
                text = [ord(ch) for ch in f] + ([q, 32, 65] if term else [])
                cases.append({"t": "scan", "q": q, "text": text, "expect": None})
    alphabet = [92, 34, 39, 47, 110, 120, 52, 97, 90, 32, 59, 10, 9, 0xE9, 88, 78]
    for i in range(n):
        q = rng.choice([34, 39, 47])
        text = [rng.choice(alphabet) for _ in range(rng.choice([1, 2, 3, 4, 6, 9]))]
        if rng.random() < 0.7:
            text.append(q)
        cases.append({"t": "scan", "q": q, "text": text, "expect": None})
    return cases


def all_cases(rng, tier):
    cs = []
    cs += gen_gai(rng, tier)
    cs += [{"t": "meta"}, {"t": "class"}]
    direct = gen_value_dirs(rng, tier) + gen_fills(rng, tier) + gen_ascii(rng, tier) + gen_wordlists(rng, tier)
    lits = gen_literals(random.Random(rng.random()), tier)
    direct += lits
    for c in direct:
        c["mode"] = "direct"
    cs += direct
    # end to end: a sample of the same abstract directives, printed with numeric literals, three kinds of prefix
    e2e = []
    pick = [c for c in direct if not (c["kind"] == "meta" and c["name"] == ".align") and c["kind"] != "lit"]
    rng2 = random.Random(rng.random())
    sample = rng2.sample(pick, min(len(pick), 700 if tier == "quick" else 5000))
    sample += rng2.sample(lits, min(len(lits), 250 if tier == "quick" else 3000))
    aligns = [c for c in direct if c["kind"] == "meta" and c["name"] == ".align"]
    sample += rng2.sample(aligns, min(len(aligns), 300 if tier == "quick" else 5000))
    for c in sample:
        e = dict(c)
        e["mode"] = "e2e"
        if c["kind"] == "meta" and c["name"] == ".align":
            e["prefix"] = "link"
        elif c["addr"] % 2 == 1:
            e["prefix"] = rng2.choice(["byte0", "link"])
            e["addr"] = 513 if e["prefix"] == "byte0" else c["addr"]
        else:
            e["prefix"] = rng2.choice(["none", "link"])
            e["addr"] = 512 if e["prefix"] == "none" else c["addr"]
        if not (0 <= e["addr"] < 65536):
            e["addr"] = 512 + e["addr"] % 2
            e["prefix"] = "link"
        e2e.append(e)
    for name in (".align", ".blkb", ".blkw"):
        for n in (65535, 65536, 1 << 32, 1 << 50):
            if name != ".align" and n == 65535 and tier == "quick":
                continue
            for prefix in ("link", "fwd"):
                e2e.append({"t": "dir", "kind": "meta", "name": name, "ops": [(False, n)], "addr": 513, "charset": "bk",
                            "mode": "e2e", "prefix": prefix})
    cs += e2e
    cs += gen_scans(rng, tier)
    cs += gen_items(random.Random(rng.random()), tier)
    return cs


# ---------------------------------------------------------------------------------------------
# running the real code
def e2e_source(c):
    if c.get("prefix") == "fwd":
        # the operands are symbols defined after the directive (forward references): the bytes are deferred
        line, syms = source_of(c, symbolic=True)
        return f".link {c['addr']}.\n" + line + "\n" + "".join(f"{k} = {num(v)}\n" for k, v in syms.items()), 0
    line, _ = source_of(c, symbolic=False)
    if line.startswith("-") and c["prefix"] != "none":
        # an expression continues over a newline when the next line starts with an infix operator:
        # ".byte 0 / -1., 2." is ".byte 0 - 1., 2.".  Spell the first word 0-N (same value).
        line = "0" + line
    if c["prefix"] == "byte0":
        return ".byte 0\n" + line + "\n", 1
    if c["prefix"] == "link":
        return f".link {c['addr']}.\n" + line + "\n", 0
    return line + "\n", 0


def stmt_line(d):
    line, _ = source_of(d, symbolic=False)
    # a line that starts with an infix operator would continue the expression of the line before it
    return "0" + line if line.startswith("-") else line


def items_source(c):
    lines = [f".link {c['addr']}."]
    for it in c["items"]:
        if it[0] == "one":
            lines.append(stmt_line(it[1]))
        else:
            lines.append(f".repeat {num(it[1])} {{")
            lines += ["    " + stmt_line(d) for d in it[2]]
            lines.append("}")
    return "\n".join(lines) + "\n", 0


def observe(cases):
    """run the implementation on every case; returns the list of observations"""
    obs = [None] * len(cases)
    # direct drives
    jobs, idx = [], []
    for i, c in enumerate(cases):
        if c["t"] == "gai":
            jobs.append(("gai", (c["b"], c["u"], c["d"], c["v"])))
        elif c["t"] in ("dir", "dirl") and c["mode"] == "direct":
            # numeric directives get their operands as symbols defined after compile_insn (so the bytes are
            # deferred and the announced size is observable); .ascii / word lists carry numeric literals
            src, syms = source_of(c, symbolic=(c["kind"] in ("meta", "lit")))
            c["src"] = src
            jobs.append(("drive", (src + "\n", syms, c["addr"], c["charset"])))
        elif c["t"] == "scan":
            jobs.append(("scan", (c["q"], c["text"])))
        else:
            continue
        idx.append(i)
    # group by function to keep pmap simple
    for fn in ("gai", "drive", "scan"):
        sel = [(i, j[1]) for i, j in zip(idx, jobs) if j[0] == fn]
        res = D.pmap(fn, [a for _, a in sel])
        for (i, _), r in zip(sel, res):
            obs[i] = r
    for i, c in enumerate(cases):
        if c["t"] == "meta":
            obs[i] = D.meta_table(META_NAMES)
        elif c["t"] == "class":
            obs[i] = D.char_classes()
    # end to end
    sel = [i for i, c in enumerate(cases) if (c["t"] in ("dir", "dirl") and c["mode"] == "e2e") or c["t"] == "items"]
    jobs = []
    for i in sel:
        src, plen = items_source(cases[i]) if cases[i]["t"] == "items" else e2e_source(cases[i])
        cases[i]["src"] = src
        cases[i]["plen"] = plen
        jobs.append(([("t.mac", src)], cases[i]["charset"]))
    outs = D.pmap("assemble", jobs)
    for i, o in zip(sel, outs):
        # warnings of the parser about the layout of the source are not the directive's
        ds = [["W" if d[0] == "warning" else "E", d[1]] for d in o.get("diags", []) if d[0] != "warning" or d[1] == "implicit-operand"]
        if o["outcome"] == "ok":
            code = list(bytes.fromhex(o["code"]))
            obs[i] = {"kind": "out", "diags": ds, "bytes": code[cases[i]["plen"]:], "base": o["base"]}
        elif o["outcome"] == "failed":
            obs[i] = {"kind": "failed", "diags": ds}
        else:
            obs[i] = {"kind": o["outcome"], "diags": ds, "crash": o.get("crash"), "error": o.get("error")}
    return obs


def expand(cases, obs):
    """(case, observation) pairs -> flat list of (case, observation, term); the meta case becomes one per directive"""
    flat = []
    for c, o in zip(cases, obs):
        if c["t"] == "meta":
            for row in o:
                if row.get("missing"):
                    flat.append((c, row, None))
                else:
                    flat.append((c, row, case_term(c, row)))
        else:
            flat.append((c, o, case_term(c, o)))
    return flat


def safe(x):
    """text that json can always write (lone surrogates escaped)"""
    if isinstance(x, str):
        return x.encode("utf-8", "backslashreplace").decode("utf-8")
    if isinstance(x, dict):
        return {k: safe(v) for k, v in x.items()}
    if isinstance(x, (list, tuple)):
        return [safe(v) for v in x]
    return x


def describe(c, o):
    d = {k: safe(c[k]) for k in c if k in ("t", "mode", "kind", "name", "ops", "opsc", "lops", "items", "z", "ws", "addr", "charset", "src", "b", "u", "d", "v", "q", "text", "prefix")}
    if c["t"] == "meta":
        d["directive"] = o.get("name")
        d["announced_sizes_for_0_to_8_operands"] = o.get("sizes")
        d["expected"] = "width * max(operand count, 1) for .byte/.word/.dword (what the directive emits), None otherwise"
    return d


def short_obs(o):
    if isinstance(o, dict):
        return safe({k: (v if not isinstance(v, list) or len(v) < 40 else v[:40] + ["..."]) for k, v in o.items() if k not in ("strings", "spaces", "lowers")})
    return o


def case_for_replay(c):
    if c["t"] == "meta":
        return None
    return {k: v for k, v in c.items() if k not in ("src", "plen")}


def signature(c, o):
    if c["t"] == "gai":
        return f"get_as_int(bitness={c['b']}, unsigned={c['u']}, default={c['d']}, value={c['v']})"
    if c["t"] in ("dir", "dirl"):
        return safe(f"{c['mode']}:{c['charset']}:{c['addr']}:{c.get('src', '').strip()[:120]}")
    if c["t"] == "items":
        return safe(f"program:{c['charset']}:{c.get('src', '').strip()[:200]}")
    if c["t"] == "scan":
        return f"string:{c['q']}:{c['text'][:40]}"
    if c["t"] == "meta":
        return f"meta:{o.get('name')}"
    return c["t"]


WHAT = {
    "gai": "get_as_int: a value outside the field was not refused, or an accepted value was not reduced modulo 2^n (reference arithmetic judged in Coq: Run.C06Ref.ref_gai)",
    "dir": "the directive's bytes / refusal contradict Spec/DataSpec.v (judged in Coq: Run.C06Ref.prop_dir, prop_announce)",
    "scan": "reading back the canonical spelling of a string does not give the string (judged in Coq: Run.C06Ref.prop_scan)",
    "dirl": "a value written as a character literal: the directive's bytes / refusal contradict Spec/DataBlockSpec.v (the literal is the little-endian number of its bytes in the output charset; more than two bytes or an unencodable character must be refused) (judged in Coq: Run.C06Ref.prop_items)",
    "items": "directives one after another / inside .repeat: the image is not the images the Spec states for each copy at the address where the bytes before it end, or a copy that must be refused was not (judged in Coq: Run.C06Ref.prop_items, Spec.DataBlockSpec.items_image)",
    "meta": "announced size of a value directive is not width * max(operand count, 1) (judged in Coq: Run.C06Ref.ref_sizes)",
}


def record(rep, flat, codes, corr=True):
    for (c, o, term), code in zip(flat, codes):
        if term is None:
            rep.disagree("metacommand missing from pdpy11.metacommand_impl.metacommands", describe(c, o))
            continue
        if corr and code & 1:
            rep.disagree({"gai": "GenGetAsInt.get_as_int_raw vs the real get_as_int",
                          "meta": "GenMeta.meta_table vs introspection of the Metacommand objects",
                          "dir": "Model.Directives.emit / announced vs the real directive (" + c.get("mode", "") + ")",
                          "scan": "Model.Directives.unescape vs parser.quoted_string",
                          "dirl": "Model.DirectivesSeq.emit_lit / announcedx vs the real directive with literal operands (" + c.get("mode", "") + ")",
                          "items": "Model.DirectivesSeq.items_run vs the assembled program",
                          "class": "py_space / esc_lower vs str.strip / str.lower over all code points"}[c["t"]],
                         describe(c, o), impl=short_obs(o))
        if code & 2:
            rep.violate(signature(c, o), WHAT[c["t"]], describe(c, o), impl=short_obs(o), case=case_for_replay(c),
                        replay="tools/props/c06.py replay(): re-runs the input on the real code and re-judges it in coqc")


def account(rep, cases, obs):
    for c, o in zip(cases, obs):
        rep.add_eval()
        t = c["t"]
        if t == "gai":
            rep.count("get_as_int:" + o.get("kind", "?"))
            if c["v"] != 0:
                rep.nontrivial(("gai", c["b"], c["u"], c["d"], c["v"]))
        elif t == "dir":
            key = c["name"] if c["kind"] == "meta" else c["kind"]
            rep.count(f"{c['mode']}:{key}:{o.get('kind')}")
            if c["kind"] == "meta":
                if any(v != 0 for _, v in c["ops"]) or c["name"] in (".even", ".odd"):
                    rep.nontrivial((c["mode"], c["name"], tuple(c["ops"]), c["addr"] if c["name"] in (".align", ".even", ".odd") else c["addr"] % 2))
            elif c["kind"] == "ascii":
                if c["opsc"] and any(x[1] for ch in c["opsc"] for x in ch):
                    rep.nontrivial((c["mode"], "ascii", c["z"], repr(c["opsc"]), c["charset"]))
            else:
                rep.nontrivial((c["mode"], "wl", tuple(c["ws"]), c["addr"] % 2))
        elif t == "dirl":
            rep.count(f"{c['mode']}:literal-operands:{c['charset']}:{o.get('kind')}")
            rep.nontrivial((c["mode"], "lit", c["name"], repr(c["lops"]), c["addr"] % 2, c["charset"]))
        elif t == "items":
            rep.count("program:" + ("repeat" if any(it[0] == "rep" for it in c["items"]) else "sequence") + ":" + str(o.get("kind")))
            rep.nontrivial(("items", repr(c["items"]), c["addr"], c["charset"]))
        elif t == "scan":
            rep.count("string:" + o.get("kind", "?"))
            if 92 in c["text"]:
                rep.nontrivial(("scan", c["q"], tuple(c["text"])))
        elif t == "class":
            rep.count("codepoints-classified-by-python", 0x110000)
        elif t == "meta":
            rep.count("metacommands-introspected", len(o))


def harness_problems(rep, cases, obs):
    """observations that say the harness (not the model, not the code) failed: surface them"""
    for c, o in zip(cases, obs):
        if isinstance(o, dict) and o.get("kind") in ("harness-error", "parse", "none"):
            rep.disagree("harness: the statement did not reach the directive", describe(c, o), impl=short_obs(o))
        if c["t"] == "dir" and c["mode"] == "direct" and c["kind"] == "ascii" and isinstance(o, dict) and o.get("strings") is not None:
            # the strings the parser read must be the strings the case states (escape_py is checked in Coq by the scan cases)
            want = [[x[1] if x[0] == "s" else None for x in ch] for ch in c["opsc"]]
            if o["strings"] != want and o.get("kind") in ("out", "raised"):
                rep.disagree("harness: parser read a different string than the case states", describe(c, o), impl=o["strings"])


def evaluate(flat, requires=REQUIRES, judge="map judge cases"):
    terms = [t for _, _, t in flat if t is not None]
    shards = C.shard(terms, 400)
    codes = C.run_case_files(ID, requires, "", shards, judge_expr=judge, opens=OPENS)
    out = [x for sh in codes for x in sh]
    it = iter(out)
    return [next(it) if t is not None else 1 for _, _, t in flat]


def explore(rep, br, tier, seed):
    rng = random.Random(seed)
    cases = all_cases(rng, tier)
    obs = observe(cases)
    account(rep, cases, obs)
    harness_problems(rep, cases, obs)
    flat = expand(cases, obs)
    codes = evaluate(flat)
    record(rep, flat, codes)
    rep.exhaustive_parts.append(".align: all moduli 0-64 x all offsets 0-70; every operand count 0-8 of every directive; "
                                "every boundary value of every width at every operand count; every byte 0-255 through its escape; "
                                "str.strip / str.lower classes over all 0x110000 code points; every address-dependent directive in a "
                                ".repeat body after 0-3 bytes, counts 2-3, both base parities")
    for c, o in zip(cases, obs):
        if c["t"] == "dir" and c["mode"] == "direct" and c["kind"] == "meta" and c["name"] == ".dword" and len(c["ops"]) == 2:
            rep.sample({"source": safe(c["src"]), "operands": c["ops"], "addr": c["addr"], "impl": short_obs(o)})
            break
    for c, o in zip(cases, obs):
        if c["t"] == "dir" and c["mode"] == "e2e" and c["kind"] == "ascii" and len(c["opsc"]) == 1 and len(c["opsc"][0]) >= 3:
            rep.sample({"source": safe(c["src"]), "charset": c["charset"], "impl": short_obs(o)})
            break
    for c, o in zip(cases, obs):
        if c["t"] == "gai" and c["b"] == 16 and c["v"] == -65535:
            rep.sample({"get_as_int": describe(c, o), "impl": o})
            break


def _model_free(rep, tier, seed):
    rng = random.Random(seed + 1)
    cases = all_cases(rng, "thorough" if tier == "thorough" else "quick")
    cases = [c for c in cases if c["t"] not in ("class",)]
    obs = observe(cases)
    flat = expand(cases, obs)
    codes = evaluate(flat, requires=REQUIRES_REF, judge="map judge_ref cases")
    record(rep, flat, codes, corr=False)
    rep.notes.append(f"search: {len(flat)} cases judged against the Spec only (Run.C06Ref.judge_ref)")


def search(rep, br, tier, seed):
    """model-free: a fresh sweep of the real code judged against Spec/DataSpec.v + reference arithmetic only"""
    _model_free(rep, tier, seed)


def search_without_model(rep, tier, seed):
    _model_free(rep, tier, seed)


def replay(data):
    c = data.get("case")
    if not c:
        print("no abstract case recorded; input:", data.get("input"))
        return False
    c = dict(c)
    for k in ("ops",):
        if k in c:
            c[k] = [tuple(x) for x in c[k]]
    if "opsc" in c:
        c["opsc"] = [[tuple(x) for x in ch] for ch in c["opsc"]]
    if c.get("expect") is not None:
        c["expect"] = tuple(c["expect"])

    def fix_dir(d):
        d = dict(d)
        if "ops" in d:
            d["ops"] = [tuple(x) for x in d["ops"]]
        if "opsc" in d:
            d["opsc"] = [[tuple(x) for x in ch] for ch in d["opsc"]]
        if "lops" in d:
            d["lops"] = [tuple(x) for x in d["lops"]]
        return d
    if "lops" in c:
        c["lops"] = [tuple(x) for x in c["lops"]]
    if "items" in c:
        c["items"] = [("one", fix_dir(it[1])) if it[0] == "one" else ("rep", it[1], [fix_dir(d) for d in it[2]]) for it in c["items"]]
    obs = observe([c])
    flat = expand([c], obs)
    codes = evaluate(flat, requires=REQUIRES_REF, judge="map judge_ref cases")
    print("input:", describe(c, obs[0]))
    print("observed now:", short_obs(obs[0]))
    print("verdict of Run.C06Ref.judge_ref (0 = consistent with the property, 2 = contradicts it):", codes)
    return all(code & 2 == 0 for code in codes)


# --- translated small functions (tools/gens/gen_pure.py): Props/T_directives.v proves the regenerated Python functions
# equal to the hand models this property's theorems are about; explore_t cross-checks the translator itself
import t_check  # noqa: E402
import t_check3  # noqa: E402  (tools/gens/gen_pure3.py: whole bodies of .byte/.word/.dword regenerated from the AST)
PROP_FILES = PROP_FILES + ["Props/T_directives.v", "Props/T_directives2.v"]
RUN_FILES = RUN_FILES + ["Run/TRunDirectives.v", "Run/TRun3.v"]
_explore_without_t = explore


def explore(rep, br, tier, seed):
    _explore_without_t(rep, br, tier, seed)
    t_check.explore_t(rep, tier, seed, pid=ID, only=["directives"])
    t_check3.explore_directives3(rep, tier, seed, pid=ID)

# session-7 addition to the claimed level (MANIFEST text only)
LEVEL_TEXT = LEVEL_TEXT + " " + "Props/T_directives2.v: the whole bodies of .byte/.word/.dword regenerated from the AST (gen_pure3) are proved equal to the model's bodies."
