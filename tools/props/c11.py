"""C11 -- symbol scoping and linking (DESIGN 4 C11).

Abstract multi-file programs (Spec/Scope.v syntax) in which every assignment has its own small value and every
label its own address, every reference is a '.word name': the binding pdpy11 chose is readable from the emitted
words.  The printed program is assembled by the real code (files list + fs for includes, want_symbols for the
final table); the observation travels into a cases_k.v where Model.ScopeM (bit 0, incl. the rendered
'.local{k}.'/'.internal{k}.' table keys) and Spec.Scope (bit 1) are evaluated by coqc.
"""
import itertools
import random

import common as C
import impl

ID = "C11"
PROP_FILES = ["Props/C11.v"]
RUN_FILES = ["Run/C11Run.v", "Run/C11SpecRun.v"]
RULE = ("abstract programs over {ordinary label, numeric local label, assignment with a distinct value, use site '.word name', "
        ".repeat block, .include, .extern names, .extern all, .end}: exhaustive families = every order of the statements of each "
        "file and every order of the files for (a) definition / export form (none, '::', '==', '.extern x', '.extern all', two "
        "exporters) / use / own definition across 2 files, (b) two label scopes with reused local names incl. duplicates and "
        "case variants, (c) include trees of depth 1-3 with private and exported names; sampled = 1-3 linked files, include trees "
        "of depth <= 3 incl. the same file included twice, .repeat bodies, .end, case variants of every name, duplicate "
        "definitions and exports. Compared: emitted words, the final symbol table (keys as strings, in order) and the set of "
        "error identifiers. non-trivial = distinct program with >= 1 use site and >= 2 definitions")
LEVEL_TEXT = ("Coq theorems: scope_refines -- for every well-nested, well-kinded trace, hence every abstract program of any size, "
              "the prefix-counter model's outcome (word of every use site, or the set of error identifiers) equals the outcome "
              "the declarative Spec designates (simulation invariant over positions <-> counters, Proofs/ScopeRefP.v); the rendered keys '.local{k}.name' / '.internal{k}.name' are injective and lower-casing them is "
              "lower-casing the name; on the mechanism model over any well-nested trace: fresh prefixes never repeat, a use site "
              "resolved early keeps its binding, own definition wins over any export, exports are order-free, names differing in "
              "case are the same symbol, private names are not visible across instances, a second definition/export is an error. "
              "The model and the declarative Spec are both evaluated in coqc against the real code on every generated program.")
LEVEL_NOTE = ("Trusted: Coq kernel + vm_compute, the harness (printer of abstract programs, reading words and the symbol table), "
              "Spec/Scope.v. Print Assumptions: closed under the global context for every theorem.")
TECHNIQUE = "Coq proof on an executable model of the prefix-counter mechanism + model/Spec/implementation correspondence evaluated in coqc"
ASSUME = ["names are ASCII (the parser's name alphabet), so str.lower is the ASCII fold of Spec/Scope.v",
          "label names do not start with a digit, local-label names do (the parser's own split)",
          "'ux = tgt' with ux used by nothing is represented abstractly by [Assign ux ext 0; Ref tgt]: the reference is resolved with the state of its own statement and forced at link time, i.e. a use site at that position; words are not compared for such programs",
          "'.extern all' / '.extern' / '.include' / '.end' are used at file level in the Spec's reading; inside '.repeat' bodies only the model claims faithfulness"]
TRUSTED = ["tools/props/c11.py printer (abstract program -> source text) and reader (bytes -> 16-bit words)"]

OPENS = "Open Scope string_scope.\nOpen Scope Z_scope."
ORD = ["va", "VA", "vb", "wx", "Wx", "Vb"]
LOC = ["1$", "2$", "1", "1a$", "1A$", "20$"]


# ---------------------------------------------------------------------------------------------
# abstract programs: items are tuples
def it_term(it):
    k = it[0]
    if k == "label":
        return f'Label "{it[1]}" {"true" if it[2] else "false"}'
    if k == "local":
        return f'LocalLabel "{it[1]}"'
    if k == "assign":
        return f'Assign "{it[1]}" {"true" if it[2] else "false"} {it[3]}'
    if k == "ref":
        return f'Ref "{it[1]}"'
    if k == "assignref":
        # 'x = tgt' with x used by nothing: a definition whose value is a use site of tgt at this position
        return f'Assign "{it[1]}" {"true" if it[2] else "false"} 0; Ref "{it[3]}"'
    if k == "block":
        return f"Block {it[1]} [{'; '.join(it_term(x) for x in it[2])}]"
    if k == "include":
        return f"Include {it[1]}"
    if k == "extern":
        return "ExternDecl [" + "; ".join(f'"{n}"' for n in it[1]) + "]"
    if k == "externall":
        return "ExternAll"
    if k == "end":
        return "End"
    raise ValueError(k)


def prog_term(linked, table):
    fl = lambda f: "[" + "; ".join(it_term(i) for i in f) + "]"
    return "{| linked := [" + "; ".join(fl(f) for f in linked) + "]; inctable := [" + "; ".join(fl(f) for f in table) + "] |}"


def it_text(it, ind=""):
    k = it[0]
    if k == "label":
        return f"{ind}{it[1]}{'::' if it[2] else ':'}"
    if k == "local":
        return f"{ind}{it[1]}:"
    if k == "assign":
        return f"{ind}{it[1]} {'==' if it[2] else '='} {oct(it[3])[2:]}"
    if k == "ref":
        n = it[1]
        return f"{ind}.word {n}:" if n.isdigit() else f"{ind}.word {n}"
    if k == "assignref":
        return f"{ind}{it[1]} {'==' if it[2] else '='} {it[3]}"
    if k == "block":
        return f"{ind}.repeat {it[1]} {{\n" + "".join(it_text(x, ind + "  ") + "\n" for x in it[2]) + ind + "}"
    if k == "include":
        return f'{ind}.include "inc{it[1]}.mac"'
    if k == "extern":
        return f"{ind}.extern " + ", ".join(it[1])
    if k == "externall":
        return f"{ind}.extern all"
    if k == "end":
        return f"{ind}.end"
    raise ValueError(k)


def file_text(f):
    return "".join(it_text(i) + "\n" for i in f)


def sources(linked, table, link=False):
    """link=True: '.link 1000' first, so that addresses are known while walking and every '.word name' is evaluated
    as soon as it is met (otherwise '.word' waits for the link base, i.e. for the end)"""
    files = [(f"f{i}.mac", (".link 1000\n" if (link and i == 0) else "") + file_text(f)) for i, f in enumerate(linked)]
    fs = {f"inc{i}.mac": file_text(f) for i, f in enumerate(table)}
    return files, fs


# ---------------------------------------------------------------------------------------------
# exhaustive families
class Vals:
    def __init__(self):
        self.v = 6

    def next(self):
        self.v += 1
        return self.v


def perm_files(files):
    """every order of the statements of each file"""
    return itertools.product(*[list(itertools.permutations(f)) for f in files])


def family_export(quick, rng):
    """definition, export, use and own definition in any order across two files"""
    out = []
    for kind in ("assign", "label"):
        for form in ("none", "colon", "extern", "externall", "both-files", "extern-undefined", "colon+extern"):
            for own in (False, True):
                vs = Vals()
                a = []
                if form != "extern-undefined":
                    ext = form in ("colon", "both-files", "colon+extern")
                    a.append(("assign", "va", ext, vs.next()) if kind == "assign" else ("label", "va", ext))
                if form in ("extern", "extern-undefined", "colon+extern"):
                    a.append(("extern", ["VA" if kind == "label" else "va"]))
                if form == "externall":
                    a.append(("externall",))
                a.append(("ref", "Va"))
                b = [("ref", "va")]
                if own:
                    b.append(("assign", "vA", False, vs.next()))
                if form == "both-files":
                    b.append(("assign", "wx", False, vs.next()))
                    b.append(("extern", ["va"]))
                cases = []
                for pa, pb in perm_files([a, b]):
                    cases.append(([list(pa), list(pb)], []))
                    cases.append(([list(pb), list(pa)], []))
                if quick and kind == "label" and len(cases) > 24:
                    cases = rng.sample(cases, 24)
                out += [("export:" + kind + ":" + form + (":own" if own else ""), l, t) for l, t in cases]
    return out


def family_local(quick, rng):
    out = []
    base = [("label", "va", False), ("local", "1$"), ("ref", "1$"), ("label", "vb", False), ("local", "1$"), ("ref", "1$")]
    perms = list(itertools.permutations(base))
    if quick:
        perms = rng.sample(perms, 150)
    for p in perms:
        out.append(("local:reuse", [list(p)], []))
    base2 = [("local", "1a$"), ("ref", "1A$"), ("label", "wx", False), ("ref", "1a$"), ("local", "1A$")]
    for p in itertools.permutations(base2):
        out.append(("local:case", [list(p)], []))
    base3 = [("local", "1"), ("ref", "1"), ("block", 2, [("ref", "1"), ("ref", "va")]), ("label", "va", False), ("ref", "1")]
    for p in itertools.permutations(base3):
        out.append(("local:block", [list(p)], []))
    return out


def family_include(quick, rng):
    out = []
    for form in ("private", "colon", "externall"):
        for depth in (1, 2, 3):
            vs = Vals()
            table = []
            for d in range(depth):
                ext = form == "colon"
                f = [("assign", f"v{d}x", ext, vs.next()), ("ref", f"v{d}x"), ("ref", "top"), ("ref", f"v{(d + 1) % depth}x")]
                if form == "externall":
                    f.append(("externall",))
                if d + 1 < depth:
                    f.append(("include", d + 1))
                table.append(f)
            main = [("include", 0), ("assign", "top", form != "private", vs.next()), ("ref", "v0x"), ("ref", f"v{depth - 1}x")]
            total = 1
            for f in [main] + table:
                total *= len(list(itertools.permutations(range(len(f))))) if len(f) <= 6 else 10 ** 6
            lim = 60 if quick else 1500
            if total <= lim:
                allp = list(perm_files([main] + table))
            else:
                allp = []
                for _ in range(lim):
                    allp.append(tuple(rng.sample(f, len(f)) for f in [main] + table))
            for p in allp:
                out.append((f"include:{form}:{depth}", [list(p[0])], [list(x) for x in p[1:]]))
    return out


def family_defref(quick, rng):
    """references that stand in the value of a definition nothing uses ('ux = tgt', 'ux == tgt'): every kind of invisible
    name (another linked file's private symbol, the includer's / the included file's private symbol, a local label of
    another scope or of another file, a name defined nowhere) and the visible controls (own private symbol, exported
    symbol in each export form, own local label), with the definition in the main, a linked and an included file, in every
    statement order of each file and both file orders.  Judged on outcome class and error identifiers (judge_class)."""
    out = []
    n = [0]

    def ux():
        n[0] += 1
        return f"ux{n[0]}"
    for ext in (False, True):
        scen = []
        # (name, linked files, include table)
        scen.append(("other-private", [[("assign", "va", False, 7)], [("assignref", ux(), ext, "va")]], []))
        scen.append(("other-private-case", [[("label", "Va", False), ("ref", "va")], [("assignref", ux(), ext, "VA"), ("ref", "wx"), ("assign", "wx", False, 8)]], []))
        scen.append(("nowhere", [[("assign", "va", False, 7), ("assignref", ux(), ext, "nowhere")]], []))
        scen.append(("parent-private-from-include", [[("assign", "va", False, 7), ("include", 0)]], [[("assignref", ux(), ext, "va")]]))
        scen.append(("include-private-from-parent", [[("include", 0), ("assignref", ux(), ext, "vb")]], [[("assign", "vb", False, 9), ("ref", "vb")]]))
        scen.append(("local-other-scope", [[("local", "1$"), ("ref", "1$"), ("label", "va", False), ("assignref", ux(), ext, "1$")]], []))
        scen.append(("local-other-file", [[("local", "2$"), ("ref", "2$")], [("label", "vb", False), ("assignref", ux(), ext, "2$")]], []))
        scen.append(("local-into-include", [[("local", "1$"), ("include", 0)]], [[("assignref", ux(), ext, "1$")]]))
        # visible controls
        scen.append(("own-private", [[("assign", "va", False, 7), ("assignref", ux(), ext, "Va"), ("ref", "va")]], []))
        scen.append(("own-local", [[("label", "va", False), ("local", "1$"), ("assignref", ux(), ext, "1$")]], []))
        for form in ("colon", "extern", "externall", "label-colon"):
            a = []
            if form == "label-colon":
                a.append(("label", "va", True))
            else:
                a.append(("assign", "va", form == "colon", 7))
            if form == "extern":
                a.append(("extern", ["VA"]))
            if form == "externall":
                a.append(("externall",))
            scen.append(("exported-" + form, [a, [("assignref", ux(), ext, "va"), ("ref", "va")]], []))
            scen.append(("exported-" + form + "-from-include", [[("include", 0)], [("assignref", ux(), ext, "vA")]], [a]))
            scen.append(("exported-" + form + "-into-include", [a, [("include", 0)]], [[("assignref", ux(), ext, "va")]]))
        for name, linked, table in scen:
            allp = list(perm_files(linked + table))
            if quick and len(allp) > 24:
                allp = rng.sample(allp, 24)
            for p in allp:
                l = [list(x) for x in p[:len(linked)]]
                t = [list(x) for x in p[len(linked):]]
                out.append((f"defref:{name}:{'==' if ext else '='}", l, t))
                if len(l) > 1:
                    out.append((f"defref:{name}:{'==' if ext else '='}", l[::-1], t))
    return out


# ---------------------------------------------------------------------------------------------
# sampled programs
def gen_items(rng, vs, n, depth, ninc, inc_lo, in_block=False):
    its = []
    for _ in range(n):
        c = rng.random()
        if c < 0.22:
            its.append(("ref", rng.choice(ORD)))
        elif c < 0.34:
            its.append(("ref", rng.choice(LOC)))
        elif c < 0.50:
            its.append(("assign", rng.choice(ORD), rng.random() < 0.3, vs.next()))
        elif c < 0.62:
            its.append(("label", rng.choice(ORD), rng.random() < 0.3))
        elif c < 0.74:
            its.append(("local", rng.choice(LOC)))
        elif c < 0.80 and depth < 2:
            its.append(("block", rng.choice([0, 1, 2, 2, 3]), gen_items(rng, vs, rng.randrange(1, 4), depth + 1, 0, 0, True)))
        elif c < 0.88 and not in_block and inc_lo < ninc:
            its.append(("include", rng.randrange(inc_lo, ninc)))
        elif c < 0.93 and not in_block:
            its.append(("extern", [rng.choice(ORD) for _ in range(rng.choice([1, 1, 2]))]))
        elif c < 0.97 and not in_block:
            its.append(("externall",))
        elif c < 0.985 and not in_block:
            its.append(("end",))
        elif c < 0.995 and not in_block:
            its.append(("assignref", f"uq{vs.next()}", rng.random() < 0.3, rng.choice(ORD + ["1$", "2$", "20$", "nowhere"])))
        else:
            its.append(("ref", rng.choice(ORD)))
    return its


def gen_sampled(rng):
    vs = Vals()
    nlinked = rng.choice([1, 2, 2, 3])
    ninc = rng.choice([0, 0, 1, 2, 3])
    table = [gen_items(rng, vs, rng.randrange(1, 6), 0, ninc, i + 1) for i in range(ninc)]
    linked = [gen_items(rng, vs, rng.randrange(2, 9), 0, ninc, 0) for _ in range(nlinked)]
    return ("sampled", linked, table)


def gen_clean(rng):
    """mostly error-free: distinct names per file instance, some exported (each name by one exporter), uses of own and
    foreign names, include trees of depth <= 3, .repeat bodies with uses; statements are shuffled in chunks so that a label
    keeps its local label and the use of it in its own scope"""
    vs = Vals()
    nlinked = rng.choice([1, 2, 2, 3])
    ninc = rng.choice([0, 0, 1, 2, 3])
    pool = ["ka", "kb", "kc", "kd", "ke", "kf", "kg", "kh"]
    exported = {}
    chunks = []
    for fi in range(nlinked + ninc):
        ch = []
        mine = rng.sample(pool, rng.randrange(1, 4))
        allx = rng.random() < 0.2
        for n in mine:
            can_export = n not in exported
            if allx and not can_export:
                continue
            form = "none" if allx else (rng.choice(["none", "colon", "extern"]) if can_export else "none")
            nm = rng.choice([n, n.upper(), n.capitalize()])
            if rng.random() < 0.5:
                ch.append([("assign", nm, form == "colon", vs.next())])
            else:
                loc = rng.choice(["1$", "2$", "1", "1a$"])
                tri = [("local", loc), ("ref", rng.choice([loc, loc.upper()]))]
                rng.shuffle(tri)
                ch.append([("label", nm, form == "colon")] + tri)
            if form == "extern":
                ch.append([("extern", [rng.choice([n, n.upper()])])])
            if form != "none" or allx:
                exported[n] = fi
        if allx:
            ch.append([("externall",)])
        chunks.append((ch, mine))
    # include tree: include j (table index) is included once, by a linked file or an include of smaller index
    depth = {}
    for j in range(ninc):
        parents = list(range(nlinked)) + [nlinked + q for q in range(j) if depth.get(q, 1) < 3]
        par = rng.choice(parents)
        depth[j] = 1 if par < nlinked else depth[par - nlinked] + 1
        chunks[par][0].append([("include", j)])
    files = []
    for fi in range(nlinked + ninc):
        ch, mine = chunks[fi]
        vis = sorted(set(exported) | set(mine))
        for _ in range(rng.randrange(1, 4)):
            n = rng.choice(vis)
            ch.append([("ref", rng.choice([n, n.upper()]))])
        if rng.random() < 0.25:
            ch.append([("block", rng.choice([0, 1, 2, 3]), [("ref", rng.choice(vis)) for _ in range(rng.randrange(1, 3))])])
        if rng.random() < 0.06:
            ch.append([("ref", rng.choice(pool))])      # possibly a private name of another file: undefined
        rng.shuffle(ch)
        if rng.random() < 0.05:
            ch.append([("end",), ("ref", "nowhere"), ("assign", rng.choice(pool), True, vs.next())])
        files.append([it for c in ch for it in c])
    return ("clean", files[:nlinked], files[nlinked:])


# ---------------------------------------------------------------------------------------------
def observe(o):
    if o["outcome"] == "ok":
        b = bytes.fromhex(o["code"])
        ws = [b[i] | (b[i + 1] << 8) for i in range(0, len(b) - 1, 2)]
        tbl = [(s[0], s[2]) for s in o.get("symbols", [])]
        if any(not isinstance(v, int) for _, v in tbl) or len(b) % 2:
            return "ObsOther", ("ok-unreadable", o["code"])
        t = "[" + "; ".join(f"({C.coq_str(k)}, {C.zlit(v)})" for k, v in tbl) + "]"
        return f"ObsOk {C.zlist(ws)} {t}", ("ok", ws)
    if o["outcome"] == "failed":
        ids = sorted({d[1] for d in o["diags"] if d[0] != "warning"})
        return "ObsFail [" + "; ".join(C.coq_str(i) for i in ids) + "]", ("failed", ids)
    return "ObsOther", (o["outcome"], o.get("crash"))


def all_cases(rng, tier, scale=1):
    quick = tier == "quick"
    cases = []
    fams = [family_export(quick, rng), family_local(quick, rng), family_include(quick, rng), family_defref(quick, rng)]
    for f in fams:
        cases += f
    n = (1500 if quick else 12000) * scale
    for _ in range(n):
        cases.append(gen_sampled(rng) if rng.random() < 0.4 else gen_clean(rng))
    # every program twice: use sites evaluated at the end (no link base yet) and as soon as met ('.link' first)
    cases = cases + [(k + "+link", l, t) for k, l, t in cases]
    return cases, fams


def run_cases(rep, cases, spec_only=False, tag=ID):
    jobs = []
    for kind, linked, table in cases:
        files, fs = sources(linked, table, link=kind.endswith("+link"))
        jobs.append(((files,), {"fs": fs, "want_symbols": True, "watchdog": 10}))
    outs = impl.pmap("assemble", jobs)
    real = 0
    for k, o in enumerate(outs):      # a watchdog expiry on a loaded machine is not yet a hang: confirm serially
        if o["outcome"] == "hang" and real < 3:
            outs[k] = impl.assemble(*jobs[k][0], **{**jobs[k][1], "watchdog": 40})
            if outs[k]["outcome"] == "hang":
                real += 1
    terms, pys = [], []
    for (kind, linked, table), o in zip(cases, outs):
        t, py = observe(o)
        terms.append(f"({prog_term(linked, table)}, {t})")
        pys.append(py)
    def has_defref(items):
        return any(it[0] == "assignref" or (it[0] == "block" and has_defref(it[2])) for it in items)
    cls = [any(has_defref(f) for f in linked + table) for _, linked, table in cases]
    order = [k for k in range(len(cases)) if not cls[k]] + [k for k in range(len(cases)) if cls[k]]
    nfull = len(cases) - sum(cls)
    flat = [None] * len(cases)
    for part, jfull, jspec, sub in ((order[:nfull], "judge", "judge_spec", ""), (order[nfull:], "judge_class", "judge_class_spec", "/class")):
        if not part:
            continue
        tt = [terms[k] for k in part]
        if spec_only:
            codes = C.run_case_files(tag + sub, "Run.C11SpecRun Spec.Scope", "", C.shard(tt, 250), judge_expr=f"map {jspec} cases", opens=OPENS)
        else:
            codes = C.run_case_files(tag + sub, "Run.C11Run Run.C11SpecRun Spec.Scope", "", C.shard(tt, 250), judge_expr=f"map {jfull} cases", opens=OPENS)
        for k, c in zip(part, [c for sh in codes for c in sh]):
            flat[k] = c
    for (kind, linked, table), o, py, code, term in zip(cases, outs, pys, flat, terms):
        rep.add_eval()
        fam = kind.split(":")[0].replace("+link", "") + ("+link" if kind.endswith("+link") else "")
        rep.count(f"{fam}:{o['outcome']}" + (":" + ",".join(py[1]) if py[0] == "failed" else ""))
        files, fs = sources(linked, table, link=kind.endswith("+link"))
        nrefs = sum(t.count(".word") for _, t in files) + sum(t.count(".word") for t in fs.values())
        ndefs = sum(t.count(":") + t.count("=") for _, t in files)
        if nrefs >= 1 and ndefs >= 2:
            rep.nontrivial((files and tuple(files), tuple(sorted(fs.items()))).__repr__())
        inp = {"kind": kind, "files": [list(f) for f in files], "fs": fs, "term": term,
               "judge": "class" if any(has_defref(f) for f in linked + table) else "full"}
        if code & 4:
            rep.disagree("generated program outside the Spec's domain (harness bug)", inp)
            continue
        if code & 1:
            rep.disagree("Model.ScopeM vs pdpy11 (words, final symbol table or error identifiers)", inp, impl=py)
        if code & 2:
            if py[0] in ("crash", "hang"):
                cr = py[1] or {}
                sig = f"crash:{cr.get('exc')}:{cr.get('frame')}"
                what = "the assembler crashed or hung instead of binding the name or reporting an error"
            else:
                sig = "scope:" + kind + ":" + repr(files)[:80]
                what = "binding / error outcome differs from Spec.Scope (spec_run, judged in Coq)"
            rep.violate(sig, what, inp, impl=py)
    return outs


def explore(rep, br, tier, seed, spec_only=False):
    rng = random.Random(seed)
    impl.load()
    cases, fams = all_cases(rng, tier)
    rep.exhaustive_parts.append(
        "every statement order of each file and both file orders for the export families (7 export forms x own definition x "
        "assignment" + ("" if tier == "quick" else " and label") + "), all 120 orders of the case-variant local family and of the "
        "local/.repeat family" + ("" if tier == "quick" else ", all 720 orders of the two-scope local family"))
    outs = run_cases(rep, cases, spec_only=spec_only)
    k = 0
    for idx in (0, len(fams[0]), len(fams[0]) + len(fams[1]), len(cases) - 1):
        kind, linked, table = cases[idx]
        files, fs = sources(linked, table, link=kind.endswith("+link"))
        rep.sample({"kind": kind, "files": files, "fs": fs, "impl": {"outcome": outs[idx]["outcome"], "code": outs[idx].get("code")}})


def search(rep, br, tier, seed):
    """Spec-only (no model) on a larger sample with another seed"""
    rng = random.Random(seed + 104729)
    cases, _ = all_cases(rng, tier, scale=3)
    run_cases(rep, cases, spec_only=True, tag=ID + "/search")


def search_without_model(rep, tier, seed):
    search(rep, None, tier, seed)


def replay(data):
    inp = data["input"]
    o = impl.assemble([tuple(x) for x in inp["files"]], fs=inp.get("fs"), want_symbols=True, watchdog=30)
    t, py = observe(o)
    for fn, text in inp["files"]:
        print("##", fn)
        print(text)
    for fn, text in (inp.get("fs") or {}).items():
        print("## include", fn)
        print(text)
    print("now:", py)
    prog = inp["term"].rsplit(", Obs", 1)[0]
    jn = "judge_class_spec" if inp.get("judge") == "class" else "judge_spec"
    code = C.run_case_files(ID + "/replay", "Run.C11SpecRun Spec.Scope", "", [[f"{prog}, {t})"]], judge_expr=f"map {jn} cases", opens=OPENS)[0][0]
    return code == 0
