"""C18 -- assembly is a pure function of its inputs (DESIGN 4 C18).

 (a) nestings: random nestings of `with try_compute` / `with Awaiting(d)` / `with handle_reports(fn)`
     whose bodies return / raise anywhere, executed with Python's own `with` on the real classes;
     outcome and final module-level state compared with Model.GState.eval in Coq;
 (b) histories: up to 50 earlier assemblies in one process (valid, invalid, crashing by
     construction, interrupted at a random call by an injected exception / by the watchdog) with
     impl.assemble(reset=False), then a probe whose full result must equal that of a fresh process;
     the module-level state is read after every item (the model says: restored) and a structural
     fingerprint of every module-level object of the package is compared before / after;
 (c) the probes in fresh processes under PYTHONHASHSEED 0..15 and random;
 (d) histories on the real file system: 1-6 earlier assemblies in one process, each a real run in a real directory tree (the command
     line's main_cli() called in-process with -o / --lst, or parse + Compiler + emit_files under bare / relative / absolute source
     paths) whose sources write and read files (make_* / .include / insert_file) under names of one family of spellings ('~letters' in
     any case, other '~...' names, names with a directory part, absolute names), then a probe using the same names from another
     directory; status, base, bytes, diagnostics, what is printed and EVERY FILE WRITTEN (path and content) must equal a fresh process.
"""
import json
import multiprocessing as mp
import os
import random
import subprocess
import time
import sys
from concurrent.futures import ThreadPoolExecutor

import common as C
import impl
from props import c07 as G

ID = "C18"
PROP_FILES = ["Props/C18.v"]
RUN_FILES = ["Run/C18Run.v"]
RULE = ("(a) seeded nestings (depth <= 6, <= 40 nodes) of the three context managers over 6 deferred objects with reports, not_ready(), reads of is_awaiting, returns, "
        "calls and raises of 9 exception classes, from depth 0 or a positive start depth; (b) seeded histories of 0-50 assemblies drawn from valid "
        "programs, programs with 1-3 planted faults (parse/compile/evaluation time), programs that crash the assembler (RecursionError while parsing "
        "and while evaluating, TypeError in the string-escape parser), assemblies interrupted by an exception injected at a random function call, "
        "assemblies cut by the real watchdog, and product chains ('x1 = x0*x0 / x2 = x1*x1 / ... / x0 = 1' valid, undefined, ring, overflow; plain or interrupted) that "
        "leave many entries in try_compute.not_ready_yet, rings through such a chain (which fill and must empty the cycle memo of class Awaiting), also cut short and repeated, followed by a probe (valid, faulty, multi-file, product chain over the same names, programs whose diagnostics must print integers of "
        "thousands of digits) compared with a fresh process; around every history item a snapshot of interpreter / process level state (int/str digit limit, recursion "
        "limit, warnings filters, locale, cwd, environ, streams, hooks, signal handlers ...) is compared with the one taken before the history; "
        "(c) every probe (incl. programs with groups of 2-5 equal-valued labels / constants under random names) under PYTHONHASHSEED 0..15 and a random seed, "
        "comparing outcome, base, bytes, diagnostics and the listing text; and the command line with --lst -o under the same seeds (also programs with 2-4 make_* "
        "directives of different formats on ONE file, spelt in ways that normalise to the same path: the last in source order must win), comparing every file written; "
        "(d) seeded file-system histories: a directory tree (cwd, two other source directories, sub-directories) with input files under the scenario's names, 1-6 earlier real "
        "assemblies in one process -- pdpy11's own main_cli() called in-process (source given relative / absolute, with -o NAME, --lst, --implicit-bin) or parse + Compiler + "
        "emit_files with the source path given bare ('s.mac' in the cwd), relative or absolute -- valid or with a planted fault (undefined symbol, syntax error, missing include, "
        "output into a missing directory), whose sources contain make_raw / make_bin / make_bk0010_rom / make_wav / insert_file / .include of NAMEs drawn from: '~' + letters "
        "(lower, upper, mixed case; the history may spell the probe's name in another case), other names starting with '~' ('~out1', '~out.bin', '~', '~~out', '~out x', '~d/out'), "
        "plain names, names with ./ ../ sub/ parts, absolute names, names with a space; the tree is rebuilt, then the probe (another source directory, the same names) runs and its status / "
        "outcome, base, bytes, diagnostics, printed text and the set of files written (relative path + content hash) are compared with the same probe in a fresh process; spellings that reach "
        "a registered device (~speaker) are not generated; 4 fixed shapes (bare '~name' written by a bare-named source or -o, then written / inserted / included from another directory) are always present. non-trivial = distinct (history kinds, probe) with >= 1 non-valid item, "
        "or a distinct nesting that raises or returns through >= 1 context manager, or a distinct file-system scenario (history kinds, probe kind, names)")
LEVEL_TEXT = ("Coq theorems over the __enter__/__exit__ steps regenerated from deferred.py / reports.py on every run: every nesting of the three context "
              "managers, with bodies that finish, return or raise anything anywhere (including __enter__ raising on a cycle and a nested handler's "
              "__exit__ raising), leaves depth, awaiting_stack, handlers_stack and every is_awaiting flag as they were (induction on the nesting); the "
              "outcome of a program depends only on that state and on the latches of instances on the stack, so a probe after any history behaves as "
              "before it; the asserts in __exit__ never fire. Partial: that no other state survives between assemblies (token caches, hashing, "
              "interpreter, the device table consulted when output / include paths are resolved) is the translator's usage scan plus history / fresh-process / PYTHONHASHSEED runs "
              "(in memory and on the real file system, files written compared), not proved.")
LEVEL_NOTE = ("Trusted: Coq kernel + vm_compute, tools/gens/gen_reports.py (statement-by-statement translation of the six methods; syntactic usage scan "
              "that does not follow aliases), the history harness. Injected interruptions are delivered at function-call boundaries outside "
              "__enter__/__exit__ (an asynchronous exception inside __exit__ itself is outside the model and the property). The file-system histories (d) have no Coq model: "
              "their oracle is metamorphic only (same tree, same probe, fresh process); they call pdpy11._cli.main_cli() in-process with sys.argv / stdout / stderr replaced, "
              "which is the only way to run the command line twice in one process; device names that play sound are excluded from the name family.")
TECHNIQUE = "Coq proof over regenerated state steps + usage scan + metamorphic history / fresh-process correspondence"
ASSUME = ["exceptions are raised synchronously (no asynchronous exception inside __enter__/__exit__ of the three classes)",
          "module-level objects are not reached through aliases the syntactic scan cannot see (checked at run time by a structural fingerprint)"]
TRUSTED = ["tools/gens/gen_reports.py (usage scan)", "CPython's `with` statement semantics as modelled in Model/GState.v (tied by the nesting correspondence)"]

PY = "/venv/bin/python"
REQ = "Gen.GenReports Gen.GenGState Model.GState Run.C18Run"

# ---------------------------------------------------------------------------------------------
# (a) nestings
EXNS = ["rec", "unrec", "notready", "cycle", "assert", "index", "key", ("other", 1), ("other", 2), ("other", 3)]


class VExc(Exception):
    def __init__(self, tag):
        super().__init__(tag)
        self.tag = tag


def exn_term(e):
    if isinstance(e, (tuple, list)):
        return f"(EOther {e[1]})"
    return {"rec": "ERecoverable", "unrec": "EUnrecoverable", "notready": "ENotReady", "cycle": "EDeferredCycle",
            "assert": "EAssertion", "index": "EIndex", "key": "EKey"}[e]


def prog_term(p):
    k = p[0]
    if k == "end":
        return "PEnd"
    if k == "ret":
        return "PReturn"
    if k == "raise":
        return f"(PRaise {exn_term(p[1])})"
    if k == "nr":
        return f"(PNotReady {prog_term(p[1])})"
    if k == "rep":
        return f"(PReport {dict(E='PError', C='PCritical', W='PWarning')[p[1]]} {prog_term(p[2])})"
    if k == "call":
        return f"(PCall {prog_term(p[1])} {prog_term(p[2])})"
    if k == "ifaw":
        return f"(PIfAwaiting {p[1]} {prog_term(p[2])} {prog_term(p[3])})"
    if k == "wait":
        return f"(PWait {p[1]} {prog_term(p[2])} {prog_term(p[3])})"
    if k == "rem":
        return f"(PRemember {p[1]} {prog_term(p[2])})"
    cm = p[1]
    if cm[0] == "try":
        c = "CTry"
    elif cm[0] == "await":
        c = f"(CAwait {cm[1]})"
    else:
        ox = cm[2]
        oxt = "ObjNone" if ox[0] == "none" else (f"(ObjReturns {'true' if ox[1] else 'false'})" if ox[0] == "returns" else f"(ObjRaises {exn_term(ox[1])})")
        c = f"(CHandle {cm[1]} {oxt})"
    return f"(PWith {c} {prog_term(p[2])} {prog_term(p[3])})"


def gen_prog(rng, depth, budget, hcount):
    """budget: [remaining nodes]; hcount: [next handler id] (every handle_reports instance gets its own id)."""
    budget[0] -= 1
    if budget[0] <= 0 or depth <= 0:
        return rng.choice([("end",), ("end",), ("ret",), ("raise", rng.choice(EXNS))])
    r = rng.random()
    if r < 0.14:
        return ("end",)
    if r < 0.19:
        return ("ret",)
    if r < 0.27:
        return ("raise", rng.choice(EXNS))
    if r < 0.36:
        return ("nr", gen_prog(rng, depth, budget, hcount))
    if r < 0.47:
        return ("rep", rng.choice("EWWC"), gen_prog(rng, depth, budget, hcount))
    if r < 0.55:
        return ("call", gen_prog(rng, depth - 1, budget, hcount), gen_prog(rng, depth, budget, hcount))
    if r < 0.62:
        return ("ifaw", rng.randrange(6), gen_prog(rng, depth - 1, budget, hcount), gen_prog(rng, depth - 1, budget, hcount))
    if r < 0.74:
        return ("wait", rng.randrange(6), gen_prog(rng, depth - 1, budget, hcount), gen_prog(rng, depth, budget, hcount))
    if r < 0.80:
        return ("rem", rng.randrange(6), gen_prog(rng, depth, budget, hcount))
    k = rng.random()
    if k < 0.35:
        cm = ("try",)
    elif k < 0.75:
        cm = ("await", rng.randrange(6))
    else:
        h = hcount[0]
        hcount[0] += 1
        ox = rng.choice([("none",), ("none",), ("returns", False), ("returns", True), ("raises", rng.choice(EXNS))])
        cm = ("handle", h, ox)
    return ("with", cm, gen_prog(rng, depth - 1, budget, hcount), gen_prog(rng, depth, budget, hcount))


def run_nest(p, depth0, nids):
    m = impl.load()
    deferred, reports = m["deferred"], m["reports"]
    impl.reset_global_state()
    deferred.try_compute.depth = depth0
    deferred.try_compute.not_ready_yet = {}          # the model starts from an empty record
    deferred.Awaiting.known_cycles.clear()
    del deferred.Awaiting.found_cycles_stack[:]

    class NestDeferred(deferred.BaseDeferred):       # the real BaseDeferred.wait, with the body of the nesting as _wait()
        def __init__(self, typ):
            super().__init__(typ)
            self.body = ("end",)

        def _wait(self):
            return run(self.body)

    defs = [NestDeferred(int) for i in range(nids)]
    inst = {}
    PR = {"E": reports.error, "C": reports.critical, "W": reports.warning}

    def make_exc(e):
        if isinstance(e, (tuple, list)):
            return VExc(e[1])
        return {"rec": reports.RecoverableError, "unrec": reports.UnrecoverableError, "notready": deferred.NotReadyError,
                "cycle": deferred.DeferredCycle, "assert": AssertionError, "index": IndexError, "key": KeyError}[e]()

    def make_cm(cm):
        if cm[0] == "try":
            return deferred.try_compute
        if cm[0] == "await":
            return deferred.Awaiting(defs[cm[1]])
        ox = cm[2]
        if ox[0] == "none":
            fn = lambda *a: None
        else:
            class Obj:
                def __enter__(self):
                    return self

                def __call__(self, *a):
                    return None

                def __exit__(self, et, ev, tb):
                    if ox[0] == "raises":
                        raise make_exc(ox[1])
                    return ox[1]
            fn = Obj()
        h = reports.handle_reports(fn)
        inst[cm[1]] = h
        return h

    def run(p):
        k = p[0]
        if k == "end":
            return "normal"
        if k == "ret":
            return "return"
        if k == "raise":
            raise make_exc(p[1])
        if k == "nr":
            deferred.not_ready()
            return run(p[1])
        if k == "rep":
            reports.emit_report(PR[p[1]], "x")
            return run(p[2])
        if k == "call":
            run(p[1])
            return run(p[2])
        if k == "ifaw":
            return run(p[2]) if defs[p[1]].is_awaiting else run(p[3])
        if k == "wait":
            defs[p[1]].body = p[2]
            defs[p[1]].wait()
            return run(p[3])
        if k == "rem":
            deferred.remember_cycle(defs[p[1]])
            return run(p[2])
        with make_cm(p[1]):
            r = run(p[2])
            if r == "return":
                return "return"
        return run(p[3])

    try:
        out = run(p)
        outcome = "ONormal" if out == "normal" else "OReturn"
    except VExc as ex:
        outcome = f"ORaise (EOther {ex.tag})"
    except reports.RecoverableError:
        outcome = "ORaise ERecoverable"
    except reports.UnrecoverableError:
        outcome = "ORaise EUnrecoverable"
    except deferred.NotReadyError:
        outcome = "ORaise ENotReady"
    except deferred.DeferredCycle:
        outcome = "ORaise EDeferredCycle"
    except AssertionError:
        outcome = "ORaise EAssertion"
    except IndexError:
        outcome = "ORaise EIndex"
    except KeyError:
        outcome = "ORaise EKey"
    except Exception as ex:
        outcome = "ORaise (EOther 0)" if type(ex) is Exception else "ORaise (EOther 99)"
    rid = {id(o): i for i, o in enumerate(defs)}
    hid = {id(o): i for i, o in inst.items()}
    res = {"outcome": outcome, "depth": deferred.try_compute.depth,
           "awaiting": [rid.get(id(x), 999) for x in reversed(deferred.Awaiting.awaiting_stack)],
           "handlers": [hid.get(id(x), 999) for x in reversed(reports.handle_reports.handlers_stack)],
           "flags": [bool(d.is_awaiting) for d in defs] + [False] * (nids - len(defs)),
           "latches": [bool(inst[i].is_error_condition) if i in inst else False for i in range(nids)],
           "nry": [rid.get(id(x), 999) for x in reversed(list(deferred.try_compute.not_ready_yet.values()))],
           "kc": [rid.get(id(x), 999) for x in reversed(list(deferred.Awaiting.known_cycles.values()))],
           "fcs": [[rid.get(k, 999) for k in l] for l in reversed(deferred.Awaiting.found_cycles_stack)]}
    impl.reset_global_state()
    deferred.try_compute.not_ready_yet = {}
    deferred.Awaiting.known_cycles.clear()
    del deferred.Awaiting.found_cycles_stack[:]
    return res


def nest_part(rep, rng, n):
    cases = []
    for i in range(n):
        hcount = [6]
        p = gen_prog(rng, rng.randint(1, 6), [rng.randint(3, 40)], hcount)
        d0 = rng.choice([0, 0, 0, 0, 1, 2])
        cases.append((p, d0, max(hcount[0], 6)))
    # the shapes named in the design: __enter__ raising on a cycle; a return through two withs; nested __exit__ raising
    cases += [(("with", ("await", 0), ("with", ("await", 0), ("end",), ("end",)), ("end",)), 0, 6),
              (("call", ("with", ("try",), ("with", ("await", 1), ("ret",), ("end",)), ("end",)), ("end",)), 0, 6),
              (("with", ("handle", 6, ("raises", ("other", 2))), ("rep", "E", ("end",)), ("end",)), 0, 7),
              (("with", ("handle", 6, ("returns", True)), ("rep", "C", ("end",)), ("rep", "W", ("end",))), 0, 7),
              (("with", ("try",), ("nr", ("end",)), ("nr", ("end",))), 0, 6),
              (("rep", "E", ("end",)), 0, 6),
              (("with", ("try",), ("wait", 1, ("nr", ("end",)), ("end",)), ("wait", 1, ("raise", ("other", 2)), ("end",))), 0, 6),
              (("with", ("try",), ("call", ("with", ("try",), ("wait", 1, ("nr", ("end",)), ("end",)), ("end",)), ("wait", 1, ("raise", ("other", 2)), ("end",))), ("end",)), 0, 6),
              (("wait", 2, ("wait", 2, ("end",), ("end",)), ("end",)), 0, 6),
              (("wait", 3, ("nr", ("end",)), ("end",)), 1, 6),
              (("wait", 1, ("rem", 2, ("wait", 2, ("raise", ("other", 4)), ("end",))), ("wait", 2, ("raise", ("other", 4)), ("end",))), 0, 6),
              (("rem", 2, ("wait", 2, ("end",), ("end",))), 0, 6),
              (("wait", 1, ("rem", 2, ("rem", 3, ("wait", 4, ("rem", 5, ("rem", 2, ("raise", "unrec"))), ("end",)))), ("end",)), 0, 6),
              (("with", ("await", 2), ("ifaw", 2, ("with", ("try",), ("raise", "cycle"), ("ret",)), ("raise", "assert")), ("end",)), 0, 6)]
    terms, obs = [], []
    b = lambda x: "true" if x else "false"
    for p, d0, nids in cases:
        o = run_nest(p, d0, nids)
        rep.add_eval()
        rep.traces_validated += 1
        rep.count("nest:" + o["outcome"].split()[0] + (":" + o["outcome"].split()[1].strip("()") if " " in o["outcome"] else ""))
        if o["outcome"] != "ONormal":
            rep.nontrivial(("nest", json.dumps(p), d0))
        terms.append(f"mk_nest {C.zlit(d0)}%Z {prog_term(p)}%N {C.nlist(range(nids))}%N ({o['outcome']})%N {C.zlit(o['depth'])}%Z {C.nlist(o['awaiting'])}%N "
                     f"{C.nlist(o['handlers'])}%N [{'; '.join(b(x) for x in o['flags'])}] [{'; '.join(b(x) for x in o['latches'])}] {C.nlist(o['nry'])}%N {C.nlist(o['kc'])}%N "
                     f"[{'; '.join(C.nlist(l) for l in o['fcs'])}]%N")
        obs.append(o)
    rep.sample({"nesting": cases[0][0], "start_depth": cases[0][1], "observed": obs[0]})
    codes = C.run_case_files(ID + "nest", REQ, "", C.shard(terms, 400), judge_expr="map judge_nest cases")
    flat = [c for sh in codes for c in sh]
    # smallest nestings first, so that the replay files name the simplest failing inputs
    for (p, d0, nids), o, code in sorted(zip(cases, obs, flat), key=lambda t: len(json.dumps(t[0][0]))):
        inp = {"nesting": p, "start_depth": d0, "n_ids": nids}
        if code & 1:
            rep.disagree("nesting: Model.GState.eval vs the real context managers under Python's with", inp, impl=o)
        if code & 2:
            rep.violate("nest:" + json.dumps(p)[:120], "module-level state (depth / awaiting_stack / handlers_stack / is_awaiting) is not restored after a nesting "
                        "of the context managers (Run.C18Run.prop_nest)", inp, observed=o, replay="props.c18.run_nest(nesting, start_depth, n_ids)")


# ---------------------------------------------------------------------------------------------
# (b) histories
CRASHERS = [
    ("crash:recursion-eval", [("c.mac", "\n".join(f"a{i} = <a{i+1}> / 1" for i in range(220)) + "\na220 = 2\n.word a0\n")]),
    ("crash:recursion-parse", [("c.mac", ".word " + "(" * 400 + "1" + ")" * 400 + "\n")]),
]
SLOW = [("s.mac", ".repeat 2 {" * 22 + " nop " + "}" * 22 + "\n")]


def canonical(r):
    return {"outcome": r["outcome"], "base": r.get("base"), "code": r.get("code"),
            "diags": [[d[0], d[1], [s[:3] for s in d[2]]] for d in r["diags"]],
            "crash": ({"exc": r["crash"].get("exc"), "frame": r["crash"].get("frame")} if r.get("crash") else None),
            "listing": r.get("listing"), "listing_crash": r.get("listing_crash")}


def leftover_now():
    m = impl.load()
    return len(m["deferred"].try_compute.not_ready_yet)


def state_now():
    m = impl.load()
    aw = m["deferred"].Awaiting
    return [m["deferred"].try_compute.depth, len(aw.awaiting_stack), len(m["reports"].handle_reports.handlers_stack),
            len(aw.known_cycles), len(aw.found_cycles_stack)]


ZERO = [0, 0, 0, 0, 0]      # depth, awaiting_stack, handlers_stack, known_cycles, found_cycles_stack: what the model predicts between runs


def fp(v, depth):
    if v is None or isinstance(v, (bool, int, float)):
        return repr(v)
    if isinstance(v, (str, bytes)):
        return repr(v)[:80] + f"#{len(v)}"
    if depth <= 0:
        return type(v).__name__
    if isinstance(v, (list, tuple)):
        return [type(v).__name__, len(v)] + [fp(x, depth - 1) for x in v[:400]]
    if isinstance(v, (set, frozenset)):
        return [type(v).__name__, len(v)] + sorted(repr(fp(x, depth - 1)) for x in v)[:400]
    if isinstance(v, dict):
        return ["dict", len(v)] + [[repr(k)[:60], fp(x, depth - 1)] for k, x in list(v.items())[:600]]
    if isinstance(v, type) or callable(v) and not hasattr(v, "__dict__"):
        return "obj:" + getattr(v, "__qualname__", type(v).__name__)
    d = getattr(v, "__dict__", None)
    if isinstance(d, dict):
        return [type(v).__name__] + [[k, fp(x, depth - 1)] for k, x in sorted(d.items()) if not k.startswith("__") and k not in IGNORE_FIELDS]
    return type(v).__name__


IGNORE_FP = {"pdpy11.deferred.Deferred.next_instance_id"}
IGNORE_FIELDS = {"not_ready_yet"}     # try_compute.not_ready_yet: modelled state (Gen/GenGState.v nry), dead at depth 0 (C18_leftover_not_ready_irrelevant)


def fingerprint():
    out = {}
    for name, mod in list(sys.modules.items()):
        if name == "pdpy11" or name.startswith("pdpy11."):
            for k, v in list(vars(mod).items()):
                if k.startswith("__") or type(v).__name__ == "module":
                    continue
                if isinstance(v, type):
                    if v.__module__ == name:
                        for ck, cv in list(vars(v).items()):
                            if not ck.startswith("__") and not callable(cv) and not isinstance(cv, (staticmethod, classmethod, property)):
                                out[f"{name}.{k}.{ck}"] = json.dumps(fp(cv, 4), default=str)
                    continue
                if callable(v) and not hasattr(v, "__dict__"):
                    continue
                out[f"{name}.{k}"] = json.dumps(fp(v, 4), default=str)
    for k in IGNORE_FP:
        out.pop(k, None)
    return out


def proc_state():
    """Interpreter / process level state that an assembly could leave changed (it is not a module-level object of the package,
    so neither the usage scan nor the fingerprint sees it)."""
    import builtins, decimal, gc, hashlib, locale, signal, threading, warnings
    st = {}
    st["int_max_str_digits"] = sys.get_int_max_str_digits() if hasattr(sys, "get_int_max_str_digits") else None
    st["recursionlimit"] = sys.getrecursionlimit()
    st["switchinterval"] = sys.getswitchinterval()
    st["warnings.filters"] = hashlib.sha1(repr(warnings.filters).encode()).hexdigest()
    try:
        st["locale"] = locale.setlocale(locale.LC_ALL)
    except Exception as ex:
        st["locale"] = "?" + type(ex).__name__
    st["cwd"] = os.getcwd()
    st["environ"] = hashlib.sha1(repr(sorted(os.environ.items())).encode("utf-8", "surrogateescape")).hexdigest()
    st["sys.path"] = hashlib.sha1(repr(sys.path).encode()).hexdigest()
    st["trace/profile"] = [sys.gettrace() is None, sys.getprofile() is None]
    st["streams"] = [id(sys.stdout), id(sys.stderr), id(sys.stdin), getattr(sys.stdout, "errors", None), getattr(sys.stderr, "errors", None),
                     getattr(sys.stdout, "encoding", None), getattr(sys.stderr, "encoding", None)]
    st["hooks"] = [id(sys.excepthook), id(sys.displayhook), id(getattr(sys, "unraisablehook", None)), id(sys.breakpointhook)]
    st["builtins"] = [len(vars(builtins)), id(builtins.open), id(builtins.print)]
    st["gc"] = [gc.isenabled(), gc.get_threshold()]
    st["threads"] = threading.active_count()
    st["decimal"] = repr(decimal.getcontext())
    st["defaultencoding"] = [sys.getdefaultencoding(), sys.getfilesystemencoding(), sys.dont_write_bytecode]
    st["signals"] = [repr(signal.getsignal(sg)) for sg in (signal.SIGALRM, signal.SIGINT, signal.SIGTERM)]
    st["itimer"] = signal.getitimer(signal.ITIMER_REAL)[0] == 0
    st["umask-free"] = True
    st["codecs:bk"] = True
    return st


def assemble_item(item):
    """One history item, never resetting the module state."""
    files = [tuple(f) for f in item["files"]]
    fs = item.get("fs")
    inj = item.get("inject")
    if inj is None:
        return impl.assemble(files, fs=fs, reset=False, watchdog=item.get("watchdog"))
    count = [0]

    def tracer(frame, event, arg):
        if event == "call":
            co = frame.f_code
            if "/pdpy11/" in co.co_filename and co.co_name not in ("__enter__", "__exit__"):
                count[0] += 1
                if count[0] == inj["at"]:
                    raise (impl.Hang("injected") if inj["kind"] == "hang" else RuntimeError("injected"))
        return None
    sys.settrace(tracer)
    try:
        r = impl.assemble(files, fs=fs, reset=False, watchdog=120)     # tracing is slow: the real watchdog must not fire instead of the injection
    finally:
        sys.settrace(None)
    r["calls"] = count[0]
    return r


def run_history(job):
    """Runs in a forked worker: warm-up, fingerprint, the history, the probe."""
    hist, probe = job["history"], job["probe"]
    impl.load()
    impl.assemble([("w.mac", "x: mov #y, r0\ny = x + 2\n")])          # warm-up (creates try_compute's instance attribute)
    fp0 = fingerprint()
    ps0 = proc_state()
    proc_changes = []
    log = []
    for item in hist:
        it = dict(item)
        if it.get("inject") and it["inject"].get("at") is None:
            # count the calls of this assembly first (a plain valid/invalid assembly of the same sources), then interrupt the second one
            tc = time.time()
            c = assemble_item({"files": it["files"], "fs": it.get("fs"), "inject": {"at": -1, "kind": "count"}})
            st = state_now()
            ce = {"kind": "count-run", "outcome": c["outcome"], "state": st}
            if (c["outcome"] == "hang" or time.time() - tc >= 0.9 * 120) and st != ZERO:        # only the real watchdog can cut a counting run (asynchronously)
                ce["async_dirty"] = True
                impl.reset_global_state()
            log.append(ce)
            n = max(1, c.get("calls", 1))
            it["inject"] = {"kind": item["inject"]["kind"], "at": 1 + int(item["inject"]["frac"] * (n - 1))}
        r = None
        t0 = time.time()
        try:
            r = assemble_item(it)
            oc = r["outcome"]
        except BaseException as ex:      # the injected exception escaped impl.assemble (e.g. raised in its own epilogue)
            oc = "escaped:" + type(ex).__name__
        st = state_now()
        entry = {"kind": item["kind"], "outcome": oc, "state": st, "leftover": leftover_now()}
        if isinstance(r, dict) and r.get("crash"):
            entry["crash"] = {"exc": r["crash"].get("exc"), "frame": r["crash"].get("frame")}
        ps = proc_state()
        diff = {k: [ps0[k], ps[k]] for k in ps0 if ps0[k] != ps[k]}
        if diff:
            # interpreter-level state differs from what it was before the history: left behind by this (or an earlier) assembly
            entry["process_state_changed"] = diff
            if not proc_changes:
                proc_changes.append({"item": item["kind"], "index": len(log), "changed": diff})
        # the REAL watchdog (SIGALRM) cut this assembly, on purpose or because the machine is loaded: an injected Hang has no pdpy11 frame
        # (or the run lasted as long as the watchdog allows: at a deep recursion the signal handler itself may die with RecursionError,
        #  which then looks like an ordinary crash but was raised asynchronously)
        limit = item.get("watchdog") or (120 if it.get("inject") else impl.WATCHDOG_S)
        real_alarm = item.get("watchdog") or time.time() - t0 >= 0.9 * limit or \
            (oc == "hang" and isinstance(r, dict) and (r.get("crash") or {}).get("frame") not in (None, "?"))
        if real_alarm and st != ZERO:
            # an asynchronous SIGALRM landed inside __enter__/__exit__: outside the model and the property; noted and repaired
            entry["async_dirty"] = True
            impl.reset_global_state()
        log.append(entry)
    try:
        res = canonical(impl.assemble([tuple(f) for f in probe["files"]], fs=probe.get("fs"), reset=False, want_listing=True))
    except BaseException as ex:
        res = {"outcome": "escaped:" + type(ex).__name__}
    fp1 = fingerprint()
    changed = sorted(k for k in set(fp0) | set(fp1) if fp0.get(k) != fp1.get(k))
    return {"probe_result": res, "log": log, "state_after_probe": state_now(), "fingerprint_changed": changed, "process_state_changed": proc_changes}


FRESH_SNIPPET = ("import sys, json; sys.path.insert(0, %r); import impl; from props import c18; "
                 "job = json.load(sys.stdin); "
                 "print(json.dumps(c18.canonical(impl.assemble([tuple(f) for f in job['files']], fs=job.get('fs'), want_listing=True))))") % os.path.join(C.ROOT, "tools")


def fresh(probe, hashseed="0"):
    env = dict(os.environ)
    env["PYTHONPATH"] = C.REPO
    env["PYTHONHASHSEED"] = str(hashseed)
    env["PYTHONDONTWRITEBYTECODE"] = "1"
    p = subprocess.run([PY, "-c", FRESH_SNIPPET], input=json.dumps(probe), env=env, stdout=subprocess.PIPE, stderr=subprocess.PIPE, text=True, timeout=120)
    if p.returncode != 0:
        return {"outcome": "harness-error", "stderr": p.stderr[-400:]}
    return json.loads(p.stdout.strip().splitlines()[-1])


def gen_program(rng, tag, faults=0, warns=0):
    lines, kinds, wids, adir = G.plant(rng, G.gen_base(rng, tag), faults, warns)
    # the include-a-directory fault needs a real directory: replace it by the in-memory equivalent
    lines = [l for l in lines if 'include "adir"' not in l]
    return "\n".join(lines) + "\n", kinds


def rand_name(rng, used):
    while True:
        n = rng.choice("abcdefghijklmnopqstuvwxyz") + "".join(rng.choice("abcdefghijklmnopqrstuvwxyz0123456789_") for _ in range(rng.randint(1, 7)))
        if n not in used and n not in ("sp", "pc") and not (n[0] == "r" and n[1:].isdigit()) and not (n[:2] == "ac" and n[2:].isdigit()):
            used.add(n)
            return n


def equal_values_program(rng):
    """Groups of 2-5 labels at the same address and of 2-5 constants with the same value, under names whose
    hash order varies: the order in which equal-valued symbols are listed must not depend on the hash seed."""
    used = set()
    lines = []
    for _ in range(rng.randint(2, 4)):
        if rng.random() < 0.6:
            lines.append(" ".join(rand_name(rng, used) + ":" for _ in range(rng.randint(2, 5))))
            lines.append(rng.choice(["nop", "mov #1, r0", ".word 5, 6", "clr r3"]))
        else:
            v = rng.choice(["5", "1000", "-1", "0", "177777"])
            for _ in range(rng.randint(2, 5)):
                lines.append(f"{rand_name(rng, used)} = {v}")
        lines.append("inc r1")
    return "\n".join(lines) + "\n"


def product_chain(rng, n=None, x0="1", use=True, extra=""):
    """'x1 = x0*x0 / x2 = x1*x1 / ... / x0 = <x0> last': every definition is speculated on while x0 is unknown,
    so the run leaves many entries in try_compute.not_ready_yet; the names are the same in every such program."""
    n = n or rng.randint(3, 14)
    lines = [f"x{i} = x{i-1} * x{i-1}" for i in range(1, n + 1)]
    if use:
        lines.append(f".word x{rng.randint(1, n)}")
    lines.append(extra) if extra else None
    if x0 is not None:
        lines.append(f"x0 = {x0}")
    return "\n".join(lines) + "\n"


def product_chain_variant(rng):
    k = rng.randrange(6)
    if k == 0:
        return "valid", product_chain(rng)
    if k == 1:
        return "valid", product_chain(rng, x0=rng.choice(["0", "-1", "1"]), use=rng.random() < 0.7)
    if k == 2:
        return "invalid", product_chain(rng, x0=None)                       # x0 undefined
    if k == 3:
        return "invalid", product_chain(rng, n=rng.randint(3, 40), x0=rng.choice(["x2 + 1", "x1", "x3 * 2"]))   # a ring through the chain
    if k == 4:
        return "invalid", product_chain(rng, n=rng.randint(5, 9), x0="2")   # 2**(2**n) does not fit a word
    return "valid", product_chain(rng, extra="y1 = x1 + x2\n.word y1")


HUGE = ["emt 1 _ 40000", ".rad50 <1 _ 40000>", "hl{u}: br (1 _ 40000)", ".word 1 _ 40000", "hv{u} = 1 _ 40000\n.byte hv{u}\n.even", ".blkb 1 _ 40000",
        "mov #<1 _ 20000> * <1 _ 20000>, r0", '.ascii <1 _ 40000>\n.even', "trap -<1 _ 30000>"]


def huge_int_program(rng, which=None):
    """Diagnostics that must print an integer of thousands of digits: sensitive to the interpreter's int/str limit, which an earlier
    assembly might have switched (every such statement is an error on its own; the point is HOW the run ends)."""
    text, _ = gen_program(rng, "g")
    lines = text.rstrip("\n").split("\n")
    picks = [HUGE[which % len(HUGE)]] if which is not None else rng.sample(HUGE, rng.randint(1, 2))
    for j, h in enumerate(picks):
        lines.insert(rng.choice([0, len(lines)]), h.replace("{u}", str(j)))
    return "\n".join(lines) + "\n"


PROBE_KINDS = ["huge-int", "huge-int", "huge-int", "product-chain", "equal-values", "valid", "faulty", "two-files", "include+forward", "shared-names", "equal-values"]


def gen_probe(rng, i):
    kind = PROBE_KINDS[i] if i < len(PROBE_KINDS) else rng.choice(PROBE_KINDS + ["valid", "faulty", "product-chain", "huge-int"])
    if kind == "huge-int":
        # the first probes walk through the places that print a huge value (emt, .rad50, branch offset, ...), one each
        return {"files": [["probe.mac", huge_int_program(rng, which=(i if i < 3 else rng.randrange(len(HUGE))))]], "what": "huge-int"}
    if kind == "product-chain":
        v, text = product_chain_variant(rng)
        return {"files": [["probe.mac", text]], "what": "product-chain:" + v}
    if kind == "equal-values":
        return {"files": [["probe.mac", equal_values_program(rng)]], "what": "equal-values"}
    if kind == "valid":
        text, _ = gen_program(rng, "p")
        return {"files": [["probe.mac", text]], "what": "valid"}
    if kind == "faulty":
        text, kinds = gen_program(rng, "p", faults=rng.randint(1, 2), warns=rng.randint(0, 1))
        return {"files": [["probe.mac", text]], "what": "faulty:" + ",".join(kinds)}
    if kind == "two-files":
        a, _ = gen_program(rng, "p")
        b, _ = gen_program(rng, "q")
        return {"files": [["one.mac", a + "ex1:: .word ex2\n"], ["two.mac", b + "ex2:: .word ex1\n"]], "what": "two-files"}
    if kind == "shared-names":
        # refers to names that history programs define (l0.., k0..) but the probe does not: must stay undefined
        text, _ = gen_program(rng, "p")
        refs = rng.sample([".word l0", "mov #k0, r1", ".word l1 - l0", "mov l2, r0", ".word k1", "br l0"], rng.randint(1, 3))
        return {"files": [["probe.mac", text + "\n".join(refs) + "\n"]], "what": "shared-names"}
    inc, _ = gen_program(rng, "i")
    main, _ = gen_program(rng, "p")
    return {"files": [["probe.mac", main + '.include "inc.mac"\n.word fwd\nfwd = . + 2\n']], "fs": {"inc.mac": inc}, "what": "include+forward"}


def gen_history(rng, maxlen):
    n = rng.choice([0, 1, 2, 3, 5, 8, 13, 21, 34, 50])
    n = min(n, maxlen)
    hist = []
    for j in range(n):
        r = rng.random()
        tag = "" if rng.random() < 0.5 else f"h{j}_"        # untagged names (l0.., k0..) are shared with other items and with some probes
        if rng.random() < 0.05:
            hist.append({"kind": "invalid:huge-int", "files": [["h.mac", huge_int_program(rng)]]})
        elif rng.random() < 0.06:
            # a ring through a product chain cut short by an injected crash, then the ring again: the second one must see an empty cycle memo
            ring = product_chain(rng, n=rng.randint(4, 30), x0="x2 + 1")
            hist.append({"kind": "ring-injected-crash", "files": [["h.mac", ring]], "inject": {"kind": rng.choice(["crash", "hang"]), "at": None, "frac": rng.random()}})
            hist.append({"kind": "ring-invalid", "files": [["h.mac", ring]]})
        elif rng.random() < 0.2:
            # ends with many entries left in try_compute.not_ready_yet; plain, or cut short by an injected crash / hang
            v, text = product_chain_variant(rng)
            item = {"kind": "product-chain-" + v, "files": [["h.mac", text]]}
            if rng.random() < 0.4:
                kind = rng.choice(["crash", "hang"])
                item = {"kind": "product-chain-injected-" + kind, "files": [["h.mac", text]], "inject": {"kind": kind, "at": None, "frac": rng.random()}}
            hist.append(item)
        elif r < 0.3:
            text, _ = gen_program(rng, tag, warns=rng.randint(0, 1))
            hist.append({"kind": "valid", "files": [["h.mac", text]]})
        elif r < 0.55:
            text, kinds = gen_program(rng, tag, faults=rng.randint(1, 3))
            hist.append({"kind": "invalid:" + ",".join(kinds), "files": [["h.mac", text]]})
        elif r < 0.7:
            k, files = rng.choice(CRASHERS)
            hist.append({"kind": k, "files": [list(f) for f in files]})
        elif r < 0.95:
            text, kinds = gen_program(rng, tag, faults=rng.choice([0, 0, 1, 2]))
            kind = rng.choice(["crash", "hang"])
            hist.append({"kind": "injected-" + kind, "files": [["h.mac", text]], "inject": {"kind": kind, "at": None, "frac": rng.random()}})
        else:
            hist.append({"kind": "watchdog", "files": [list(f) for f in SLOW], "watchdog": rng.choice([0.01, 0.03, 0.08])})
    return hist


def same_result(a, b):
    return a == b


def shrink(job, want):
    """Greedy deletion of history items while the probe still differs from the fresh result."""
    hist = list(job["history"])
    i = 0
    tries = 0
    while i < len(hist) and tries < 40:
        cand = hist[:i] + hist[i + 1:]
        tries += 1
        r = _pool_one({"history": cand, "probe": job["probe"]})
        if r is not None and not same_result(r["probe_result"], want):
            hist = cand
        else:
            i += 1
    return hist


def _pool_one(job):
    ctx = mp.get_context("fork")
    with ctx.Pool(1) as pool:
        try:
            return pool.apply_async(run_history, (job,)).get(timeout=600)
        except Exception:
            return None


def history_part(rep, rng, nprobes, nhist_per_probe, maxlen, seeds):
    probes = [gen_probe(rng, i) for i in range(nprobes)]
    # fresh-process results, per probe and per hash seed
    jobs = [(pi, s) for pi in range(nprobes) for s in seeds]
    with ThreadPoolExecutor(max_workers=C.NPROC) as ex:
        fres = list(ex.map(lambda j: fresh({"files": probes[j[0]]["files"], "fs": probes[j[0]].get("fs")}, j[1]), jobs))
    ref = {}
    for (pi, s), r in zip(jobs, fres):
        rep.add_eval()
        rep.count("fresh:" + str(r.get("outcome")))
        if r.get("outcome") == "harness-error":
            rep.disagree("fresh-process worker failed", {"probe": probes[pi], "hashseed": s}, impl=r)
            continue
        if s == seeds[0]:
            ref[pi] = r
        elif pi in ref and r != ref[pi]:
            rep.violate(f"hashseed:{probes[pi]['what']}:{s}", f"the result of assembling the same sources differs between PYTHONHASHSEED={seeds[0]} and {s}",
                        {"files": probes[pi]["files"], "fs": probes[pi].get("fs"), "hashseeds": [seeds[0], s]},
                        expected=ref[pi], observed=r, replay="props.c18.fresh(probe, hashseed)")
    rep.exhaustive_parts.append(f"every probe assembled in a fresh process under PYTHONHASHSEED in {list(seeds)}")
    hjobs = []
    for pi in range(nprobes):
        if pi not in ref:
            continue
        for _ in range(nhist_per_probe):
            hjobs.append({"history": gen_history(rng, maxlen), "probe": {"files": probes[pi]["files"], "fs": probes[pi].get("fs")}, "pi": pi})
    ctx = mp.get_context("fork")
    with ctx.Pool(C.NPROC, maxtasksperchild=1) as pool:
        asyncs = [pool.apply_async(run_history, (j,)) for j in hjobs]
        results = []
        for a in asyncs:
            try:
                results.append(a.get(timeout=900))
            except Exception as ex:
                results.append({"error": type(ex).__name__ + ": " + str(ex)[:200]})
    n_shrunk = [0]
    for job, res in zip(hjobs, results):
        rep.add_eval()
        kinds = [h["kind"].split(":")[0] for h in job["history"]]
        for k in kinds:
            rep.count("history-item:" + k)
        rep.count("history-length:%d" % len(job["history"]))
        rep.count("probe:" + probes[job["pi"]]["what"].split(":")[0])
        if "error" in res:
            rep.disagree("history worker failed", {"probe": job["probe"], "history_kinds": kinds}, impl=res)
            continue
        if res["probe_result"].get("outcome") == "hang":
            # the probe itself was cut by the watchdog (loaded machine): run this history once more, alone
            rep.count("probe-cut-by-watchdog-rerun")
            again = _pool_one({"history": job["history"], "probe": job["probe"]})
            if again is None or again["probe_result"].get("outcome") == "hang":
                rep.disagree("the probe was cut by the 10 s watchdog twice (machine too loaded?)", {"probe": job["probe"], "history_kinds": kinds})
                continue
            res = again
        rep.traces_validated += 1
        if any(k != "valid" for k in kinds):
            rep.nontrivial(("history", tuple(h["kind"] for h in job["history"]), probes[job["pi"]]["what"], job["pi"]))
        for e in res["log"]:
            rep.count("item-outcome:" + e["kind"].split(":")[0] + "->" + str(e["outcome"]))
            if e.get("leftover"):
                rep.count("item-left-entries-in-not_ready_yet")
            if e.get("async_dirty"):
                rep.count("watchdog-signal-landed-inside-enter-or-exit(state repaired, not judged)")
        want = ref[job["pi"]]
        inp = {"history": job["history"], "probe": job["probe"]}
        dirty = [e for e in res["log"] if e["state"] != ZERO and not e.get("async_dirty")]
        if dirty:
            rep.disagree("history: module-level state after an assembly is not (depth 0, empty stacks, empty cycle memo) as Model.GState predicts (C18_state_restored, C18_cycle_memo_empty_between_runs)",
                         {"first_dirty_item": dirty[0], "history_kinds": kinds}, model=ZERO, impl=dirty[0]["state"])
        if not same_result(res["probe_result"], want):
            n_shrunk[0] += 1
            small = shrink(job, want) if n_shrunk[0] <= 3 else job["history"]
            rep.violate("history:" + ",".join(h["kind"].split(":")[0] for h in small)[:80] + ":" + probes[job["pi"]]["what"][:40],
                        "the probe's result after this history differs from its result in a fresh process",
                        {"history": small, "probe": job["probe"], "original_history_length": len(job["history"])},
                        expected=want, observed=res["probe_result"], state_log=[e for e in res["log"] if e["state"] != ZERO][:3],
                        replay="props.c18.run_history({'history':..., 'probe':...}) vs props.c18.fresh(probe)")
        if res.get("process_state_changed"):
            rep.disagree("interpreter / process level state (int_max_str_digits, recursion limit, warnings filters, locale, cwd, environ, streams, hooks ...) "
                         "is not what it was before the history: an assembly left it changed", {"first_change": res["process_state_changed"][0], "history_kinds": kinds})
        if res["fingerprint_changed"]:
            rep.disagree("a module-level object of the package changed during the history (runtime complement of the usage scan)",
                         {"objects": res["fingerprint_changed"][:10], "history_kinds": kinds})
    if hjobs:
        j, r = hjobs[0], results[0]
        rep.sample({"history_kinds": [h["kind"] for h in j["history"]][:12], "probe": probes[j["pi"]]["what"],
                    "probe_result_equals_fresh": "error" not in r and r["probe_result"] == ref[j["pi"]]})


def alias_program(rng):
    """Several make_* directives that write the SAME file (also through paths that normalise to it), in different formats:
    in source order the last one wins, whatever the hash seed."""
    target = rng.choice(["image.dat", "out/img", "a.bin"])
    spell = {"image.dat": ["image.dat", "./image.dat", "out/../image.dat"], "out/img": ["out/img", "./out/img", "out/./img"],
             "a.bin": ["a.bin", "./a.bin", "out/../a.bin"]}[target]
    fmts = ["make_bin", "make_raw", "make_bk0010_rom", "make_raw", "make_bin"]
    rng.shuffle(fmts)
    n = rng.randint(2, 4)
    makes = [f'{fmts[j]} "{rng.choice(spell)}"' for j in range(n)]
    if fmts[n - 1] == fmts[n - 2]:
        makes[-1] = ('make_raw' if fmts[n - 1] != "make_raw" else "make_bin") + f' "{rng.choice(spell)}"'
    other = ['make_raw "other.raw"'] if rng.random() < 0.5 else []
    body, _ = gen_program(rng, "a")
    lines = body.rstrip("\n").split("\n")
    placed = makes + other
    where = sorted(rng.randrange(len(lines) + 1) for _ in placed)
    out = []
    for i in range(len(lines) + 1):
        out += [m for m, w in zip(placed, where) if w == i]
        if i < len(lines):
            out.append(lines[i])
    # the same program keeping, of the directives on the shared file, only the last one in source order
    last = [m for m in out if m in makes][-1]
    only_last = [l for l in out if l not in makes or l is last]
    return "\n".join(out) + "\n", "\n".join(only_last) + "\n", target


def cli_hash_part(rep, rng, nprobes, seeds):
    """The command line itself (`--lst -o out.bin`) under every hash seed: status, files and bytes (image and listing) must be identical."""
    progs, only_last = [], {}
    for i in range(nprobes):
        if i % 2 == 1:
            text, last_text, target = alias_program(rng)
            only_last[i] = (last_text, target)
        elif i % 4 == 0:
            text = equal_values_program(rng)
        else:
            text, _ = gen_program(rng, "c", warns=1)
            text += equal_values_program(rng)
        progs.append(text)

    def one(i):
        d = os.path.join(G.SCRATCH, "hash", f"h{i}")      # the same absolute path for every seed: the listing names the source file
        runs = [G.run_cli(d, {"a.mac": progs[i]}, False, [], ["--report-format", "bare", "--lst", "-o", "out.bin", "a.mac"], hashseed=s) for s in seeds]
        if i in only_last:
            runs.append(G.run_cli(d, {"a.mac": only_last[i][0]}, False, [], ["--report-format", "bare", "--lst", "-o", "out.bin", "a.mac"], hashseed=seeds[0]))
        return runs
    try:
        with ThreadPoolExecutor(max_workers=C.NPROC) as ex:
            allruns = list(ex.map(one, range(nprobes)))
    finally:
        G.cleanup()
    for i, runs in enumerate(allruns):
        ref = runs[0]
        rep.nontrivial(("cli-hash", progs[i]))
        if i in only_last:
            # source order decides: the shared file holds what the LAST directive on it writes (model: C07_emit_last_writer_wins_partial)
            lastrun = runs.pop()
            target = only_last[i][1]
            rep.add_eval()
            rep.count("cli-alias-program")
            if ref["status"] == 0 and (lastrun["status"] != 0 or ref["contents"].get(target) != lastrun["contents"].get(target)):
                rep.violate("cli-alias-last-writer:" + target, "several make_* directives write one file: it does not hold the output of the last directive in source order",
                            {"cli_source": progs[i], "cli_source_last_only": only_last[i][0], "file": target, "argv": ["--report-format", "bare", "--lst", "-o", "out.bin", "a.mac"],
                             "hashseeds": [seeds[0], seeds[0]]},
                            expected={"file": lastrun["contents"].get(target)}, observed={"file": ref["contents"].get(target)},
                            replay="props.c07.run_cli on cli_source and on cli_source_last_only; compare <file>")
        for s, r in zip(seeds, runs):
            rep.add_eval()
            rep.count("cli-hashseed-run:" + ("ok" if r["status"] == 0 else "status%d" % r["status"]))
            if r["timeout"]:
                rep.disagree("command-line run timed out", {"source": progs[i], "hashseed": s})
                continue
            if (r["status"], r["changed"], r["contents"]) != (ref["status"], ref["changed"], ref["contents"]):
                diff = [k for k in set(r["contents"]) | set(ref["contents"]) if r["contents"].get(k) != ref["contents"].get(k)]
                rep.violate(f"cli-hashseed:{','.join(sorted(diff)) or 'status'}", f"python -m pdpy11 --lst -o out.bin writes different files/bytes under PYTHONHASHSEED={seeds[0]} and {s}: {sorted(diff)}",
                            {"cli_source": progs[i], "argv": ["--report-format", "bare", "--lst", "-o", "out.bin", "a.mac"], "hashseeds": [seeds[0], s]},
                            expected={"status": ref["status"], "files": ref["contents"]}, observed={"status": r["status"], "files": r["contents"]},
                            replay="props.c07.run_cli(dir, {'a.mac': cli_source}, False, [], argv, hashseed=..)")
                break
    rep.exhaustive_parts.append(f"{nprobes} programs (groups of equal-valued symbols; several make_* directives on one file, incl. paths that normalise to it) "
                                f"through the command line with --lst -o under PYTHONHASHSEED in {list(seeds)}, every written file compared")


# ---------------------------------------------------------------------------------------------
# (d) histories on the real file system: "files written" (and files read) as part of the result
#
# The histories of (b) run on in-memory sources and never emit a file, so nothing that the output / include path code
# (devices.py, emit_files, the command line's -o / --lst) keeps between assemblies could show.  Here every item is a real
# assembly in a real directory tree -- through the command line's own main_cli() called in-process, or through
# parse + Compiler + emit_files as a library user calls them -- whose sources name files (make_* / .include / insert_file / -o)
# drawn from one family of spellings; the probe uses the same names as its history.  Oracle: metamorphic (fresh process).
FS_DIRS = ["cwd", "p", "h", "cwd/sub"]
FS_DIRCODE = {"cwd": 1001, "p": 2002, "h": 3003, "cwd/sub": 4004}
FS_TILDE_BARE = ["~out", "~o", "~tmp", "~image", "~Out", "~OUT", "~z"]
FS_TILDE_OTHER = ["~out1", "~out.bin", "~", "~~out", "~out x", "~ out", "~out_", "~d/out", "~tmp.raw"]
FS_PLAIN = ["out.bin", "img", "a.raw", "sub/out", "./img", "../h/img", "sub/../img", "<R>/h/abs.out", "out x"]
FS_BODY = ["mov r0, r1", ".word 1, 2, 3", "nop", "clr r2", ".byte 5, 6", "inc @#177714", "mov #12, r3", ".word 177777"]
FS_ITEM_KINDS = ["api-bare", "api-bare", "api-rel", "api-abs", "cli-rel", "cli-abs", "cli-o", "cli-o"]


def fs_case_variant(rng, name):
    return rng.choice([name.upper(), name.lower(), name.swapcase(), name[:1] + name[1:2].upper() + name[2:]])


def fs_is_device(name):
    """Spellings that reach a REGISTERED device (~speaker: plays sound through external programs) are never generated."""
    t = name[1:].split(" ")[0].split("/")[0].lower() if name.startswith("~") else ""
    return t in ("speaker",)


def fs_source(rng, names, fault=None):
    lines = [".link %s" % rng.choice(["2000", "1000", "40000"])] if rng.random() < 0.5 else []
    lines += [rng.choice(FS_BODY) for _ in range(rng.randint(1, 4))]
    for _ in range(rng.randint(1, 3)):
        nm = rng.choice(names)
        r = rng.random()
        if r < 0.62:
            lines.insert(rng.randrange(len(lines) + 1), '%s "%s"' % (rng.choice(["make_raw", "make_bin", "make_raw", "make_bin", "make_bk0010_rom"]), nm))
        elif r < 0.68:
            lines.append('make_wav "%s"' % nm)
        elif r < 0.84:
            lines.append('insert_file "%s"\n.even' % nm)
        else:
            lines.append('.include "%s"' % nm)
    if fault == "undefined":
        lines.append(".word no_such_symbol")
    elif fault == "no-dir":
        lines.append('make_raw "nodir/%s"' % rng.choice(names).replace("/", "_").replace("<R>", "r"))
    elif fault == "missing-include":
        lines.append('.include "missing.mac"')
    elif fault == "syntax":
        lines.append("mov r0,")
    return "\n".join(lines) + "\n"


def fs_item(rng, j, names, kind=None, where=None):
    kind = kind or rng.choice(FS_ITEM_KINDS)
    d = "cwd" if kind == "api-bare" else (where or rng.choice(FS_DIRS))
    fn = "s%d.mac" % j
    fault = rng.choice([None] * 12 + ["undefined", "no-dir", "missing-include", "syntax"])
    item = {"kind": kind + (":" + fault if fault else ""), "src": d + "/" + fn, "text": fs_source(rng, names, fault)}
    rel = {"cwd": fn, "p": "../p/" + fn, "h": "../h/" + fn, "cwd/sub": "sub/" + fn}[d]
    if kind == "api-bare":
        item["given"] = fn
    elif kind in ("api-rel", "cli-rel", "cli-o"):
        item["given"] = rng.choice([rel, "./" + rel]) if d != "cwd" or kind != "api-rel" else "./" + fn
    else:
        item["given"] = "<R>/" + d + "/" + fn
    if kind.startswith("cli"):
        item["opts"] = (["--lst"] if rng.random() < 0.35 else []) + (["--implicit-bin"] if rng.random() < 0.15 else [])
        if kind == "cli-o":
            item["opts"] += ["-o", rng.choice(names)]
    return item


def gen_fs_scenario(rng):
    pool = []
    if rng.random() < 0.8:
        pool.append(rng.choice(FS_TILDE_BARE))
    if rng.random() < 0.5:
        pool.append(rng.choice(FS_TILDE_OTHER))
    while len(pool) < 3:
        n = rng.choice(FS_PLAIN + FS_TILDE_OTHER + FS_TILDE_BARE)
        if n not in pool:
            pool.append(n)
    hnames = list(pool)
    if rng.random() < 0.35:
        k = rng.randrange(len(hnames))        # the history spells one name in another case (another file here, but the same 'device name')
        hnames[k] = fs_case_variant(rng, hnames[k])
    hnames = [n for n in hnames if not fs_is_device(n)] or ["img"]
    pool = [n for n in pool if not fs_is_device(n)] or ["img"]
    n = rng.choice([1, 1, 2, 3, 4, 6])
    items = [fs_item(rng, j, hnames) for j in range(n)]
    probe = fs_item(rng, 99, pool, where=rng.choice(["p", "p", "p", "h", "cwd/sub", "cwd"]))
    inputs = {}
    for d in FS_DIRS:
        for nm in set(pool + hnames):
            if "<R>" in nm or ".." in nm or rng.random() < 0.25:
                continue
            inputs[os.path.normpath(d + "/" + nm)] = ".word %d\n" % (FS_DIRCODE[d] + len(inputs) % 7)
    if rng.random() < 0.75:
        inputs["h/abs.out"] = ".word 3013\n"
    return {"inputs": inputs, "history": items, "probe": probe, "names": pool}


def fs_build_tree(root, sc):
    import shutil
    shutil.rmtree(root, ignore_errors=True)
    for d in FS_DIRS + ["p/sub", "h/sub"]:
        os.makedirs(os.path.join(root, d), exist_ok=True)
    for d in FS_DIRS:
        os.makedirs(os.path.join(root, d, "~d"), exist_ok=True)
    for rel, text in sc["inputs"].items():
        os.makedirs(os.path.dirname(os.path.join(root, rel)), exist_ok=True)
        with open(os.path.join(root, rel), "w", encoding="utf-8") as f:
            f.write(text)
    for it in sc["history"] + [sc["probe"]]:
        with open(os.path.join(root, it["src"]), "w", encoding="utf-8") as f:
            f.write(it["text"].replace("<R>", root))


def fs_snapshot(root):
    import hashlib
    out = {}
    for dp, _dirs, names in os.walk(root):
        for nm in names:
            p = os.path.join(dp, nm)
            with open(p, "rb") as f:
                data = f.read()
            out[os.path.relpath(p, root)] = "%s:%d" % (hashlib.sha1(data).hexdigest()[:16], len(data))
    return out


def fs_run_item(root, it):
    """One real assembly with the process's cwd in <root>/cwd; returns everything observable except the tree."""
    import contextlib, io
    m = impl.load()
    reports, parser, compiler = m["reports"], m["parser"], m["compiler"]
    given = it["given"].replace("<R>", root)
    out, err = io.StringIO(), io.StringIO()
    res = {}
    with contextlib.redirect_stdout(out), contextlib.redirect_stderr(err):
        if it["kind"].startswith("cli"):
            from pdpy11 import _cli
            old = sys.argv
            sys.argv = ["pdpy11", "--report-format", "bare"] + [o.replace("<R>", root) for o in it.get("opts", [])] + [given]
            try:
                _cli.main_cli()
                res["status"] = 0
            except SystemExit as ex:
                res["status"] = ex.code if isinstance(ex.code, int) else 1
            except Exception as ex:
                res["status"] = "crash:" + type(ex).__name__
            finally:
                sys.argv = old
        else:
            diags = []

            def handler(priority, identifier, *lst):
                sev = "warning" if priority is reports.warning else ("critical" if priority is reports.critical else "error")
                diags.append([sev, identifier, [[str(a.filename), a.pos, b.pos] for a, b, *_ in lst]])
            res.update({"outcome": "ok", "base": None, "code": None, "diags": diags})
            try:
                with open(given, encoding="utf-8") as f:
                    text = f.read()
                with reports.handle_reports(handler):
                    comp = compiler.Compiler()
                    base, code = comp.compile_and_link_files([parser.parse(given, text)])
                res["base"], res["code"] = base, bytes(code).hex()
                with reports.handle_reports(handler):
                    comp.emit_files(base, code)
            except reports.UnrecoverableError:
                res["outcome"] = "failed"
            except Exception as ex:
                res["outcome"] = "crash:" + type(ex).__name__
    res["stdout"], res["stderr"] = out.getvalue(), err.getvalue()
    return res


def fs_child():
    """Runs in a fresh interpreter: the sequence given on stdin, the tree rebuilt before the last item (the probe)."""
    import signal
    job = json.load(sys.stdin)
    signal.alarm(120)                       # watchdog for the whole sequence
    root, sc = job["root"], job["scenario"]
    seq = (sc["history"] if job["with_history"] else []) + [sc["probe"]]
    fs_build_tree(root, sc)
    os.chdir(os.path.join(root, "cwd"))
    log = []
    res = None
    for k, it in enumerate(seq):
        if k == len(seq) - 1:
            os.chdir("/")
            fs_build_tree(root, sc)         # whatever the history wrote is gone: the probe starts from the same tree as in a fresh process
            os.chdir(os.path.join(root, "cwd"))
            before = fs_snapshot(root)
        res = fs_run_item(root, it)
        log.append([it["kind"], res.get("status", res.get("outcome"))])
    after = fs_snapshot(root)
    res["files_written"] = {k: v for k, v in after.items() if before.get(k) != v}
    res["files_removed"] = sorted(k for k in before if k not in after)
    res["cwd_after"] = os.path.relpath(os.getcwd(), root)
    text = json.dumps({"probe_result": res, "log": log}, sort_keys=True).replace(root, "<R>")
    print(text)


FS_SNIPPET = "import sys; sys.path.insert(0, %r); from props import c18; c18.fs_child()" % os.path.join(C.ROOT, "tools")


def fs_run(sc, with_history, key):
    import shutil
    root = os.path.join(G.SCRATCH, "fs", key)
    env = dict(os.environ)
    env["PYTHONPATH"] = C.REPO
    env["PYTHONHASHSEED"] = "0"
    env["PYTHONDONTWRITEBYTECODE"] = "1"
    try:
        os.makedirs(root, exist_ok=True)
        for attempt in (150, 400):          # a loaded machine must not look like a failure: once more, longer
            try:
                p = subprocess.run([PY, "-c", FS_SNIPPET], input=json.dumps({"root": root, "scenario": sc, "with_history": with_history}), env=env,
                                   stdout=subprocess.PIPE, stderr=subprocess.PIPE, text=True, timeout=attempt)
            except subprocess.TimeoutExpired:
                continue
            if p.returncode == 0:
                return json.loads(p.stdout.strip().splitlines()[-1])
        return {"harness-error": p.stderr[-400:] if "p" in locals() else "timeout"}
    finally:
        shutil.rmtree(root, ignore_errors=True)


def fs_differs(sc, want, key):
    r = fs_run(sc, True, key)
    return "probe_result" in r and r["probe_result"] != want


def fs_shrink(sc, want, key):
    hist = list(sc["history"])
    i = 0
    while i < len(hist):
        cand = dict(sc, history=hist[:i] + hist[i + 1:])
        if fs_differs(cand, want, key):
            hist = cand["history"]
        else:
            i += 1
    return dict(sc, history=hist)


def fs_history_part(rep, rng, n):
    scs = [gen_fs_scenario(rng) for _ in range(n)]
    # the shapes the family is about, always present: a bare '~name' output of a source parsed under a bare file name / given with -o,
    # then the same name from another directory (written, inserted, included)
    for hk, pk, verb in (("api-bare", "api-abs", 'make_raw "~out"'), ("cli-o", "cli-abs", 'make_bin "~Tmp"'), ("api-bare", "cli-rel", 'insert_file "~o"\n.even'),
                         ("cli-o", "api-abs", '.include "~o"')):
        nm = verb.split('"')[1]
        h = {"kind": hk, "src": "cwd/s0.mac", "given": "s0.mac", "text": 'mov r0, r1\nmake_bin "%s"\n' % nm.lower()}
        if hk == "cli-o":
            h.update({"opts": ["-o", nm.lower()], "text": "mov r0, r1\n"})
        pr = {"kind": pk, "src": "p/s99.mac", "given": "<R>/p/s99.mac" if pk.endswith("abs") else "../p/s99.mac", "text": ".link 2000\n.word 1, 2, 3\n%s\n" % verb}
        if pk.startswith("cli"):
            pr["opts"] = []
        scs.append({"inputs": {"p/" + nm: ".word 2002\n", "cwd/" + nm: ".word 1001\n", "p/" + nm.lower(): ".word 2003\n", "cwd/" + nm.lower(): ".word 1002\n"},
                    "history": [h], "probe": pr, "names": [nm]})
    try:
        with ThreadPoolExecutor(max_workers=C.NPROC) as ex:
            fresh_r = list(ex.map(lambda t: fs_run(t[1], False, "f%d" % t[0]), enumerate(scs)))
            hist_r = list(ex.map(lambda t: fs_run(t[1], True, "h%d" % t[0]), enumerate(scs)))
        shrunk = 0
        for i, (sc, a, b) in enumerate(zip(scs, fresh_r, hist_r)):
            rep.add_eval(2)
            kinds = [h["kind"] for h in sc["history"]]
            for k in kinds:
                rep.count("fs-history-item:" + k.split(":")[0])
            rep.count("fs-probe:" + sc["probe"]["kind"].split(":")[0])
            for nm in sc["names"]:
                rep.count("fs-name:" + ("tilde-letters" if nm.startswith("~") and nm[1:].isalpha() else "tilde-other" if nm.startswith("~") else "plain"))
            if "probe_result" not in a or "probe_result" not in b:
                rep.disagree("file-system history worker failed", {"fs_scenario": sc}, impl={"fresh": a, "after_history": b})
                continue
            rep.traces_validated += 1
            for k, o in b["log"][:-1]:
                rep.count("fs-item-outcome:%s->%s" % (k.split(":")[0], o))
            if a["probe_result"]["files_written"]:
                rep.count("fs-probe-wrote-files")
            rep.nontrivial(("fs", tuple(kinds), sc["probe"]["kind"], tuple(sc["names"]), i))
            if a["probe_result"] != b["probe_result"]:
                shrunk += 1
                small = fs_shrink(sc, a["probe_result"], "s%d" % i) if shrunk <= 3 else sc
                diff = sorted(k for k in set(a["probe_result"]) | set(b["probe_result"]) if a["probe_result"].get(k) != b["probe_result"].get(k))
                rep.violate("fs-history:" + ",".join(h["kind"].split(":")[0] for h in small["history"])[:60] + ":" + small["probe"]["kind"] + ":" + ",".join(diff),
                            "the probe's result on the real file system (status / base / bytes / diagnostics / files written, by path and content) after this history "
                            "differs from its result in a fresh process; differing parts: " + ", ".join(diff),
                            {"fs_scenario": small, "original_history_length": len(sc["history"])},
                            expected=a["probe_result"], observed=b["probe_result"],
                            replay="props.c18.fs_run(fs_scenario, True, 'x') vs props.c18.fs_run(fs_scenario, False, 'y')")
    finally:
        G.cleanup()
    if scs:
        rep.sample({"fs_history_kinds": [h["kind"] for h in scs[0]["history"]], "fs_probe": scs[0]["probe"], "names": scs[0]["names"]})


def explore(rep, br, tier, seed):
    rng = random.Random(seed)
    fs_history_part(rep, random.Random(seed * 31 + 5), 70 if tier == "quick" else 1200)
    nest_part(rep, rng, 600 if tier == "quick" else 12000)
    seeds = [str(s) for s in range(16)] + ["random"]
    cli_hash_part(rep, rng, 8 if tier == "quick" else 40, seeds)
    if tier == "quick":
        history_part(rep, rng, nprobes=12, nhist_per_probe=5, maxlen=50, seeds=seeds)
    else:
        history_part(rep, rng, nprobes=40, nhist_per_probe=25, maxlen=50, seeds=seeds)


def search_without_model(rep, tier, seed):
    search(rep, None, tier, seed)


def search(rep, br, tier, seed):
    """Model-free: more histories (metamorphic oracle: same sources, fresh process), and the restoration
    oracle on nestings evaluated in python."""
    rng = random.Random(seed + 7)
    for _ in range(1500):
        hcount = [6]
        p = gen_prog(rng, rng.randint(1, 6), [rng.randint(3, 40)], hcount)
        o = run_nest(p, 0, max(hcount[0], 6))
        rep.add_eval()
        if o["depth"] != 0 or o["awaiting"] or o["handlers"] or any(o["flags"]):
            rep.violate("nest:" + json.dumps(p)[:120], "module-level state is not restored after a nesting of the context managers",
                        {"nesting": p, "start_depth": 0, "n_ids": max(hcount[0], 6)}, observed=o, replay="props.c18.run_nest(nesting, start_depth, n_ids)")
            break
    cli_hash_part(rep, rng, 8, [str(x) for x in range(8)])
    if not rep.violations:
        fs_history_part(rep, rng, 150 if tier == "quick" else 1500)
    if not rep.violations:
        history_part(rep, rng, nprobes=10, nhist_per_probe=8 if tier == "quick" else 20, maxlen=50, seeds=["0", "1", "2", "3"])


def replay(data):
    inp = data["input"]
    if "nesting" in inp:
        def tup(x):
            return tuple(tup(y) for y in x) if isinstance(x, list) else x
        o = run_nest(tup(inp["nesting"]), inp["start_depth"], inp["n_ids"])
        print("observed now:", o)
        return o["depth"] == inp["start_depth"] and not o["awaiting"] and not o["handlers"] and not any(o["flags"])
    if "fs_scenario" in inp:
        try:
            a, b = fs_run(inp["fs_scenario"], False, "replay-f"), fs_run(inp["fs_scenario"], True, "replay-h")
        finally:
            G.cleanup()
        print("fresh process :", json.dumps(a.get("probe_result"))[:900])
        print("after history :", json.dumps(b.get("probe_result"))[:900])
        return "probe_result" in a and a.get("probe_result") == b.get("probe_result")
    if "cli_source_last_only" in inp:
        d = os.path.join(G.SCRATCH, "hash", "replay")
        try:
            a = G.run_cli(d, {"a.mac": inp["cli_source"]}, False, [], inp["argv"], hashseed=inp["hashseeds"][0])
            b = G.run_cli(d, {"a.mac": inp["cli_source_last_only"]}, False, [], inp["argv"], hashseed=inp["hashseeds"][0])
        finally:
            G.cleanup()
        print(a["contents"].get(inp["file"]), b["contents"].get(inp["file"]))
        return a["contents"].get(inp["file"]) == b["contents"].get(inp["file"])
    if "cli_source" in inp:
        d = os.path.join(G.SCRATCH, "hash", "replay")
        try:
            a, b = (G.run_cli(d, {"a.mac": inp["cli_source"]}, False, [], inp["argv"], hashseed=s) for s in inp["hashseeds"])
        finally:
            G.cleanup()
        print({"status": a["status"], "files": a["contents"]}, {"status": b["status"], "files": b["contents"]}, sep="\n")
        return (a["status"], a["changed"], a["contents"]) == (b["status"], b["changed"], b["contents"])
    if "hashseeds" in inp:
        a, b = (fresh({"files": inp["files"], "fs": inp.get("fs")}, s) for s in inp["hashseeds"])
        print(a, b, sep="\n")
        return a == b
    want = fresh(inp["probe"])
    got = _pool_one({"history": inp["history"], "probe": inp["probe"]})
    print("fresh process :", json.dumps(want)[:600])
    print("after history :", json.dumps(got and got["probe_result"])[:600])
    return got is not None and got["probe_result"] == want
